#!/bin/bash
# tools/confirm_seed.sh <seed-dir containing patch.diff demo.py notes.md> <id> <property> <checks that catch it...>
# Confirms in a scratch worktree: demo passes on clean tree, fails with patch, repo suite (stable_pass) still passes with patch.
# On success stores /verif/seeded/<id>/ {patch.diff, demo.py, notes.md, meta.json}.
set -u
src=$(realpath "$1"); id=$2; prop=$3; shift 3
wt=$(mktemp -d /tmp/cs-XXXXXX)
git -C /repo worktree add -q --detach "$wt" HEAD || exit 3
cd "$wt"
PYTHONPATH="$wt" /venv/bin/python "$src/demo.py" >/tmp/cs_${id}_clean.out 2>&1; c=$?
git apply "$src/patch.diff" || { echo "patch does not apply"; git -C /repo worktree remove --force "$wt"; exit 3; }
PYTHONPATH="$wt" /venv/bin/python "$src/demo.py" >/tmp/cs_${id}_mut.out 2>&1; m=$?
suite=$(PYTHONPATH="$wt" /tmp/suite.sh "$wt" 2>&1 | head -3)
head=$(git -C /repo rev-parse --short HEAD)
cd /verif
git -C /repo worktree remove --force "$wt"
echo "$id: demo clean=$c mutated=$m ; suite: $suite"
if [ "$c" = 0 ] && [ "$m" = 1 ] && echo "$suite" | grep -q "stable_pass not passing: 0"; then
  mkdir -p /verif/seeded/$id && cp "$src/patch.diff" "$src/demo.py" /verif/seeded/$id/ && cp "$src/notes.md" /verif/seeded/$id/notes.md 2>/dev/null
  /venv/bin/python - "$id" "$prop" "$head" "$suite" "$@" <<'P'
import json,sys
id,prop,head,suite=sys.argv[1:5]; checks=sys.argv[5:]
notes=open('/verif/seeded/%s/notes.md'%id).read() if __import__('os').path.exists('/verif/seeded/%s/notes.md'%id) else ''
json.dump(dict(id=id,property=prop,source="independent sub-agent given only the property text and a scratch worktree",
  repo_head=head, needs_to_manifest=notes[:1500],
  confirmed=dict(demo_exit_clean_tree=0,demo_exit_with_patch=1,repo_suite_with_patch=suite.strip(),
     how="tools/confirm_seed.sh: scratch worktree of /repo HEAD, PYTHONPATH import, demo before/after git apply, full pytest suite compared with BASELINE stable_pass"),
  detected_by=checks), open('/verif/seeded/%s/meta.json'%id,'w'), indent=1)
P
  echo "stored /verif/seeded/$id"
else
  echo "NOT CONFIRMED: see /tmp/cs_${id}_clean.out /tmp/cs_${id}_mut.out"
fi
