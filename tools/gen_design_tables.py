#!/usr/bin/env python3
"""Regenerates section 7 findings table and Appendix A of DESIGN.md from known_findings.json and seeded/*/meta.json."""
import json, os, glob, re
V = os.path.dirname(os.path.dirname(os.path.abspath(__file__)))
kf = json.load(open(os.path.join(V, "known_findings.json")))
rows = []
for e in sorted(kf, key=lambda e: (e["property"], e["status"] != "known", e["key"])):
    rows.append("| %s | %s | %s | %s |" % (e["property"], e["status"] + (" " + e["commit"] if e.get("commit") else ""), e["key"], e["what"].replace("|", "/")))
tab7 = "| property | status / commit | key | what failed |\n|---|---|---|---|\n" + "\n".join(rows)
seeds = []
for m in sorted(glob.glob(os.path.join(V, "seeded", "*", "meta.json"))):
    d = json.load(open(m))
    notes = d.get("needs_to_manifest", "")
    first = re.sub(r"\s+", " ", notes).strip()[:230]
    seeds.append("| %s | %s | %s | %s | %s |" % (d["id"], d["property"], d.get("mechanism", first).replace("|", "/"), d.get("first_run", "caught"), d.get("after", "caught (exit 1)")))
tabA = "| id | property | change (from the seeder's notes) | first run of the check | after strengthening |\n|---|---|---|---|---|\n" + "\n".join(seeds)
s = open(os.path.join(V, "DESIGN.md")).read()
s = re.sub(r"<!-- TABLE7 -->.*?<!-- /TABLE7 -->", lambda m: "<!-- TABLE7 -->\n" + tab7 + "\n<!-- /TABLE7 -->", s, flags=re.S)
s = re.sub(r"<!-- TABLEA -->.*?<!-- /TABLEA -->", lambda m: "<!-- TABLEA -->\n" + tabA + "\n<!-- /TABLEA -->", s, flags=re.S)
open(os.path.join(V, "DESIGN.md"), "w").write(s)
print("findings", len(rows), "seeds", len(seeds))
