#!/usr/bin/env python3
"""Regenerates MANIFEST.json from the table below (claimed checks) + properties.jsonl."""
import json, os
V = os.path.dirname(os.path.dirname(os.path.abspath(__file__)))
props = [json.loads(l) for l in open(os.path.join(V, "properties.jsonl"))]

# id -> (technique, level text, level note)
CLAIMED = {
 "C15": ("stateless bounded-exhaustive exploration of delivery/lock histories on the real BlockChain vs brute-force max-weight reference",
         "Every labelled acyclic parent function on N headers (N<=4 quick, <=5 thorough) x weight assignments x every delivery permutation x every batching, "
         "with <=2 lock_to_index and <=1 re-delivery deviations, is executed from scratch on the real BlockChain; after every delivery the reported chain, "
         "both lookups, tuple links, returned ops and callback ops are compared with a brute-force maximum-weight reference. Exhaustive within the stated bound.",
         "Trusted: the 20-line reference in vf/ref/chain.py; histories needing more headers than the bound, or weights outside the alphabets, are not covered."),
 "C03": ("bounded-exhaustive differential exploration of programs x flag sets x contexts: real BitcoinVM / Tx.check_solution vs an independent consensus interpreter",
         "Six layers, each a complete product within its bound: L1 all 256 opcodes x operand-alphabet stacks (depth<=2, 3 for ternary; depth 3 everywhere in thorough) x relevant flag subsets x branch context; "
         "L2 every script of <=4 (5) tokens over a 30-token control-flow alphabet, also as bare/P2SH/P2WSH spends; L3 limit families (201 ops, 1000 items, 10000/520 bytes, witness sizes, nesting, PUSHDATA forms); "
         "L4 signature x public-key encoding alphabets x all subsets of 5 signature flags x 4 sigversions, m-of-n multisig n<=3 with every signature sequence, CODESEPARATOR/FindAndDelete, witness amounts; "
         "L5 P2SH/witness dispatch x scriptSig shapes x witness shapes x all legal subsets of 7 flags; L6 CLTV/CSV operand x locktime x sequence x version product. Verdict (and final stack for single scripts) must equal the reference.",
         "Trusted: vf/ref/script.py + vf/ref/sighash.py (independent port of Core's interpreter; validated on every run against all 1405 Core script/tx vectors shipped in the repo). "
         "Scripts outside the alphabets (longer control-flow programs, multi-field DER mutations, taproot) are not covered. NOP2/NOP3 with flag unset + DISCOURAGE_UPGRADABLE_NOPS is unconstrained (Core versions differ)."),
 "C04": ("bounded-exhaustive comparison of every sighash entry point with an independent legacy/BIP143/fork-id/single-SHA reference",
         "All transactions within <=2 (3) deviations of a default over 10 boundary-valued axes x every input index x all 256 hash-type bytes x 6 coin classes (BTC, LTC, BCH, BTG, GRS, generic) "
         "through _signature_hash and _signature_for_hash_type_segwit, plus the closures the VM calls driven with a stub VM (signature push shapes x begin_code_hash at every opcode boundary). "
         "Digest equality on every case; fork-id coins must refuse the 128 hash types without 0x40; transaction bytes/ids/unspents unchanged afterwards.",
         "Trusted: vf/ref/sighash.py (BIP143 worked example + every signature of the Core vectors verifying through it). Script codes with truncated pushes and 0/1-byte signature blobs are outside the space."),
 "C05": ("explicit exploration of signing-pass histories on the real transaction object, invariants judged by the reference interpreter",
         "States are transactions under signing; events are signing passes (key subset x supply mechanism {lookup, WIF, BIP32 keychain} x hash type x input set). Explored: every puzzle kind x 6 hash types x 7 coins x 3 mechanisms; "
         "every ordered pair of kinds; every order of single-key passes for m-of-n (n<=3, 4 thorough) in 5 multisig forms with a wrong-key / repeated / other-input pass at every position; (m,n) up to 20. "
         "After every pass: only asked, not-yet-valid inputs changed; input valid under the standard flags iff m listed keys have signed (reference verdict and pycoin verdict); signatures strict-DER, low-S, requested hash type; re-signing is the identity.",
         "Trusted: vf/ref/script.py as validity judge; key derivation through pycoin BIP32 on the harness side. Non-standard puzzles are outside the property."),
 "C06": ("exhaustive single-field mutation of signed transactions + mutate/undo/validate histories on one object vs fresh objects",
         "For signed transactions of every puzzle kind x 6 hash types (3 inputs, 4 and 2 outputs) every mutation of a ~90-entry alphabet (fields, insert/delete/swap of inputs and outputs, unlocking data swap, unspents edits/removal) is applied to the live object; "
         "each input's verdict must equal the reference interpreter's verdict on the mutated transaction, which is itself cross-checked against a field-level commitment view on every case. "
         "Histories of <=2 (3) mutations with undo and repeated validation on one object must agree with a fresh object parsed from the current bytes after every step.",
         "Trusted: vf/ref/script.py + sighash.py; commitment view in c06.py (a disagreement between the two is MODEL-INVALID, not a violation)."),

 "C01": ("exhaustive small-scope exploration on toy prime-order curves + boundary products on production curves, every backend, vs RFC 6979 / ECDSA reference",
         "On every toy curve y^2=x^3+ax+b (p=3 mod 4, prime order, p<=23/31) built with the real Generator: all d x a z family that exercises bits2int (nonce = RFC 6979 reference), sign/sign_with_recid (valid, = reference when the first nonce is usable, retry terminates), "
         "verify on the FULL product Q x z x (r,s) in [0,n+1]^2 against the property's predicate, recovery for every (z,r,s,y_parity). On secp256k1/secp256r1, pure Python and OpenSSL-accelerated: 8x9 key x hash boundary product, crafted (r,s) grids, keys chosen to make the sum infinity, Key.sign/verify DER wrappers, nonce separation.",
         "Trusted: vf/ref/ec.py, rfc6979.py (RFC 6979 A.1/A.2.3/A.2.5 vectors, exhaustive toy-curve self-consistency). 256-bit values outside the boundary alphabets and the absent libsecp256k1 backend are not covered."),
 "C02": ("exhaustive enumeration of the group on toy curves (all pairs, triples, scalars, blinding factors) + boundary scalars on production curves, pure vs accelerated",
         "All ordered pairs of points (with unreduced representatives and infinity) for +,-,negation; all n^3 triples (associativity) for n<=43 (61); every point x every k in [-2n-1,2n+1] and 2^256-ish scalars on Curve and Generator; "
         "Generator multiplication for EVERY blinding factor 0..n-1 x every k; points_for_x for every x in [0,p); the generator object used as a point operand. secp256k1/secp256r1 (BLS12-381 in thorough): 79 scalars x 3 points x 9 operations, special sums, 7 blinding factors, ECDH commutation, identical coordinates pure vs OpenSSL.",
         "Trusted: vf/ref/ec.py (three independent multiplication methods, group axioms, published multiples). Curves with p != 3 mod 4 or composite order are outside the property."),
 "C10": ("exhaustive grids over candidate encodings (length x prefix x coordinate class) vs canonical SEC / strict DER / WIF references",
         "SEC: every length 0..70 x all 256 prefix bytes x 10 x-classes x 5 y-classes through keys.public / Key.from_sec / sec_to_public_pair: accepted iff canonical, and then re-encodes identically. WIF: 9 exponents x 2 flags x 51 networks (text, parse-back, sec, hash160, address; out-of-range refused with the documented error). "
         "DER: 12x12 (r,s) values x every deletion / cut / insertion / trailing byte / long-form variant.",
         "Trusted: vf/ref/sec.py, der.py, base58 reference. GRS-family WIF/address need the absent groestl hash and are reported as absent."),
 "C07": ("deviation-bounded exhaustive transaction shapes x every witness mixture x coin classes vs independent wire reference",
         "Transactions within <=2 (3) deviations of a base over 10 boundary axes (script lengths across 252/253/65535/65536, 64-bit amounts, versions, sequences...) x every mixture of 8 witness kinds over 1..3 inputs (+252/253-input shapes) x BTC/LTC/BCH/BTG/GRS: as_bin = reference bytes, parse o serialise = id both ways, hex form, id/w_id definition, unspents extension; "
         "Spendables: full product of 7 boundary fields x text/dict/binary forms.",
         "Trusted: vf/ref/wire.py (all Core tx vectors, block 80971, BIP143 example, published txids)."),
 "C14": ("exhaustive subsets and single-position corruptions of honest BIP37 proofs; boundary products for headers/blocks/merkle lists",
         "Headers: full product of 6 boundary fields x 3 coins + set_nonce/assignment history (id = dSHA256 of 80 bytes). Blocks of 1..6 (12) txs with witness/large txs at every position and every alteration (must raise on root mismatch). merkle() on 1..33 (130) hashes. "
         "Merkleblock: n=1..11 (15), EVERY subset of matched txs, honest proof accepted with exactly the matched ids; EVERY single-position corruption (hash bit flips, removal, insertion, duplication, padding bit, root) rejected.",
         "Trusted: vf/ref/merkle.py honest builder+verifier (roots from pycoin/merkle.py test data; builder o verifier identity for all subsets n<=7)."),
 "C16": ("full / deviation-bounded products of typed field alphabets for all 28 message types vs an independent layout table",
         "Every message name the library defines x boundary alphabets per declared field type (integers, compact sizes, 6-byte ids, optional bool, strings across 252/253/65536, IPv4/IPv6 addresses x ports, inv items, embedded tx/header/block, arrays of length 0/1/2/253): full product when <=50k (200k) else deviation <=2 (3). "
         "pack = reference bytes; parse(pack) = same field values; layout of every message cross-checked.",
         "Trusted: vf/ref/wire.py MESSAGES table (protocol documentation examples)."),
 "C20": ("full product of boundary outputs x outpoint labels x script lengths x coins vs reference CheckTransaction",
         "0..3 inputs over 7 outpoint labels (incl. null, (0^32,0), duplicates at any two positions, near-duplicates) x coinbase script lengths {0,1,2,3,99,100,101} x 0..3 (4) outputs over 10 values around MAX_MONEY (totals crossing only cumulatively) x 5 coins; stripped/total size families at 999999/1000000/1000001. "
         "check() rejects exactly the listed defects with ValidationFailureError, accepts the rest (size band between stripped and total left unconstrained), is_coinbase, bad_solution_count for coinbase, bytes unchanged.",
         "Trusted: vf/ref/wire.py check_transaction (tx_valid accepted, tx_invalid categories rejected for the right reason)."),
 "C09": ("exhaustive path/index alphabets + Mode S histories of the sub-key cache vs BIP32 / Electrum reference",
         "6 seeds x every path of depth <=2 (3) over {0,1,2^24-1,2^24,2^31-1}x{normal,hardened} x spellings: every field and both text forms = reference; public derivation = public half; hardened from public refused. Range grammar: all strings of <=2 (3) components. Text round trip on all 51 networks x depth {0,1,255} x child {0,2^31,2^32-1}, bip49/84 variants, cross-kind refusal. "
         "Cache: all 2x1884 histories of <=3 subkey() calls on one node must equal fresh derivation. Electrum commutation.",
         "Trusted: vf/ref/bip32.py (BIP32 vectors 1-3). I_L>=n / zero-key retry branches unreachable by enumeration; GRS-family text needs the absent groestl hash."),
 "C13": ("exhaustive small value lists x output arrangements x every pool value; every satoshi amount up to 2e5 (2e6) + structured large amounts",
         "create_tx over value lists of length 1-3 x every arrangement of <=4 unspecified and <=2 fixed outputs x every fee putting the split pool at -2..3j+2: outputs = reference split (positive, differ by <=1, earlier get remainder), outputs+fee = inputs, fee() identity, input/spendable pairing, errors when insufficient; spendable forms; validate_unspents with every single discrepancy x database fault; BTC/mBTC conversion exact both ways.",
         "Trusted: vf/ref/money.py (integer-only arithmetic)."),
 "C17": ("exhaustive products of signer x message x verifier and of crafted signature bytes vs reference recovery",
         "51 networks x 10 signers x 11 messages: sign -> verify (key and address) -> recover exactly the signer's pair and compression flag; armoured form round trip under the property's side conditions. BTC/XTN/DOGE: full cross product signer x (verifier key|address, message): verifies only for the signer. "
         "Totality: base64 of 256 first bytes x 9 r values x 7 s values, every length 0..70, malformed texts: verify returns a bool and agrees with the reference verdict.",
         "Trusted: vf/ref/msgsig.py (libsecp-style compact recovery; a real-world signature vector)."),
 "C19": ("exhaustive short messages + boundary lengths in two configurations; Mode S insertion orders for the Bloom filter",
         "All 65793 messages of length <=2, lengths 3..300 (2000, 1e6) x fills, padding boundaries: contrib ripemd160 = hashlib = independent reference; hash160/double_sha256 compositions; the same grid in a child interpreter with PYCOIN_USE_PYTHON_RIPEMD160=1 (selection asserted). murmur3: all inputs <=2 bytes and lengths 3..40 x 161 seeds incl. >32-bit. "
         "BloomFilter: sizes x function counts x tweaks x all sequences of <=3 insertions: filter bytes = BIP37 reference after every insertion.",
         "Trusted: vf/ref/ripemd160.py (written from the paper), murmur3.py (published vectors + Core bloom tests)."),
 "C08": ("exhaustive grids over networks x kinds x payload lengths, all ordered network pairs, template mutations and all short scripts",
         "All 51 registered networks: script<->address round trip for 5 kinds x 7 payloads; key.address(); acceptance grid (every Base58 prefix x near-miss prefixes x payload length 0..40; every HRP x version 0..17 x program length 0..41 x bech32/bech32m x padding/case variants): accepted strings have the right length and re-encode identically; "
         "every address of network A offered to every network B (51x51); classification: 12 templates x every single-token mutation over a 54-token alphabet + every script of <=3 (4) tokens: reported standard only if rebuilding reproduces the bytes.",
         "Trusted: vf/ref/addr.py (BIP173/350 vectors, known addresses) and its pinned prefix table. GRS family: groestl hash absent."),
 "C18": ("exhaustive string grids x all 31 text entry points x all networks; shared-cache histories",
         "Every (network, entry point, text): checksummed Base58 with each prefix and near-miss x boundary payload lengths x shaped payloads (WIF/extended-key contents in and out of range), bech32 grid with own/near/foreign HRPs, colon and numeric forms, junk/unicode/long strings: never raises; returned objects re-serialise and re-parse equal; wrong-length/out-of-range payloads refused; kinds kept apart. "
         "Mode S: all ordered pairs of entry points on one shared parseable_str vs a fresh str.",
         "Trusted: vf/ref/addr.py. Two recorded known findings (version/key mismatch of extended keys; disassembly of undefined opcodes)."),

 "C11": ("exhaustive small strings / boundary grids on the real codecs + exhaustive weight<=4 decision on a linear syndrome model extracted from and bound to the real bech32_polymod",
         "Base58: ALL byte strings of length <=2, lengths 3..80 x every leading-zero count x tails; all strings <=3 characters over the alphabet and outside it. Base58Check: payload lengths x contents: valid string, all 4x255 checksum-byte corruptions, all single-character substitutions (accept iff recomputed checksum matches). "
         "Bech32/Bech32m: hrp x version 0..16(+17,31) x program length 0..42 x constant x padding x case (every single-character case flip): acceptance = BIP173/BIP350, encode o decode = id. Error detection: every 1- and 2-position substitution of valid addresses on the real decoder; for every data-part length 8..90 the per-(position,symbol) syndrome table is read off the REAL polymod, "
         "additivity verified exhaustively for weight 1 and 2, and the table is searched exhaustively (meet in the middle) for zero-syndrome patterns of weight <=4; cross-constant patterns that are themselves valid encodings are fed to both decoders.",
         "Trusted: vf/ref/base58.py, bech32.py (BIP vectors). Model assumption recorded in evidence: the real polymod is GF(2)-affine on inputs of weight >=3 as it is on all inputs of weight <=2 (checked) and on every enumerated string."),
 "C12": ("exhaustive enumeration of integers, candidate encodings, push lengths, truncations and short scripts vs CScriptNum / CheckMinimalPush references",
         "Every integer |v|<2^17 and +-2^k+d up to 2^72: encode = unique minimal form, decode o encode = id. ALL byte strings of length <=2 (+3/4-byte families, boundary forms) as candidate encodings: require_minimal accepts exactly the minimal forms. Every data length 0..600, 65534..65537, 70000 and all 256 one-byte payloads: compile_push_data = shortest push, read back identically, accepted by the consensus minimal-push rule; "
         "EVERY proper prefix of every push encoding is reported malformed; every byte string of the bound as an instruction stream; compile(disassemble(s)) = s for all scripts of <=3 tokens over named opcodes and boundary pushes.",
         "Trusted: vf/ref/scriptnum.py (Core CScriptNum / CheckMinimalPush semantics, vectors from the repo tests)."),
}

# extensions made after the seeding rounds (appended to the level text of each check)
ADDED = {
 "C01": "Decoy group order before every nonce derivation; the key also handed over as one list object overwritten in place between verify calls.",
 "C02": "Decoy generators (other base point, same point on another curve); ECDH peer key as list / Point / Point of the other production curve. A separately built point at infinity as operand; a user-constructed 384-bit-order generator (NIST P-384) in the scalar-multiplication grid.",
 "C03": "L4 also: signatures with R or S >= n (Core's CheckLowS overflow rule), hash types with undefined bits, lax-DER signatures of 84 / 272 bytes embedded in the script code (FindAndDelete through PUSHDATA1 / PUSHDATA2).",
 "C04": "Fork-id coins refuse at BOTH entry points; Bitcoin Cash closures keep signature pushes that carry the fork-id bit (no FindAndDelete); signature blobs of 76 and 256 bytes.",
 "C05": "Histories also: an empty input set, mutate-then-re-sign, two parties each holding one input's keys in both orders, input-index collections in seven container shapes (incl. one-shot iterators).",
 "C06": "Also one-input transactions with previous_hash := 0^32 / previous_index := 2^32-1, cosigners with different hash types, Groestlcoin units, missing spent outputs under four flag sets.",
 "C07": "The coinbase outpoint is one deviation (meets every witness mixture); scripts of 131072 bytes; spent flag re-assigned as a bool; Mode S driver C07.history (edits by assignment / set_witness / in place, fresh-object leak check).",
 "C08": "Depth-2 aliasing step on every round trip: the caller edits the info dictionaries it was handed, then asks again.",
 "C09": "Text depths {0,1,127,128,255}; the depth-256 child of every depth-255 node must refuse its text form.",
 "C10": "SEC blob handed over in a bytearray the caller overwrites afterwards (key must keep its own copy); WIF on a parseable_str shared between networks. public_copy() facts of every key; checksummed WIF payloads of the wrong length or with a wrong marker are refused.",
 "C11": "Excluded characters include lone surrogates and an astral character (also inserted into valid Base58Check text); checksum-leading-zero payload family; same text offered to a Groestlcoin parser first.",
 "C12": "compile_push_data_list with tuple / iterator / generator arguments. Non-minimal pushes are refused by both decoder routes (streamer and ScriptTools.get_opcodes).",
 "C13": "Mode S driver C13.history (fee after each replacement of the spent-output records, incl. one stray record); the caller reorders / empties the lists it passed to create_tx.",
 "C14": "Proof corruptions also: one more flag byte 0x01/0x80/0xff and repeated-last-node forgeries (CVE-2012-2459 shape) for every odd level x every match set; merkle() must leave the caller's list alone; per-coin header classes.",
 "C15": "A decoy BlockChain per unit must neither affect nor be affected; second driver C15.preload (preload_locked_blocks then deliveries); 32-byte ids configuration.",
 "C16": "Merkleblock proofs for every subset up to n = 9 (11); depth-2 aliasing step: the caller edits the parsed dictionary, the same bytes are parsed again; networks created in a fixed order with class checks.",
 "C17": "Verifiers also: the key's address on another network and the P2SH address built from the key's hash (both must fail); r alphabet includes the least x > n with a curve point; form feed / unicode separators / trailing spaces in armoured messages. CRLF messages with splitlines-only separators; every armour re-parsed as a DOS text file.",
 "C18": "Extended keys with depth byte 0x7f/0x80/0xff; depth-2 aliasing step on Contract.info(); identities carry a network mark; lone-surrogate strings.",
 "C19": "Every message also as a bytearray (same digest, buffer unchanged) in both configurations; Bloom decoy filter; two-byte-prefix address item.",
 "C20": "Size boundary also with 252/253 inputs or outputs, 300+300, 65535/65536 outputs; Mode S driver C20.history; BTC decoy check before another coin's check.",
}
NOT_YET = "check not built yet (work in progress; see DESIGN.md section 5 for the planned exploration)"

checks, na = [], []
for p in props:
    i = p["id"]
    if i in CLAIMED:
        t, text, note = CLAIMED[i]
        checks.append(dict(property_id=i, quick_cmd="./check %s --tier quick" % i, thorough_cmd="./check %s --tier thorough" % i,
                           evidence_file="/verif/evidence/%s.json" % i, replay_cmd_template="./check %s --replay {path}" % i,
                           engine="vf", level_claimed=dict(category="model_checking", text=text + " " + ADDED.get(i, ""), design_ref="DESIGN.md section 5, %s" % i),
                           level_note=note, technique=t))
    else:
        na.append(dict(property_id=i, reason=NOT_YET))
m = dict(version=1, setup_cmd="/venv/bin/python -m compileall -q vf >/dev/null; true",
         hooks=dict(guard="PYCOIN_VERIF", enable="no source hooks: checks import /repo's working tree directly (pycoin is installed editable in /venv)",
                    baseline_off_cmd="cd /repo && /venv/bin/python -m pytest -ra -q -p no:cacheprovider --timeout=900 --continue-on-collection-errors",
                    source_commits=[], add_only=True),
         engines=[dict(name="vf", path="/verif/vf", serves_properties=sorted(CLAIMED),
                       kind_free_text="hand-written explicit-state / bounded-exhaustive explorer over the real Python code with independent reference models")],
         checks=checks, not_applicable=na,
         notes="All checks: exit 0 held / 1 VIOLATION / 2 harness or model error. known_findings.json lists recorded and fixed defects.")
json.dump(m, open(os.path.join(V, "MANIFEST.json"), "w"), indent=1)
print("claimed", len(checks), "not_applicable", len(na))
