#!/usr/bin/env python3
"""Regenerates MANIFEST.json from the table below (claimed checks) + properties.jsonl."""
import json, os
V = os.path.dirname(os.path.dirname(os.path.abspath(__file__)))
props = [json.loads(l) for l in open(os.path.join(V, "properties.jsonl"))]

# id -> (technique, level text, level note)
CLAIMED = {
 "C15": ("stateless bounded-exhaustive exploration of delivery/lock histories on the real BlockChain vs brute-force max-weight reference",
         "Every labelled acyclic parent function on N headers (N<=4 quick, <=6 thorough) x weight assignments x every delivery permutation x every batching, "
         "with <=2 lock_to_index and <=1 re-delivery deviations, is executed from scratch on the real BlockChain; after every delivery the reported chain, "
         "both lookups, tuple links, returned ops and callback ops are compared with a brute-force maximum-weight reference. Exhaustive within the stated bound.",
         "Trusted: the 20-line reference in vf/ref/chain.py; histories needing more headers than the bound, or weights outside the alphabets, are not covered."),
 "C03": ("bounded-exhaustive differential exploration of programs x flag sets x contexts: real BitcoinVM / Tx.check_solution vs an independent consensus interpreter",
         "Six layers, each a complete product within its bound: L1 all 256 opcodes x operand-alphabet stacks (depth<=2, 3 for ternary; depth 3 everywhere in thorough) x relevant flag subsets x branch context; "
         "L2 every script of <=4 (5) tokens over a 30-token control-flow alphabet, also as bare/P2SH/P2WSH spends; L3 limit families (201 ops, 1000 items, 10000/520 bytes, witness sizes, nesting, PUSHDATA forms); "
         "L4 signature x public-key encoding alphabets x all subsets of 5 signature flags x 4 sigversions, m-of-n multisig n<=3 with every signature sequence, CODESEPARATOR/FindAndDelete, witness amounts; "
         "L5 P2SH/witness dispatch x scriptSig shapes x witness shapes x all legal subsets of 7 flags; L6 CLTV/CSV operand x locktime x sequence x version product. Verdict (and final stack for single scripts) must equal the reference.",
         "Trusted: vf/ref/script.py + vf/ref/sighash.py (independent port of Core's interpreter; validated on every run against all 1405 Core script/tx vectors shipped in the repo). "
         "Scripts outside the alphabets (longer control-flow programs, multi-field DER mutations, taproot) are not covered. NOP2/NOP3 with flag unset + DISCOURAGE_UPGRADABLE_NOPS is unconstrained (Core versions differ)."),
}
NOT_YET = "check not built yet (work in progress; see DESIGN.md section 5 for the planned exploration)"

checks, na = [], []
for p in props:
    i = p["id"]
    if i in CLAIMED:
        t, text, note = CLAIMED[i]
        checks.append(dict(property_id=i, quick_cmd="./check %s --tier quick" % i, thorough_cmd="./check %s --tier thorough" % i,
                           evidence_file="/verif/evidence/%s.json" % i, replay_cmd_template="./check %s --replay {path}" % i,
                           engine="vf", level_claimed=dict(category="model_checking", text=text, design_ref="DESIGN.md section 5, %s" % i),
                           level_note=note, technique=t))
    else:
        na.append(dict(property_id=i, reason=NOT_YET))
m = dict(version=1, setup_cmd="/venv/bin/python -m compileall -q vf >/dev/null; true",
         hooks=dict(guard="PYCOIN_VERIF", enable="no source hooks: checks import /repo's working tree directly (pycoin is installed editable in /venv)",
                    baseline_off_cmd="cd /repo && /venv/bin/python -m pytest -ra -q -p no:cacheprovider --timeout=900 --continue-on-collection-errors",
                    source_commits=[], add_only=True),
         engines=[dict(name="vf", path="/verif/vf", serves_properties=sorted(CLAIMED),
                       kind_free_text="hand-written explicit-state / bounded-exhaustive explorer over the real Python code with independent reference models")],
         checks=checks, not_applicable=na,
         notes="All checks: exit 0 held / 1 VIOLATION / 2 harness or model error. known_findings.json lists recorded and fixed defects.")
json.dump(m, open(os.path.join(V, "MANIFEST.json"), "w"), indent=1)
print("claimed", len(checks), "not_applicable", len(na))
