#!/usr/bin/env python3
"""Regenerates MANIFEST.json from the table below (claimed checks) + properties.jsonl."""
import json, os
V = os.path.dirname(os.path.dirname(os.path.abspath(__file__)))
props = [json.loads(l) for l in open(os.path.join(V, "properties.jsonl"))]

# id -> (technique, level text, level note)
CLAIMED = {
 "C15": ("stateless bounded-exhaustive exploration of delivery/lock histories on the real BlockChain vs brute-force max-weight reference",
         "Every labelled acyclic parent function on N headers (N<=4 quick, <=6 thorough) x weight assignments x every delivery permutation x every batching, "
         "with <=2 lock_to_index and <=1 re-delivery deviations, is executed from scratch on the real BlockChain; after every delivery the reported chain, "
         "both lookups, tuple links, returned ops and callback ops are compared with a brute-force maximum-weight reference. Exhaustive within the stated bound.",
         "Trusted: the 20-line reference in vf/ref/chain.py; histories needing more headers than the bound, or weights outside the alphabets, are not covered."),
 "C03": ("bounded-exhaustive differential exploration of programs x flag sets x contexts: real BitcoinVM / Tx.check_solution vs an independent consensus interpreter",
         "Six layers, each a complete product within its bound: L1 all 256 opcodes x operand-alphabet stacks (depth<=2, 3 for ternary; depth 3 everywhere in thorough) x relevant flag subsets x branch context; "
         "L2 every script of <=4 (5) tokens over a 30-token control-flow alphabet, also as bare/P2SH/P2WSH spends; L3 limit families (201 ops, 1000 items, 10000/520 bytes, witness sizes, nesting, PUSHDATA forms); "
         "L4 signature x public-key encoding alphabets x all subsets of 5 signature flags x 4 sigversions, m-of-n multisig n<=3 with every signature sequence, CODESEPARATOR/FindAndDelete, witness amounts; "
         "L5 P2SH/witness dispatch x scriptSig shapes x witness shapes x all legal subsets of 7 flags; L6 CLTV/CSV operand x locktime x sequence x version product. Verdict (and final stack for single scripts) must equal the reference.",
         "Trusted: vf/ref/script.py + vf/ref/sighash.py (independent port of Core's interpreter; validated on every run against all 1405 Core script/tx vectors shipped in the repo). "
         "Scripts outside the alphabets (longer control-flow programs, multi-field DER mutations, taproot) are not covered. NOP2/NOP3 with flag unset + DISCOURAGE_UPGRADABLE_NOPS is unconstrained (Core versions differ)."),
 "C04": ("bounded-exhaustive comparison of every sighash entry point with an independent legacy/BIP143/fork-id/single-SHA reference",
         "All transactions within <=2 (3) deviations of a default over 10 boundary-valued axes x every input index x all 256 hash-type bytes x 6 coin classes (BTC, LTC, BCH, BTG, GRS, generic) "
         "through _signature_hash and _signature_for_hash_type_segwit, plus the closures the VM calls driven with a stub VM (signature push shapes x begin_code_hash at every opcode boundary). "
         "Digest equality on every case; fork-id coins must refuse the 128 hash types without 0x40; transaction bytes/ids/unspents unchanged afterwards.",
         "Trusted: vf/ref/sighash.py (BIP143 worked example + every signature of the Core vectors verifying through it). Script codes with truncated pushes and 0/1-byte signature blobs are outside the space."),
 "C05": ("explicit exploration of signing-pass histories on the real transaction object, invariants judged by the reference interpreter",
         "States are transactions under signing; events are signing passes (key subset x supply mechanism {lookup, WIF, BIP32 keychain} x hash type x input set). Explored: every puzzle kind x 6 hash types x 7 coins x 3 mechanisms; "
         "every ordered pair of kinds; every order of single-key passes for m-of-n (n<=3, 4 thorough) in 5 multisig forms with a wrong-key / repeated / other-input pass at every position; (m,n) up to 20. "
         "After every pass: only asked, not-yet-valid inputs changed; input valid under the standard flags iff m listed keys have signed (reference verdict and pycoin verdict); signatures strict-DER, low-S, requested hash type; re-signing is the identity.",
         "Trusted: vf/ref/script.py as validity judge; key derivation through pycoin BIP32 on the harness side. Non-standard puzzles are outside the property."),
 "C06": ("exhaustive single-field mutation of signed transactions + mutate/undo/validate histories on one object vs fresh objects",
         "For signed transactions of every puzzle kind x 6 hash types (3 inputs, 4 and 2 outputs) every mutation of a ~90-entry alphabet (fields, insert/delete/swap of inputs and outputs, unlocking data swap, unspents edits/removal) is applied to the live object; "
         "each input's verdict must equal the reference interpreter's verdict on the mutated transaction, which is itself cross-checked against a field-level commitment view on every case. "
         "Histories of <=2 (3) mutations with undo and repeated validation on one object must agree with a fresh object parsed from the current bytes after every step.",
         "Trusted: vf/ref/script.py + sighash.py; commitment view in c06.py (a disagreement between the two is MODEL-INVALID, not a violation)."),
}
NOT_YET = "check not built yet (work in progress; see DESIGN.md section 5 for the planned exploration)"

checks, na = [], []
for p in props:
    i = p["id"]
    if i in CLAIMED:
        t, text, note = CLAIMED[i]
        checks.append(dict(property_id=i, quick_cmd="./check %s --tier quick" % i, thorough_cmd="./check %s --tier thorough" % i,
                           evidence_file="/verif/evidence/%s.json" % i, replay_cmd_template="./check %s --replay {path}" % i,
                           engine="vf", level_claimed=dict(category="model_checking", text=text, design_ref="DESIGN.md section 5, %s" % i),
                           level_note=note, technique=t))
    else:
        na.append(dict(property_id=i, reason=NOT_YET))
m = dict(version=1, setup_cmd="/venv/bin/python -m compileall -q vf >/dev/null; true",
         hooks=dict(guard="PYCOIN_VERIF", enable="no source hooks: checks import /repo's working tree directly (pycoin is installed editable in /venv)",
                    baseline_off_cmd="cd /repo && /venv/bin/python -m pytest -ra -q -p no:cacheprovider --timeout=900 --continue-on-collection-errors",
                    source_commits=[], add_only=True),
         engines=[dict(name="vf", path="/verif/vf", serves_properties=sorted(CLAIMED),
                       kind_free_text="hand-written explicit-state / bounded-exhaustive explorer over the real Python code with independent reference models")],
         checks=checks, not_applicable=na,
         notes="All checks: exit 0 held / 1 VIOLATION / 2 harness or model error. known_findings.json lists recorded and fixed defects.")
json.dump(m, open(os.path.join(V, "MANIFEST.json"), "w"), indent=1)
print("claimed", len(checks), "not_applicable", len(na))
