#!/bin/bash
# tools/run_all.sh <tier> [props...] - run checks one after another, print one summary line each
tier=${1:-quick}; shift
props=("$@"); [ ${#props[@]} -eq 0 ] && props=(C01 C02 C03 C04 C05 C06 C07 C08 C09 C10 C11 C12 C13 C14 C15 C16 C17 C18 C19 C20)
for p in "${props[@]}"; do
  out=$(./check $p --tier $tier 2>&1); rc=$?
  echo "$p exit=$rc $(echo "$out" | grep -v '^INFO\|^KNOWN' | tail -1)"
  echo "$out" | grep "^VIOLATION\|^DISAGREEMENT\|HARNESS\|MODEL-INVALID" | head -5
done
