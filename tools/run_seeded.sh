#!/bin/bash
# tools/run_seeded.sh [tier] [ids...] - run, for every seeded change, the check(s) listed in its meta.json against a scratch
# worktree of /repo HEAD with the patch applied; writes seeded/RESULTS.json (id -> {check: exit code}).
# OUT=<file> redirects the result file and WORKERS=<n> limits the workers per check, so that several instances can share the machine
# (tools/run_seeded_all.sh runs two halves side by side and merges them).
tier=${1:-quick}; shift
cd /verif
ids=("$@"); [ ${#ids[@]} -eq 0 ] && ids=($(ls seeded | grep -v RESULTS))
out=${OUT:-seeded/RESULTS.json}
/venv/bin/python - "$out" <<'P'
import json,sys,os
p=sys.argv[1]
if not os.path.exists(p): json.dump({},open(p,'w'))
P
for id in "${ids[@]}"; do
  d=seeded/$id; [ -f $d/patch.diff ] || continue
  props=$(/venv/bin/python -c "import json;print(' '.join(c.split()[1] for c in json.load(open('$d/meta.json'))['detected_by']))")
  res=$(tools/try_patch.sh $d/patch.diff $tier $props 2>&1 | grep "^== ")
  echo "$id: $res"
  /venv/bin/python - "$out" "$id" "$res" <<'P'
import json,sys,re
p,id,res=sys.argv[1:4]
r=json.load(open(p)); r[id]={m.group(1):int(m.group(2)) for m in re.finditer(r"== (C\d+) exit=(\d+)",res)}
json.dump(r,open(p,'w'),indent=1,sort_keys=True)
P
done
