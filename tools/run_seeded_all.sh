#!/bin/bash
# tools/run_seeded_all.sh [tier] - every stored seeded change, two streams of 8 workers side by side; merges into seeded/RESULTS.json
tier=${1:-quick}
cd /verif
ids=($(ls seeded | grep -v RESULTS))
a=(); b=()
for i in "${!ids[@]}"; do if [ $((i % 2)) = 0 ]; then a+=("${ids[$i]}"); else b+=("${ids[$i]}"); fi; done
rm -f /tmp/rs_a.json /tmp/rs_b.json
OUT=/tmp/rs_a.json WORKERS=8 tools/run_seeded.sh $tier "${a[@]}" > /tmp/rs_a.log 2>&1 &
OUT=/tmp/rs_b.json WORKERS=8 tools/run_seeded.sh $tier "${b[@]}" > /tmp/rs_b.log 2>&1 &
wait
/venv/bin/python - <<'P'
import json
r = {}
for f in ("/tmp/rs_a.json", "/tmp/rs_b.json"):
    r.update(json.load(open(f)))
json.dump(r, open("/verif/seeded/RESULTS.json", "w"), indent=1, sort_keys=True)
bad = {k: v for k, v in r.items() if not v or any(x != 1 for x in v.values())}
print("seeded changes run:", len(r), "not detected (exit != 1):", bad)
P
