#!/bin/bash
# tools/try_patch.sh <patch.diff> <tier> <PROP> [PROP...]  - run checks against a scratch worktree of /repo HEAD with the patch
# applied (pycoin imported through PYTHONPATH; /repo itself is not touched; evidence goes to a scratch dir).
set -u
patch=$(realpath "$1"); tier=$2; shift 2
wt=$(mktemp -d /tmp/mut-XXXXXX)
git -C /repo worktree add -q --detach "$wt" HEAD || exit 3
if ! git -C "$wt" apply "$patch"; then echo "PATCH DOES NOT APPLY"; git -C /repo worktree remove --force "$wt"; exit 3; fi
cd /verif
for p in "$@"; do
  out=$(PYTHONPATH="$wt" VERIF_EVIDENCE_DIR="$wt/_ev" ./check "$p" --tier "$tier" ${WORKERS:+--workers $WORKERS} 2>&1); rc=$?
  echo "== $p exit=$rc  $(echo "$out" | grep -c '^VIOLATION') violation lines"
  echo "$out" | grep -A2 "^DISAGREEMENT" | head -${SHOW:-8}
  echo "$out" | grep "HARNESS-ERROR\|MODEL-INVALID" | head -3
  echo "$out" | tail -1
done
git -C /repo worktree remove --force "$wt"
