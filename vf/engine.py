"""Bounded exhaustive explorer: enumerates every case of every driver of a property,
shards them over forked workers, evaluates the driver's oracle on each, and produces
evidence, replay files and the VIOLATION / KNOWN-FINDING protocol (DESIGN.md §2).

Nothing here samples: a driver's ``units`` generator defines a finite space and every
element of it is executed.  ``exhaustive`` is reported True only if every worker reached
the end of every stream.
"""
import hashlib
import json
import multiprocessing
import os
import signal
import subprocess
import sys
import time
import traceback

VERIF = os.path.dirname(os.path.dirname(os.path.abspath(__file__)))
NWORKERS = min(16, os.cpu_count() or 1)
UNIT_TIMEOUT_S = 600
MAX_KEEP_PER_DRIVER = 400     # disagreements kept (with full case) per driver per worker
MAX_REPORT = 8                # VIOLATION lines printed per property


class ModelInvalid(Exception):
    """A reference model failed its own binding vectors: harness error, never a VIOLATION."""


class CaseTimeout(BaseException):
    pass


class Outcome(object):
    __slots__ = ("ok", "cls", "ref", "impl", "tags", "n")

    def __init__(self, ok, cls, ref="", impl="", tags=None, n=1):
        self.ok = bool(ok)
        self.cls = cls
        self.ref = ref
        self.impl = impl
        self.tags = tags or {}
        self.n = n

    def as_dict(self):
        return dict(ok=self.ok, cls=self.cls, ref=str(self.ref), impl=str(self.impl), tags=self.tags)


def OK(cls, n=1):
    return Outcome(True, cls, n=n)


def BAD(cls, ref, impl, n=1, **tags):
    return Outcome(False, cls, ref, impl, tags, n)


class Driver(object):
    """One exploration of one property.

    id            "C12.int"
    units(tier)   finite generator of JSON-able work units (canonical order, simplest first)
    execute(unit) generator of (case, Outcome); default: the unit is the case
    run(case)     execute one concrete case (used by replay and the determinism gate)
    nontrivial    predicate on outcome class
    selfcheck()   validate the reference model on published vectors; raise ModelInvalid
    """
    id = None
    bound = {}
    rule = ""

    def __init__(self, tier, seed):
        self.tier = tier
        self.seed = seed

    def units(self):
        raise NotImplementedError

    def execute(self, unit):
        yield unit, self.run(unit)

    def run(self, case):
        raise NotImplementedError

    def nontrivial(self, cls):
        return not cls.startswith("trivial")

    def selfcheck(self):
        return 0


def seed_bytes(seed, label, n=32):
    out = b""
    c = 0
    while len(out) < n:
        out += hashlib.sha256(("%d|%s|%d" % (seed, label, c)).encode()).digest()
        c += 1
    return out[:n]


def seed_int(seed, label, lo, hi):
    """deterministic integer in [lo, hi] for (seed, label)"""
    span = hi - lo + 1
    return lo + int.from_bytes(seed_bytes(seed, label, 40), "big") % span


def _jsonable(x):
    if callable(x):            # lazy case: materialise only when it is sampled or reported
        return _jsonable(x())
    if isinstance(x, (bytes, bytearray)):
        return x.hex()
    if isinstance(x, dict):
        return {str(k): _jsonable(v) for k, v in x.items()}
    if isinstance(x, (list, tuple, set, frozenset)):
        return [_jsonable(v) for v in x]
    if isinstance(x, (str, int, float, bool)) or x is None:
        return x
    return repr(x)


def _alarm(signum, frame):
    raise CaseTimeout()


def _sample_slot(i):
    # first two, then 10, 100, 1000 ... (middle), last is tracked separately
    return i < 2 or i in (10, 100, 1000, 10000, 100000, 1000000, 10000000)


def _worker(w, nw, drivers, conn, known=()):
    res = []
    try:
        signal.signal(signal.SIGALRM, _alarm)
        for d in drivers:
            st = dict(id=d.id, units=0, cases=0, transitions=0, nontrivial=0, classes={}, bad=[],
                      nbad=0, samples=[], last=None, harness_errors=[], complete=False, suppressed={})
            idx = -1
            try:
                for unit in d.units():
                    idx += 1
                    if idx % nw != w:
                        continue
                    st["units"] += 1
                    signal.alarm(UNIT_TIMEOUT_S)
                    try:
                        upos = -1
                        for case, out in d.execute(unit):
                            upos += 1
                            i = st["cases"]
                            st["cases"] += 1
                            st["transitions"] += out.n
                            c = st["classes"]
                            c[out.cls] = c.get(out.cls, 0) + 1
                            if d.nontrivial(out.cls):
                                st["nontrivial"] += 1
                            if w == 0 and _sample_slot(i):
                                st["samples"].append(_jsonable(case))
                            if w == 0:
                                st["last"] = case
                            if not out.ok:
                                st["nbad"] += 1
                                jc, od = _jsonable(case), out.as_dict()
                                hit = None
                                for e in known:
                                    if entry_matches(e, d.id, jc, od):
                                        hit = e["key"]
                                        break
                                if hit is not None:
                                    st["suppressed"][hit] = st["suppressed"].get(hit, 0) + 1
                                elif len(st["bad"]) < MAX_KEEP_PER_DRIVER:
                                    od["unit"] = _jsonable(unit)
                                    od["unit_pos"] = upos
                                    od["shard"] = [w, nw, idx]
                                    st["bad"].append((idx, jc, od))
                                else:
                                    st["overflow"] = st.get("overflow", 0) + 1
                    except CaseTimeout:
                        st["nbad"] += 1
                        st["bad"].append((idx, _jsonable(unit), dict(ok=False, cls="timeout", ref="terminates",
                                          impl="no result within %ds" % UNIT_TIMEOUT_S, tags={"unit": True})))
                    finally:
                        signal.alarm(0)
                st["complete"] = True
            except Exception:
                st["harness_errors"].append("driver %s unit#%d: %s" % (d.id, idx, traceback.format_exc()))
            if st["last"] is not None:
                st["last"] = _jsonable(st["last"])
            res.append(st)
        conn.send(res)
    except BaseException:
        try:
            conn.send([dict(id="?", harness_errors=[traceback.format_exc()], units=0, cases=0, transitions=0,
                            nontrivial=0, classes={}, bad=[], nbad=0, samples=[], last=None, complete=False, suppressed={})])
        except Exception:
            pass
    finally:
        conn.close()


def explore(drivers, nworkers=None, known=()):
    """run every driver's full space on forked workers; return merged per-driver stats"""
    nw = nworkers or NWORKERS
    ctx = multiprocessing.get_context("fork")
    procs = []
    for w in range(nw):
        a, b = ctx.Pipe(duplex=False)
        p = ctx.Process(target=_worker, args=(w, nw, drivers, b, known))
        p.start()
        b.close()
        procs.append((p, a))
    merged = {}
    died = []
    for w, (p, a) in enumerate(procs):
        try:
            res = a.recv()
        except EOFError:
            died.append(w)
            res = []
        p.join()
        for st in res:
            m = merged.setdefault(st["id"], dict(id=st["id"], units=0, cases=0, transitions=0, nontrivial=0, classes={},
                                                 bad=[], nbad=0, samples=[], last=None, harness_errors=[],
                                                 complete=True, suppressed={}, overflow=0))
            for k in ("units", "cases", "transitions", "nontrivial", "nbad"):
                m[k] += st[k]
            for k, v in st["classes"].items():
                m["classes"][k] = m["classes"].get(k, 0) + v
            m["bad"].extend(st["bad"])
            m["overflow"] += st.get("overflow", 0)
            for k, v in st["suppressed"].items():
                m["suppressed"][k] = m["suppressed"].get(k, 0) + v
            m["samples"].extend(st["samples"])
            if st["last"] is not None:
                m["last"] = st["last"]
            m["harness_errors"].extend(st["harness_errors"])
            m["complete"] = m["complete"] and st["complete"]
    for m in merged.values():
        m["bad"].sort(key=lambda t: (t[0], json.dumps(t[1], sort_keys=True)))
        if m["last"] is not None:
            m["samples"].append(m["last"])
    return merged, died


# ---------------------------------------------------------------- known findings

def load_known(prop):
    path = os.path.join(VERIF, "known_findings.json")
    if not os.path.exists(path):
        return []
    with open(path) as f:
        return [e for e in json.load(f) if e.get("property") == prop]


def _get(d, dotted):
    cur = d
    for part in dotted.split("."):
        if not isinstance(cur, dict) or part not in cur:
            return None
        cur = cur[part]
    return cur


def _val_match(pat, val):
    if isinstance(pat, dict) and "re" in pat:
        import re
        return val is not None and re.search(pat["re"], str(val)) is not None
    if isinstance(pat, list):
        return val in pat
    return pat == val


def entry_matches(entry, driver_id, case, out):
    if entry.get("status") != "known":
        return False
    rec = dict(driver=driver_id, cls=out["cls"], ref=out["ref"], impl=out["impl"], tags=out["tags"],
               axes=case.get("axes", {}) if isinstance(case, dict) else {}, case=case)
    for k, pat in entry["match"].items():
        if not _val_match(pat, _get(rec, k)):
            return False
    return True


# ---------------------------------------------------------------- replay files

def tree_id():
    try:
        h = subprocess.check_output(["git", "-C", "/repo", "rev-parse", "--short", "HEAD"], text=True).strip()
        dirty = subprocess.check_output(["git", "-C", "/repo", "status", "--porcelain", "--untracked-files=no"], text=True).strip()
        return h + ("-dirty" if dirty else "")
    except Exception:
        return "unknown"


def write_replay(prop, driver_id, case, out, tier, seed, subdir="replays"):
    body = dict(property=prop, driver=driver_id, case=case, ref=out["ref"], impl=out["impl"], cls=out["cls"],
                tags=out["tags"], seed=seed, tier=tier, tree=tree_id())
    if "unit" in out:
        # the work unit the case was found in and its position there: lets a replay reproduce state carried
        # between the cases of one unit (caches on a shared object) when the case alone passes on fresh objects
        body["unit"] = out["unit"]
        body["unit_pos"] = out["unit_pos"]
        # worker index, worker count and unit index: lets a replay reproduce state carried between UNITS of one worker
        body["shard"] = out.get("shard")
    blob = json.dumps(body, sort_keys=True, indent=1)
    sha = hashlib.sha256(json.dumps([driver_id, case], sort_keys=True).encode()).hexdigest()[:12]
    d = os.path.join(VERIF, subdir)
    os.makedirs(d, exist_ok=True)
    path = os.path.join(d, "%s-%s.json" % (prop, sha))
    with open(path, "w") as f:
        f.write(blob + "\n")
    return path


def fresh_replay(path):
    """determinism gate: run one replay file in a fresh interpreter; return (exitcode, observation)"""
    env = dict(os.environ, PYTHONHASHSEED="0")
    p = subprocess.run([sys.executable, "-m", "vf.run", "--replay", path, "--json"], cwd=VERIF, env=env,
                       capture_output=True, text=True, timeout=4 * 3600)
    obs = None
    for line in p.stdout.splitlines():
        if line.startswith("OBS "):
            obs = line[4:]
    return p.returncode, obs, p.stderr[-2000:]
