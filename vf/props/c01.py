"""C01 - deterministic ECDSA: sign / verify / recover on every Generator and backend (Mode I).

Toy curves (prime order n >= 5, p = 3 mod 4) built with the real `Generator`: the whole finite space
is enumerated - every key d, a z family that makes RFC 6979's bits2int see every value, every
candidate (r, s) in [0, n+1]^2, every public point Q.  Production curves: the full D x Z boundary
product on plain (pure Python) `Generator` objects and on the imported accelerated generators, the
Key.sign/Key.verify DER wrapper, crafted degenerate inputs.  Oracle: vf.ref.rfc6979 (RFC 6979
nonce stream incl. retry, textbook ECDSA) - what the property text states, nothing more:
 * sign == the RFC 6979 signature whenever the first nonce is suitable (pure: exactly; a backend
   that overrides sign: up to s <-> n-s); otherwise any valid signature, never an exception;
 * verify(Q on curve, z != 0, (r,s)) == [1 <= r,s < n and x((z/s)G+(r/s)Q) mod n == r];
 * recovery returns only keys that verify, and the signer's key when x(kG) < n."""
import itertools

from ..engine import Driver, OK, BAD, ModelInvalid, seed_int
from ..ref import ec, rfc6979 as ref, der as refder
from .c02 import _try, norm, toy_generator, prod_generators, toy_list, P_of, is_accelerated

TWO256 = 2 ** 256


def Z_T(n):
    """z family for a toy order n: 1..2n, every value of the top bitlen(n) bits (x low bit 0/1), 2^255, 2^256-1"""
    bl = n.bit_length()
    zs = list(range(1, 2 * n + 1))
    for t in range(2 ** bl):
        for dl in (0, 1):
            z = (t << (256 - bl)) + dl
            if z and z not in zs:
                zs.append(z)
    for z in (2 ** 255, TWO256 - 1):
        if z not in zs:
            zs.append(z)
    return zs


def Z_small(n):
    return list(range(1, 2 * n + 1)) + [2 ** 255, TWO256 - 1]


def Z_reduced(n):
    return [1, 2, n - 1, n, n + 1, 2 ** 255, TWO256 - 1]


def toy_base(curve, seed):
    p, a, b, n = curve
    pts = ec.points(p, a, b)
    return list(pts[1] if seed == 0 else pts[1 + seed_int(seed, "C01.base.%d.%d.%d" % (p, a, b), 0, n - 2)])


def toy_bf(curve, seed):
    n = curve[3]
    return 1 if seed == 0 else seed_int(seed, "C01.bf.%r" % (curve,), 0, n - 1)


def cv_of(curve, G):
    p, a, b, n = curve
    return dict(p=p, a=a, b=b, n=n, G=P_of(G))


def sig_of(v):
    """(r, s) ints from a pycoin result, or None"""
    try:
        r, s = v
        if isinstance(r, int) and isinstance(s, int) and not isinstance(r, bool):
            return (r, s)
    except Exception:
        pass
    return None


def overrides_sign(g):
    from pycoin.ecdsa.Generator import Generator
    return type(g).sign is not Generator.sign


# ------------------------------------------------------------------ nonce function
SPECIAL_ORDERS = {
    "rfc6979-A.1-q163": 0x4000000000000000000020108A2E0CC0D99F8A5EF,
    "P-192": 0xFFFFFFFFFFFFFFFFFFFFFFFF99DEF836146BC9B1B4D22831,
    "P-224": 0xFFFFFFFFFFFFFFFFFFFFFFFFFFFF16A2E0B8F03E13DD29455C5C2A3D,
    "secp256k1": ec.SECP256K1["n"], "secp256r1": ec.SECP256R1["n"], "bls12_381_g1": ec.BLS12_381_G1["n"],
    "M521": 2 ** 521 - 1, "2^256+297": 2 ** 256 + 297, "2^255-19": 2 ** 255 - 19,
}


def prod_D(n, seed, label, extra=False):
    s = 0x1E99423A4ED27608A15A2616A2B0E9E52CED330AC530EDCC32C8FFC6A526AEDD % n if seed == 0 else seed_int(seed, "C01.D." + label, 4, n - 3)
    D = [1, 2, 3, n - 1, n - 2, (n - 1) // 2, 2 ** 128 % n, s]
    if extra:
        D += [4, n - 3, (n + 1) // 2, 2 ** 64]
    return D


def prod_Z(n, p, seed, label, extra=False):
    s = 0x9C1185A5C5E9FC54612808977EE8F548B2258D31A1FB1D1B1C3E0D8F3E5B2A17 if seed == 0 else seed_int(seed, "C01.Z." + label, 1, TWO256 - 1)
    Z = [1, 2, 2 ** 255, n - 1, n, n + 1, p % TWO256, TWO256 - 1, s]
    if extra:
        Z += [3, 2 * n % TWO256 or 5, 2 ** 128, TWO256 - 2]
    return Z


# two prime group orders of other bit lengths (P-192's order and a toy order), used as "earlier" derivations
DECOY_ORDER_A = 0xFFFFFFFFFFFFFFFFFFFFFFFF99DEF836146BC9B1B4D22831
DECOY_ORDER_B = 13


class Nonce(Driver):
    id = "C01.nonce"
    rule = ("case = (group order n, key d, hash z): deterministic_generate_k(n,d,z) == reference RFC 6979 first nonce; toy orders with ALL d and the "
            "z family that shows every truncated value to bits2int; production and odd-sized orders (163..521 bits) on D x Z; non-trivial = z >= 2^(256-bitlen n) "
            "(truncation active) or z >= n")

    def __init__(self, tier, seed):
        Driver.__init__(self, tier, seed)
        self.orders = sorted(set(c[3] for c in toy_list(tier)))
        self.bound = dict(toy_orders=self.orders, toy="all d in [1,n-1] x Z_T(n)", special={k: v.bit_length() for k, v in SPECIAL_ORDERS.items()},
                          special_space="D(8) x Z(9) boundary sets")

    def units(self):
        for n in self.orders:
            for d in range(1, n):
                yield dict(kind="toy", n=str(n), d=str(d))
        for label in sorted(SPECIAL_ORDERS):
            n = SPECIAL_ORDERS[label]
            for d in prod_D(n, self.seed, label, self.tier == "thorough"):
                yield dict(kind="special", n=str(n), d=str(d), label=label)

    def execute(self, unit):
        n, d = int(unit["n"]), int(unit["d"])
        zs = Z_T(n) if unit["kind"] == "toy" else prod_Z(n, ec.SECP256K1["p"], self.seed, unit["label"], self.tier == "thorough")
        for z in zs:
            if not (1 <= z < TWO256):
                continue        # the property quantifies over z in [1, 2^256-1]
            case = dict(n=unit["n"], d=unit["d"], z=str(z))
            yield case, self.run(case)

    def run(self, case):
        from pycoin.ecdsa.rfc6979 import deterministic_generate_k
        n, d, z = int(case["n"]), int(case["d"]), int(case["z"])
        exp = ref.nonce(n, d, z)
        # the same (d, z) is first used with two OTHER group orders (different bit lengths): a nonce must depend on the
        # order it is asked for, not on what was derived before (state shared between calls)
        for other in (DECOY_ORDER_A, DECOY_ORDER_B):
            if other != n and 1 <= d < other:
                _try(deterministic_generate_k, other, d, z)
        ok, k = _try(deterministic_generate_k, n, d, z)
        if not ok or k != exp:
            return BAD("nonce", "k = %d" % exp, "k = %s" % (k,), clause="rfc6979-nonce")
        bl = n.bit_length()
        zt = z >> (256 - bl) if bl < 256 else z
        return OK(("truncated" if bl < 256 and z >= 2 ** (256 - bl) else "plain") + (":z>=n" if zt >= n else ""))

    def nontrivial(self, cls):
        return cls != "plain"

    def selfcheck(self):
        try:
            return ref.selfcheck() + ec.selfcheck(toy_pmax=11)
        except ValueError as e:
            raise ModelInvalid("rfc6979/ec: %s" % e)


# ------------------------------------------------------------------ toy: sign
class ToySign(Driver):
    id = "C01.toy-sign"
    rule = ("case = (toy Generator, key d, hash z) over all d in [1,n-1] x Z_T(n): sign and sign_with_recid against the reference deterministic signature "
            "(exact when the first RFC 6979 nonce is suitable, else any valid signature, never an exception), own verify accepts, recovery contains d*G "
            "when x(kG) < n; non-trivial = first nonce unsuitable, x(kG) >= n, or truncation active")

    def __init__(self, tier, seed):
        Driver.__init__(self, tier, seed)
        pmax = 23 if tier == "quick" else 43
        self.curves = [c for c in toy_list("thorough") if c[0] <= pmax]
        self.bound = dict(curves=self.curves, d="all", z="Z_T(n) = 1..2n, all top-bit patterns x {0,1}, 2^255, 2^256-1")

    def units(self):
        for curve in self.curves:
            G = toy_base(curve, self.seed)
            bf = toy_bf(curve, self.seed)
            for d in range(1, curve[3]):
                yield dict(curve=curve, G=G, bf=bf, d=d)

    def execute(self, unit):
        for z in Z_T(unit["curve"][3]):
            case = dict(curve=unit["curve"], G=unit["G"], bf=unit["bf"], d=unit["d"], z=str(z))
            yield case, self.run(case)

    def run(self, case):
        curve = case["curve"]
        p, a, b, n = curve
        cv = cv_of(curve, case["G"])
        d, z = int(case["d"]), int(case["z"])
        Qd = ec.mul(d, cv["G"], p, a)
        k1 = ref.nonce(n, d, z)
        r1, s1, R1 = ref.rs_for_nonce(cv, d, z, k1)
        first_ok = r1 != 0 and s1 != 0
        valid = ref.valid_nonces(cv, d, z)
        if not valid:
            return OK("trivial-outside:no-valid-signature-exists-for-(d,z)", n=0)
        ok, g = _try(toy_generator, curve, case["G"], case["bf"])
        if not ok:
            return BAD("exception", "Generator constructed", g, clause="construct")
        calls = 0
        sigs = {}
        for name, f in (("sign", lambda: g.sign(d, z)), ("sign_with_recid", lambda: g.sign_with_recid(d, z))):
            ok, v = _try(f)
            calls += 1
            if not ok:
                if first_ok:
                    return BAD("exception", "%s = (%d, %d)" % (name, r1, s1), v, n=calls, clause="sign-exception")
                return BAD("exception", "%s returns a valid signature (first RFC 6979 nonce k=%d gives r=%d s=%d; suitable nonces exist: %r)" % (name, k1, r1, s1, valid),
                           v, n=calls, clause="sign-retry-exception")
            sigs[name] = v
        sg = sig_of(sigs["sign"])
        try:
            r3, s3, recid = sigs["sign_with_recid"]
        except Exception:
            return BAD("shape", "(r, s, recid)", repr(sigs["sign_with_recid"]), n=calls, clause="sign-shape")
        if sg is None or (r3, s3) != sg:
            return BAD("shape", "sign == sign_with_recid[:2], integers", "%r vs %r" % (sigs["sign"], sigs["sign_with_recid"]), n=calls, clause="sign-shape")
        r, s = sg
        if not (1 <= r < n and 1 <= s < n):
            return BAD("range", "1 <= r, s < n", repr(sg), n=calls, clause="sign-range")
        if first_ok and sg != (r1, s1):
            return BAD("not-rfc6979", "sign = (%d, %d) (nonce %d)" % (r1, s1, k1), repr(sg), n=calls, clause="sign-not-rfc6979")
        if not ref.verify(cv, Qd, z, r, s):
            return BAD("invalid-signature", "signature verifies under d*G (reference)", repr(sg), n=calls, clause="sign-invalid")
        ok, v = _try(lambda: g.verify(g.Point(*Qd), z, sg))
        calls += 1
        if not ok or v is not True:
            return BAD("own-verify", "verify(d*G, z, sign(d,z)) is True", repr(v), n=calls, clause="sign-own-verify")
        cls = "first-nonce-ok" if first_ok else ("retry:r=0" if r1 == 0 else "retry:s=0")
        if first_ok:
            # recovery id and recovery completeness are tied to the nonce point, known only here
            want_recid = (R1[1] & 1) + (2 if R1[0] >= n else 0)
            if recid != want_recid:
                return BAD("recid", "recid = %d (nonce point %r)" % (want_recid, R1), repr(recid), n=calls, clause="recid")
            for yp in (None, R1[1] & 1):
                ok, keys = _try(lambda: [norm(q, p) for q in g.possible_public_pairs_for_signature(z, sg, y_parity=yp)])
                calls += 1
                if not ok:
                    return BAD("exception", "recovery returns a list", keys, n=calls, clause="recover-exception-valid-sig")
                if R1[0] < n and Qd not in keys:
                    return BAD("recover-misses-signer", "signer key %r among recovered keys (x(kG)=%d < n, y_parity=%r)" % (Qd, R1[0], yp), repr(keys),
                               n=calls, clause="recover-misses-signer")
            cls += ":x(kG)>=n" if R1[0] >= n else ""
        if n.bit_length() < 256 and z >= 2 ** (256 - n.bit_length()):
            cls += ":truncation"
        return OK(cls, n=calls)

    def nontrivial(self, cls):
        return cls != "first-nonce-ok"


# ------------------------------------------------------------------ toy: verify
QUICK_FULL = [[11, 2, 7, 7], [7, 0, 3, 13], [11, 1, 5, 11]]
QUICK_REDUCED = [[3, 2, 1, 7], [7, 1, 1, 5], [7, 0, 5, 7], [19, 0, 2, 13], [11, 1, 6, 13], [11, 2, 4, 17]]


def verify_plan(tier):
    if tier == "quick":
        return [(c, "full") for c in QUICK_FULL] + [(c, "reduced") for c in QUICK_REDUCED]
    cs = toy_list("thorough")
    return [(c, "full") for c in cs if c[0] <= 19] + [(c, "reduced") for c in cs if c in ([23, 1, 4, 29], [31, 0, 3, 43], [31, 1, 3, 41])]


class ToyVerify(Driver):
    id = "C01.toy-verify"
    rule = ("case = (toy Generator, public point Q, hash z, candidate (r,s)) over all Q x z x [0,n+1]^2: verify == reference predicate "
            "[1<=r,s<n and x((z/s)G+(r/s)Q) mod n == r]; Q = infinity and unreduced (x+p,y) representatives are recorded only; "
            "non-trivial = every class but a plain x-mismatch")

    def __init__(self, tier, seed):
        Driver.__init__(self, tier, seed)
        self.plan = verify_plan(tier)
        self.bound = dict(plan=[dict(curve=c, z="1..2n,2^255,2^256-1" if m == "full" else "1,2,n-1,n,n+1,2^255,2^256-1") for c, m in self.plan],
                          Q="all n-1 affine points; + infinity and (x+p,y) representatives (z in {1,n}) recorded only", rs="[0,n+1]^2")

    def units(self):
        for curve, mode in self.plan:
            G = toy_base(curve, self.seed)
            bf = toy_bf(curve, self.seed)
            p, a, b, n = curve
            pts = ec.points(p, a, b)
            for Q in pts[1:]:
                for z in (Z_small(n) if mode == "full" else Z_reduced(n)):
                    yield dict(curve=curve, G=G, bf=bf, Q=list(Q), z=str(z))
            for Q in [None] + [[Q[0] + p, Q[1]] for Q in pts[1:]]:        # recorded only
                for z in (1, n):
                    yield dict(curve=curve, G=G, bf=bf, Q=Q, z=str(z))

    def execute(self, unit):
        n = unit["curve"][3]
        for r in range(0, n + 2):
            for s in range(0, n + 2):
                case = dict(unit, r=r, s=s)
                yield case, self.run(case)

    def run(self, case):
        curve = case["curve"]
        p, a, b, n = curve
        cv = cv_of(curve, case["G"])
        Q = P_of(case["Q"])
        z, r, s = int(case["z"]), case["r"], case["s"]
        cQ = ec.canon(Q, p)
        exp, why = ref.verify_detail(cv, cQ, z, r, s)
        ok, g = _try(toy_generator, curve, case["G"], case["bf"])
        if not ok:
            return BAD("exception", "Generator constructed", g, clause="construct")
        qarg = (None, None) if Q is None else Q
        ok, v = _try(lambda: g.verify(qarg, z, (r, s)))
        if Q is None or Q != cQ:
            label = "Q=infinity" if Q is None else "Q-unreduced"
            return OK("trivial-outside:%s:%s" % (label, "agrees-with-formula" if ok and v is exp else "EXC" if not ok else "differs"))
        if not ok:
            return BAD("exception", "verify = %s (%s)" % (exp, why), v, clause="verify-sum-infinity" if why == "sum-infinity" else "verify-exception", why=why)
        if v is not exp:
            return BAD("accept-vs-reject", "verify = %s (%s)" % (exp, why), repr(v), clause="verify-" + why, why=why)
        if 1 <= r < n and 1 <= s < n:
            # the caller keeps its key in ONE list object and overwrites it in place: first another key, then this one
            other = P_of(case["G"]) if P_of(case["G"]) != Q else (Q[0], (p - Q[1]) % p)
            kl = list(other)
            _try(lambda: g.verify(kl, z, (r, s)))
            kl[:] = list(Q)
            ok, v2 = _try(lambda: g.verify(kl, z, (r, s)))
            if not ok or v2 is not exp:
                return BAD("accept-vs-reject", "verify(list object now holding Q) = %s (%s)" % (exp, why), repr(v2), clause="verify-key-object-reused", why=why)
        if why == "range":
            why += ":" + ",".join(x for x, c in (("r=0", r == 0), ("s=0", s == 0), ("r>=n", r >= n), ("s>=n", s >= n)) if c)
        return OK(why + (":z=0 mod n" if z % n == 0 else ""))

    def nontrivial(self, cls):
        return cls != "x-mismatch" and not cls.startswith("trivial")


# ------------------------------------------------------------------ toy: recovery
class ToyRecover(Driver):
    id = "C01.toy-recover"
    rule = ("case = (toy Generator, hash z, candidate (r,s) in [0,n+1]^2, y_parity in {None,0,1}): every key returned by possible_public_pairs_for_signature "
            "verifies (reference predicate; a returned infinity is judged by the same formula); an exception is recorded under its own clause; "
            "non-trivial = out-of-range candidate, or a non-empty result")

    def __init__(self, tier, seed):
        Driver.__init__(self, tier, seed)
        pmax = 19 if tier == "quick" else 31
        self.curves = [c for c in toy_list("thorough") if c[0] <= pmax]
        self.zfull = 7 if tier == "quick" else 19
        self.bound = dict(curves=self.curves, z="1..2n, 2^255, 2^256-1 for n <= %d, else 1,2,n-1,n,n+1,2^255,2^256-1" % self.zfull, rs="[0,n+1]^2",
                          y_parity=[None, 0, 1])

    def units(self):
        for curve in self.curves:
            G = toy_base(curve, self.seed)
            bf = toy_bf(curve, self.seed)
            for z in (Z_small(curve[3]) if curve[3] <= self.zfull else Z_reduced(curve[3])):
                yield dict(curve=curve, G=G, bf=bf, z=str(z))

    def execute(self, unit):
        n = unit["curve"][3]
        for r in range(0, n + 2):
            for s in range(0, n + 2):
                for yp in (None, 0, 1):
                    case = dict(unit, r=r, s=s, y_parity=yp)
                    yield case, self.run(case)

    def run(self, case):
        curve = case["curve"]
        p, a, b, n = curve
        cv = cv_of(curve, case["G"])
        z, r, s, yp = int(case["z"]), case["r"], case["s"], case["y_parity"]
        ok, g = _try(toy_generator, curve, case["G"], case["bf"])
        if not ok:
            return BAD("exception", "Generator constructed", g, clause="construct")
        inrange = 1 <= r < n and 1 <= s < n
        rng = "in-range" if inrange else "out-of-range:" + ",".join(x for x, c in (("r=0", r == 0), ("s=0", s == 0), ("r>=n", r >= n), ("s>=n", s >= n)) if c)
        ok, keys = _try(lambda: [norm(q, p) for q in g.possible_public_pairs_for_signature(z, (r, s), y_parity=yp)])
        # clause: out-of-range candidates share one root cause (no range check); in-range r >= p (possible when n > p) is the x >= p alias of points_for_x
        clause = "recover-out-of-range" if not inrange else "recover-r-ge-p" if r >= p else "recover-in-range"
        if not ok:
            return BAD("exception", "a list of keys (empty if none)", keys, clause=clause, range=rng)
        truth = ref.recover_bruteforce(cv, z, r, s)
        for K in keys:
            if isinstance(K, str) or not ref.verify(cv, K, z, r, s):
                return BAD("recovered-key-does-not-verify", "only keys under which (r,s) verifies for z; those are %r" % (truth,), "returned %r" % (keys,),
                           clause=clause, range=rng)
        return OK("%s:%d-keys%s" % (rng, len(keys), ":incl-infinity" if None in keys else ""))

    def nontrivial(self, cls):
        return cls != "in-range:0-keys"


# ------------------------------------------------------------------ production curves
def prod_names(tier):
    return ["secp256k1", "secp256r1"] + (["bls12_381_g1"] if tier == "thorough" else [])


def configs_for(name):
    return ("pure", "accel") if name != "bls12_381_g1" else ("pure",)


class ProdSign(Driver):
    id = "C01.prod-sign"
    rule = ("case = (production curve, configuration pure|accelerated, d, z) over the full D x Z boundary product: nonce, sign, sign_with_recid == reference; "
            "verify on the signature and on 10-12 derived candidates (malleated s, r/s = 0, n, +n, wrong key, wrong hash, swapped) == reference predicate; "
            "recovery returns only verifying keys incl. the signer's; non-trivial = z >= n or d near the boundary")

    def __init__(self, tier, seed):
        Driver.__init__(self, tier, seed)
        self.names = prod_names(tier)
        self.extra = tier == "thorough"
        self.bound = dict(curves=self.names, D="1,2,3,n-1,n-2,(n-1)/2,2^128,seed" + (",4,n-3,(n+1)/2,2^64" if self.extra else ""),
                          Z="1,2,2^255,n-1,n,n+1,p mod 2^256,2^256-1,seed" + (",3,2n,2^128,2^256-2" if self.extra else ""), configs="pure, accelerated")

    def units(self):
        for name in self.names:
            c = ec.PRODUCTION[name]
            for cfg in configs_for(name):
                for d in prod_D(c["n"], self.seed, name, self.extra):
                    for z in prod_Z(c["n"], c["p"], self.seed, name, self.extra):
                        yield dict(curve=name, config=cfg, d=str(d), z=str(z))

    def run(self, case):
        from pycoin.ecdsa.rfc6979 import deterministic_generate_k
        c = ec.PRODUCTION[case["curve"]]
        p, a, n = c["p"], c["a"], c["n"]
        d, z = int(case["d"]), int(case["z"])
        cfg = case["config"]
        sg0 = ref.sign(c, d, z)
        if sg0 is None or sg0["tries"] != 1:
            raise ModelInvalid("first RFC 6979 nonce unsuitable on a production curve?!")
        Qd = ec.mul(d, c["G"], p, a)
        ok, gens = _try(prod_generators, case["curve"])
        if not ok:
            return BAD("exception", "generators constructed", gens, clause="construct")
        g = gens[cfg]
        calls = 1
        # the numbers this signature will invert (nonce, s, r) are first inverted on the OTHER production curve's generator:
        # modular inverses must not be shared between generators of different order
        ok_o, ogens = _try(prod_generators, "secp256r1" if case["curve"] == "secp256k1" else "secp256k1")
        if ok_o and case["curve"] in ("secp256k1", "secp256r1"):
            for v in (sg0["k"], sg0["s"], sg0["r"], n - sg0["s"]):
                _try(ogens[cfg].inverse, v)
        for other in (DECOY_ORDER_A, DECOY_ORDER_B):
            if 1 <= d < other:
                _try(deterministic_generate_k, other, d, z)       # see C01.nonce: earlier derivations must not matter
        ok, k = _try(deterministic_generate_k, n, d, z)
        if not ok or k != sg0["k"]:
            return BAD("nonce", "k = %d" % sg0["k"], repr(k), clause="rfc6979-nonce", config=cfg)
        ok, v = _try(lambda: (g.sign(d, z), g.sign_with_recid(d, z)))
        calls += 2
        if not ok:
            return BAD("exception", "sign = (%d, %d)" % (sg0["r"], sg0["s"]), v, n=calls, clause="sign-exception", config=cfg)
        sg = sig_of(v[0])
        lenient = overrides_sign(g)
        allowed = [(sg0["r"], sg0["s"])] + ([(sg0["r"], n - sg0["s"])] if lenient else [])
        if sg not in allowed:
            return BAD("not-rfc6979", "sign in %r" % (allowed,), repr(v[0]), n=calls, clause="sign-not-rfc6979", config=cfg)
        try:
            r3, s3, recid = v[1]
        except Exception:
            return BAD("shape", "(r, s, recid)", repr(v[1]), n=calls, clause="sign-shape", config=cfg)
        if (r3, s3) not in allowed:
            return BAD("not-rfc6979", "sign_with_recid[:2] in %r" % (allowed,), repr(v[1]), n=calls, clause="sign-not-rfc6979", config=cfg)
        R = sg0["R"]
        yk = R[1] & 1 if (r3, s3) == allowed[0] else 1 - (R[1] & 1)
        if recid != yk + (2 if R[0] >= n else 0):
            return BAD("recid", "recid = %d" % (yk + (2 if R[0] >= n else 0)), repr(recid), n=calls, clause="recid", config=cfg)
        r, s = sg
        Qw = ec.mul(d % (n - 1) + 1, c["G"], p, a)           # another key
        zw = z ^ 1 if z ^ 1 else 3                              # another hash (non-zero)
        cands = [("valid", Qd, z, r, s), ("malleated", Qd, z, r, n - s), ("s+n", Qd, z, r, s + n), ("r+n", Qd, z, r + n, s), ("r=0", Qd, z, 0, s), ("s=0", Qd, z, r, 0),
                 ("r=n", Qd, z, n, s), ("s=n", Qd, z, r, n), ("wrong-key", Qw, z, r, s), ("wrong-hash", Qd, zw, r, s), ("swapped", Qd, z, s, r),
                 ("s+1", Qd, z, r, s % (n - 1) + 1), ("hash+n", Qd, z + n, r, s)]
        slow = not is_accelerated(g)      # pure Python 256-bit verify costs 0.1 s: two derived candidates fewer, plain-tuple form once
        for name, Q, zz, rr, ss in cands:
            if slow and name in ("s+1", "hash+n"):
                continue
            exp, why = ref.verify_detail(c, Q, zz, rr, ss)
            ok, got = _try(lambda: g.verify(g.Point(*Q), zz, (rr, ss)))
            calls += 1
            ok2, got2 = ok, got
            if name == "valid" or not slow or why == "range":
                ok2, got2 = _try(lambda: g.verify(Q, zz, (rr, ss)))          # plain tuple as public pair
                calls += 1
            if not ok or got is not exp or not ok2 or got2 is not exp:
                return BAD("accept-vs-reject" if ok and ok2 else "exception", "verify[%s] = %s (%s)" % (name, exp, why), "%r / %r" % (got, got2), n=calls,
                           clause="verify-" + why, config=cfg, cand=name)
        cof_note = ""
        for yp in ((None, yk) if slow else (None, 0, 1)):
            ok, keys = _try(lambda: [norm(q, p) for q in g.possible_public_pairs_for_signature(z, sg, y_parity=yp)])
            calls += 1
            if not ok:
                return BAD("exception", "recovery returns a list", keys, n=calls, clause="recover-exception-valid-sig", config=cfg)
            for K in keys:
                if isinstance(K, str) or not ref.verify(c, K, z, r, s):
                    if case["curve"] == "bls12_381_g1":
                        # y^2 = x^3 + 4 has a cofactor: the point with x = r need not lie in G1, recovery is meaningless there and the
                        # property (curves of prime order) does not cover it - recorded
                        cof_note = ":cofactor-curve-recovery-returns-nonverifying"
                        continue
                    return BAD("recovered-key-does-not-verify", "only verifying keys", repr(keys), n=calls, clause="recover-in-range", config=cfg)
            if R[0] < n and (yp is None or yp == yk) and Qd not in keys:
                return BAD("recover-misses-signer", "signer key among recovered keys (y_parity=%r)" % yp, repr(keys), n=calls, clause="recover-misses-signer", config=cfg)
        return OK(("z>=n" if z >= n else "z<n") + (":x(kG)>=n" if R[0] >= n else "") + cof_note, n=calls)

    def nontrivial(self, cls):
        return cls != "z<n"


class ProdCrafted(Driver):
    id = "C01.prod-crafted"
    rule = ("case = (production curve, configuration, crafted candidate): out-of-range and degenerate candidates for verify and recovery - r,s in "
            "{0,1,n-1,n,n+1,2^256-1}^2 against a fixed key; Q = -(z/r)G which makes (z/s)G+(r/s)Q the point at infinity; recovery for r with no curve point, "
            "r >= n, s = 0; non-trivial = all")

    def __init__(self, tier, seed):
        Driver.__init__(self, tier, seed)
        self.names = prod_names(tier)
        self.bound = dict(curves=self.names, rs="{0,1,2,n-1,n,n+1,2^256-1}^2", sum_infinity="(r,s) in {1,2,n-1,seed}^2 with Q=-(z/r)G", configs="pure, accelerated")

    def units(self):
        for name in self.names:
            c = ec.PRODUCTION[name]
            n = c["n"]
            sv = 0x6B8D2C81B11B2D699528DDE488DBDF2F94293D0D33C32E347F255FA4A6C1F0A9 % n if self.seed == 0 else seed_int(self.seed, "C01.craft." + name, 3, n - 3)
            for cfg in configs_for(name):
                for r in (0, 1, 2, n - 1, n, n + 1, TWO256 - 1):
                    for s in (0, 1, 2, n - 1, n, n + 1, TWO256 - 1):
                        yield dict(curve=name, config=cfg, kind="grid", r=str(r), s=str(s), z="5")
                for r in (1, 2, n - 1, sv):
                    for s in (1, 2, n - 1, sv):
                        yield dict(curve=name, config=cfg, kind="sum-infinity", r=str(r), s=str(s), z=str(sv ^ 0x55))

    def run(self, case):
        c = ec.PRODUCTION[case["curve"]]
        p, a, n = c["p"], c["a"], c["n"]
        r, s, z = int(case["r"]), int(case["s"]), int(case["z"])
        cfg = case["config"]
        ok, gens = _try(prod_generators, case["curve"])
        if not ok:
            return BAD("exception", "generators constructed", gens, clause="construct")
        g = gens[cfg]
        if case["kind"] == "sum-infinity":
            Q = ec.mul(-(z * ec.inv(r, n)) % n, c["G"], p, a)
        else:
            Q = ec.mul(7, c["G"], p, a)
        exp, why = ref.verify_detail(c, Q, z, r, s)
        if case["kind"] == "sum-infinity" and why != "sum-infinity":
            raise ModelInvalid("crafted sum is not infinity")
        ok, got = _try(lambda: g.verify(g.Point(*Q), z, (r, s)))
        if not ok:
            return BAD("exception", "verify = %s (%s)" % (exp, why), got, clause="verify-sum-infinity" if why == "sum-infinity" else "verify-exception", config=cfg, why=why)
        if got is not exp:
            return BAD("accept-vs-reject", "verify = %s (%s)" % (exp, why), repr(got), clause="verify-" + why, config=cfg, why=why)
        inrange = 1 <= r < n and 1 <= s < n
        rng = "in-range" if inrange else "out-of-range:" + ",".join(x for x, cc in (("r=0", r == 0), ("s=0", s == 0), ("r>=n", r >= n), ("s>=n", s >= n)) if cc)
        ok, keys = _try(lambda: [norm(q, p) for q in g.possible_public_pairs_for_signature(z, (r, s))])
        clause = "recover-out-of-range" if not inrange else "recover-r-ge-p" if r >= p else "recover-in-range"
        if not ok:
            return BAD("exception", "a list of keys (empty if none)", keys, n=2, clause=clause, config=cfg, range=rng)
        for K in keys:
            if isinstance(K, str) or not ref.verify(c, K, z, r, s):
                if case["curve"] == "bls12_381_g1" and inrange:
                    return OK("%s:%s:cofactor-curve-recovery-returns-nonverifying" % (why, rng), n=2)     # see C01.prod-sign
                return BAD("recovered-key-does-not-verify", "only keys under which (r,s) verifies", "returned %r" % (keys,), n=2, clause=clause, config=cfg, range=rng)
        return OK("%s:%s:%d-keys" % (why, rng, len(keys)), n=2)


class KeyWrapper(Driver):
    id = "C01.key-der"
    rule = ("case = (network Key on secp256k1, d, z as 32 bytes): Key.sign returns the DER encoding of the reference signature; Key.verify accepts it and "
            "the malleated one, refuses (s,r) swapped, a wrong hash, a wrong key, trailing bytes, and r or s = 0 / >= n in DER; non-trivial = all")

    def __init__(self, tier, seed):
        Driver.__init__(self, tier, seed)
        self.extra = tier == "thorough"
        self.bound = dict(network="BTC", D="as C01.prod-sign", Z="as C01.prod-sign")

    def units(self):
        c = ec.SECP256K1
        for d in prod_D(c["n"], self.seed, "secp256k1", self.extra):
            for z in prod_Z(c["n"], c["p"], self.seed, "secp256k1", self.extra):
                yield dict(d=str(d), z=str(z))

    def run(self, case):
        c = ec.SECP256K1
        n = c["n"]
        d, z = int(case["d"]), int(case["z"])
        h = z.to_bytes(32, "big")
        sg0 = ref.sign(c, d, z)
        r, s = sg0["r"], sg0["s"]
        try:
            from pycoin.symbols.btc import network
            key = network.keys.private(d)
            other = network.keys.private(d % (n - 1) + 1)      # for z = 0 mod n the keys d and n-d accept the same signatures: the reference decides
            lenient = overrides_sign(key._generator)
            sig = key.sign(h)
        except Exception as e:
            return BAD("exception", "Key.sign returns DER", "EXC %s: %s" % (type(e).__name__, e), clause="key-sign-exception")
        allowed = [refder.encode(r, s)] + ([refder.encode(r, n - s)] if lenient else [])
        if sig not in allowed:
            return BAD("der-signature", "Key.sign = %s" % allowed[0].hex(), repr(sig), clause="key-sign-der")
        zwi = z ^ 1 or 3
        zw = zwi.to_bytes(32, "big")
        dw = d % (n - 1) + 1
        Qd, Qw = ec.mul(d, c["G"], c["p"], c["a"]), ec.mul(dw, c["G"], c["p"], c["a"])
        cands = [("valid", key, h, sig, True), ("malleated", key, h, refder.encode(r, n - s), True), ("swapped", key, h, refder.encode(s, r), ref.verify(c, Qd, z, s, r)),
                 ("wrong-hash", key, zw, sig, ref.verify(c, Qd, zwi, r, s)), ("wrong-key", other, h, sig, ref.verify(c, Qw, z, r, s)), ("trailing", key, h, sig + b"\x00", False),
                 ("r=0", key, h, refder.encode(0, s), False), ("s=0", key, h, refder.encode(r, 0), False), ("s+n", key, h, refder.encode(r, s + n), False),
                 ("r=n", key, h, refder.encode(n, s), False), ("negative-s", key, h, refder.encode(r, s - n), False), ("empty", key, h, b"", False),
                 ("public-copy", key.public_copy(), h, sig, True)]
        calls = 1
        for name, k, hh, sg, exp in cands:
            ok, got = _try(k.verify, hh, sg)
            calls += 1
            if name == "empty" and not ok:
                # an empty signature is not an (r, s) pair at all; Key.verify raising here is C17/C10 material - recorded
                continue
            if not ok or got is not exp:
                return BAD("accept-vs-reject" if ok else "exception", "Key.verify[%s] = %s" % (name, exp), repr(got), n=calls, clause="key-verify", cand=name)
        return OK("z>=n" if z >= n else "z<n", n=calls)


class Separation(Driver):
    id = "C01.nonce-separation"
    rule = ("case = one production curve: over the whole D x Z product the nonces returned by deterministic_generate_k and the r values returned by sign are "
            "pairwise distinct except where (d, z mod-n-equivalent bits2octets) coincide; changing only d or only z changes the nonce; non-trivial = all")

    def __init__(self, tier, seed):
        Driver.__init__(self, tier, seed)
        self.names = ["secp256k1", "secp256r1"]
        self.bound = dict(curves=self.names, pairs="all pairs of the D x Z product (8x9)")

    def units(self):
        for name in self.names:
            c = ec.PRODUCTION[name]
            yield dict(curve=name, D=[str(x) for x in prod_D(c["n"], self.seed, name)], Z=[str(x) for x in prod_Z(c["n"], c["p"], self.seed, name)])

    def run(self, case):
        from pycoin.ecdsa.rfc6979 import deterministic_generate_k
        c = ec.PRODUCTION[case["curve"]]
        n = c["n"]
        ok, gens = _try(prod_generators, case["curve"])
        if not ok:
            return BAD("exception", "generators constructed", gens, clause="construct")
        g = gens["accel"]
        seen_k, seen_r = {}, {}
        calls = 0
        for d in case["D"]:
            for z in case["Z"]:
                d_, z_ = int(d), int(z)
                ok, v = _try(lambda: (deterministic_generate_k(n, d_, z_), g.sign(d_, z_)))
                calls += 2
                if not ok:
                    return BAD("exception", "nonce and signature", v, n=calls, clause="sign-exception")
                k, sg = v
                # RFC 6979 feeds bits2octets(z) = z mod n (for 256-bit n): (d, z) and (d, z') with z = z' mod n legitimately share the nonce
                ident = (d_, z_ % n)
                for seen, val, what in ((seen_k, k, "nonce"), (seen_r, sg[0], "r")):
                    if val in seen and seen[val] != ident:
                        return BAD("nonce-shared", "distinct (key, hash) pairs use distinct %ss" % what, "%s %d shared by (d,z mod n)=%r and %r" % (what, val, seen[val], ident),
                                   n=calls, clause="nonce-shared")
                    seen[val] = ident
        return OK("distinct:%d-nonces" % len(seen_k), n=calls)


def CONFIGURATIONS():
    from .c02 import CONFIGURATIONS as c
    out = c()
    try:
        from pycoin.ecdsa import secp256k1 as m1, secp256r1 as m2
        out["secp256k1_generator_overrides_sign_verify"] = overrides_sign(m1.secp256k1_generator)
        out["note"] = ("OpenSSL mix-in accelerates multiply/raw_mul/inverse_mod underneath the pure-Python sign/verify; the libsecp256k1 mix-in (own sign/verify, "
                       "low-s normalisation) is absent and therefore NOT covered")
    except Exception as e:
        out["error2"] = repr(e)
    return out


DRIVERS = [Nonce, ToySign, ToyVerify, ToyRecover, ProdSign, ProdCrafted, KeyWrapper, Separation]
ASSUMPTIONS = [
    "z is an integer standing for a 256-bit hash; RFC 6979 bits2int/bits2octets apply inside the nonce derivation, the ECDSA equations use z mod n "
    "(the property's verification formula), which coincides with standard ECDSA on 256-bit curves",
    "toy curves: a <= 2, b <= 7, base point and blinding factor seed-selected; (d, z) for which no nonce at all yields non-zero r and s are outside the property",
    "verification with Q = infinity or with unreduced coordinates, and z = 0, are outside the property (recorded only)",
    "production curves: D x Z boundary products only; libsecp256k1 absent; BLS12-381 G1 (thorough tier) is not required by the property and, being a "
    "subgroup of a curve with a cofactor, its key recovery is recorded only",
    "a pure-Python Generator must return the RFC 6979 signature exactly; s <-> n-s is tolerated only for a class that overrides sign",
]
