"""C02 - elliptic-curve arithmetic is the group law on every curve and backend (Mode I).

Toy curves (every y^2=x^3+ax+b over F_p, p = 3 mod 4, prime order n >= 5, a <= 2, b <= 7, p up to
the tier bound) are enumerated exhaustively: every pair of points including unreduced
representatives, every triple, every scalar in [-2n-1, 2n+1] plus 2^256-sized ones on every point,
the blinded fixed-base multiplication for every scalar and EVERY blinding factor (installed through
the real constructor), points_for_x on every x.  The oracle is the brute-force reference group
(vf.ref.ec).  Production curves: boundary scalars on three points for plain `Generator` objects
(pure Python) and for the imported accelerated generators, compared with the reference and with
each other (identical coordinates)."""
import itertools

from ..engine import Driver, OK, BAD, ModelInvalid, seed_int
from ..ref import ec

BIG = (2 ** 256, 2 ** 256 + 1, -2 ** 256)


# ------------------------------------------------------------------ helpers around pycoin
def _try(f, *a):
    try:
        return True, f(*a)
    except Exception as e:      # pycoin raised
        return False, "EXC %s: %s" % (type(e).__name__, str(e)[:100])


def norm(v, p):
    """canonical form of a pycoin point result: None (infinity), (x mod p, y mod p), or a string"""
    try:
        x, y = v
    except Exception:
        return "not-a-point %r" % (v,)
    if x is None and y is None:
        return None
    if not isinstance(x, int) or not isinstance(y, int):
        return "not-a-point %r" % (v,)
    return (x % p, y % p)


def show(P):
    return "inf" if P is None else repr(P)


def entropy_for(bf):
    return lambda nbytes: int(bf).to_bytes(nbytes, "big")


_SUBCLS = {}


def construct_generator(base_cls, p, a, b, G, n, bf):
    """instantiate base_cls (Generator or an accelerated subclass) through its REAL __init__ with an
    entropy function that yields blinding factor `bf` (only __new__ is overridden: the stock
    __new__ rejects the entropy_f keyword)."""
    sub = _SUBCLS.get(base_cls)
    if sub is None:
        def __new__(cls, p, a, b, basis, order, entropy_f=None):
            return tuple.__new__(cls, basis)
        sub = type("Verif" + base_cls.__name__, (base_cls,), {"__new__": __new__})
        _SUBCLS[base_cls] = sub
    return sub(p, a, b, tuple(G), n, entropy_f=entropy_for(bf))


_CACHE = {}


def toy_generator(curve, G, bf=0):
    from pycoin.ecdsa.Generator import Generator
    key = (tuple(curve), tuple(G), bf)
    g = _CACHE.get(key)
    if g is None:
        if len(_CACHE) > 2000:
            _CACHE.clear()
        p, a, b, n = curve
        g = construct_generator(Generator, p, a, b, G, n, bf)
        _CACHE[key] = g
    return g


_DECOY = {}


def decoy_same_point_other_curve(p, a, G):
    key = (p, a, tuple(G))
    if key not in _DECOY:
        x, y = G
        a2 = (a + 1) % p
        b2 = (y * y - x * x * x - a2 * x) % p
        if (4 * a2 ** 3 + 27 * b2 * b2) % p == 0:
            a2 = (a + 2) % p
            b2 = (y * y - x * x * x - a2 * x) % p
        # order of G on that curve, by repeated addition (reference arithmetic)
        k, P = 1, (x, y)
        while P is not None and k < 4 * p:
            P = ec.add(P, (x, y), p, a2)
            k += 1
        _DECOY[key] = toy_generator([p, a2, b2, k], [x, y], 0) if P is None else None
    g = _DECOY[key]
    if g is not None:
        g * 3
    return g


def toy_curve(curve, with_order=True):
    from pycoin.ecdsa.Curve import Curve
    p, a, b, n = curve
    return Curve(p, a, b, n) if with_order else Curve(p, a, b)


def mkpoint(c, P):
    if isinstance(P, str):          # FRESH_INF (round 6, C02-x1: `is` instead of `==` in the infinity shortcuts)
        return c.Point(None, None)
    return c.infinity() if P is None else c.Point(P[0], P[1])


def reps(P, p):
    """canonical + the three unreduced representatives of an affine point"""
    x, y = P
    return [(x, y), (x + p, y), (x, y + p), (x + p, y - p)]


def toy_list(tier):
    pmax = 31 if tier == "quick" else 103
    return [list(c) for c in ec.toy_curves(3, pmax)]


def base_point(curve, seed):
    p, a, b, n = curve
    pts = ec.points(p, a, b)
    if seed == 0:
        return list(pts[1])
    return list(pts[1 + seed_int(seed, "C02.base.%d.%d.%d" % (p, a, b), 0, n - 2)])


FRESH_INF = "fresh-infinity"      # the point at infinity as a separately built, equal object (not the curve's cached one)


def P_of(v):
    return None if v is None or v == FRESH_INF else (int(v[0]), int(v[1]))


def relation(P, Q, p):
    """operand relation of two (possibly unreduced) representatives"""
    if P is None and Q is None:
        return "inf+inf"
    if P is None:
        return "inf+P"
    if Q is None:
        return "P+inf"
    unred = "" if (0 <= P[0] < p and 0 <= P[1] < p and 0 <= Q[0] < p and 0 <= Q[1] < p) else ":unreduced"
    if (P[0] - Q[0]) % p == 0:
        if (P[1] + Q[1]) % p == 0:
            return "P+(-P)" + unred
        return "P+P" + unred
    return "generic" + unred


class ToyBase(Driver):
    def curves(self):
        return toy_list(self.tier)


# ------------------------------------------------------------------ toy: addition
class ToyAdd(ToyBase):
    id = "C02.toy-add"
    rule = ("case = ordered pair of point representatives (incl. infinity and the unreduced (x+p,y),(x,y+p),(x+p,y-p)) "
            "on one toy curve, on Curve+Point objects and on a Generator; P+Q, Q+P, P-Q, -P against the reference group; "
            "non-trivial = a doubling, an inverse pair, or unreduced operands")

    def __init__(self, tier, seed):
        Driver.__init__(self, tier, seed)
        cs = self.curves()
        self.bound = dict(curves=len(cs), pmax=max(c[0] for c in cs), representatives_per_point=4,
                          pairs="all ordered pairs of representatives; Generator objects: canonical pairs")

    def units(self):
        for curve in self.curves():
            G = base_point(curve, self.seed)
            p, a, b, n = curve
            pts = ec.points(p, a, b)
            for impl in ("curve", "generator"):
                for i in range(len(pts)):
                    yield dict(curve=curve, G=G, impl=impl, i=i)

    def execute(self, unit):
        p, a, b, n = unit["curve"]
        pts = ec.points(p, a, b)
        P0 = pts[unit["i"]]
        full = unit["impl"] == "curve"
        Ps = [None, FRESH_INF] if P0 is None else (reps(P0, p) if full else [P0])
        Qs = [None, FRESH_INF]
        for Q0 in pts[1:]:
            Qs.extend(reps(Q0, p) if full else [Q0])
        for P in Ps:
            for Q in Qs:
                case = dict(curve=unit["curve"], G=unit["G"], impl=unit["impl"], P=P, Q=Q)
                yield case, self.run(case)

    def run(self, case):
        p, a, b, n = case["curve"]
        P, Q = P_of(case["P"]), P_of(case["Q"])
        cP, cQ = ec.canon(P, p), ec.canon(Q, p)
        exp_sum = ec.add(cP, cQ, p, a)
        exp_dif = ec.add(cP, ec.neg(cQ, p), p, a)
        exp_neg = ec.neg(cP, p)
        rel = relation(P, Q, p)
        if case["impl"] == "curve":
            ok, c = _try(toy_curve, case["curve"])
        else:
            ok, c = _try(toy_generator, case["curve"], case["G"])
        if not ok:
            return BAD("exception", "curve object", c, clause="construct")
        ok, pp = _try(mkpoint, c, case["P"] if case["P"] == FRESH_INF else P)
        ok2, qq = _try(mkpoint, c, case["Q"] if case["Q"] == FRESH_INF else Q)
        if not (ok and ok2):
            return BAD("exception", "point on the curve accepted", "%s / %s" % (pp, qq), clause="point-construct")
        checks = [("P+Q", lambda: pp + qq, exp_sum, "add"), ("Q+P", lambda: qq + pp, exp_sum, "add"), ("c.add", lambda: c.add(pp, qq), exp_sum, "add")]
        if P is not None:
            checks.append(("-P", lambda: -pp, exp_neg, "add"))
        if Q is not None:
            checks.append(("P-Q", lambda: pp - qq, exp_dif, "add"))
        # negation of the point at infinity (directly, or through P - inf) is checked last under its own clause
        if P is None:
            checks.append(("-P", lambda: -pp, None, "neg-infinity"))
        if Q is None:
            checks.append(("P-Q", lambda: pp - qq, exp_dif, "neg-infinity"))
        for name, f, exp, clause in checks:
            ok, v = _try(f)
            got = norm(v, p) if ok else v
            if not ok or got != exp:
                return BAD("wrong-sum" if ok else "exception", "%s = %s" % (name, show(exp)), "%s = %s" % (name, show(got) if ok else v),
                           n=len(checks), clause=clause, relation=rel, op=name)
            if got is not None and not ec.on_curve(got, p, a, b):
                return BAD("off-curve", "%s on the curve" % name, show(got), clause=clause, relation=rel, op=name)
        return OK(rel, n=len(checks))

    def nontrivial(self, cls):
        return cls != "generic"

    def selfcheck(self):
        try:
            return ec.selfcheck()
        except ValueError as e:
            raise ModelInvalid("ec: %s" % e)


# ------------------------------------------------------------------ toy: associativity
class ToyAssoc(ToyBase):
    id = "C02.toy-assoc"
    rule = ("case = ordered triple of points of one toy curve; (P+Q)+R == P+(Q+R) == reference; non-trivial = some "
            "intermediate or final sum is infinity or some addition is a doubling")

    def __init__(self, tier, seed):
        Driver.__init__(self, tier, seed)
        self.nmax = 43 if tier == "quick" else 61
        self.bound = dict(curves=len([c for c in self.curves() if c[3] <= self.nmax]), n_max=self.nmax, triples="all n^3")

    def units(self):
        for curve in self.curves():
            p, a, b, n = curve
            if n > self.nmax:
                continue
            for i in range(n):
                for j in range(n):
                    yield dict(curve=curve, i=i, j=j)

    def execute(self, unit):
        p, a, b, n = unit["curve"]
        pts = ec.points(p, a, b)
        for R in pts:
            case = dict(curve=unit["curve"], P=pts[unit["i"]], Q=pts[unit["j"]], R=R)
            yield case, self.run(case)

    def run(self, case):
        p, a, b, n = case["curve"]
        P, Q, R = P_of(case["P"]), P_of(case["Q"]), P_of(case["R"])
        pq = ec.add(P, Q, p, a)
        qr = ec.add(Q, R, p, a)
        exp = ec.add(pq, R, p, a)
        if exp != ec.add(P, qr, p, a):
            raise ModelInvalid("reference group not associative")
        ok, c = _try(toy_curve, case["curve"])
        if not ok:
            return BAD("exception", "curve object", c, clause="construct")
        ok, v = _try(lambda: ((mkpoint(c, P) + mkpoint(c, Q)) + mkpoint(c, R), mkpoint(c, P) + (mkpoint(c, Q) + mkpoint(c, R))))
        if not ok:
            return BAD("exception", show(exp), v, n=4, clause="assoc")
        l, r = norm(v[0], p), norm(v[1], p)
        if l != exp or r != exp:
            return BAD("wrong-sum", "(P+Q)+R = P+(Q+R) = %s" % show(exp), "(P+Q)+R = %s, P+(Q+R) = %s" % (show(l), show(r)), n=4, clause="assoc")
        special = []
        if None in (P, Q, R):
            special.append("has-inf")
        if pq is None or qr is None or exp is None:
            special.append("sum-inf")
        if P == Q or Q == R or pq == R or P == qr:
            special.append("doubling")
        return OK("+".join(special) or "generic", n=4)

    def nontrivial(self, cls):
        return cls != "generic"


# ------------------------------------------------------------------ toy: scalar multiplication
def kclass(k, n):
    if abs(k) >= 2 ** 255:
        base = "huge"
    elif k < 0:
        base = "k<0"
    elif k >= n:
        base = "k>=n"
    else:
        base = "0<=k<n"
    return base + (":k=0 mod n" if k % n == 0 else "")


class ToyMul(ToyBase):
    id = "C02.toy-mul"
    rule = ("case = (point representative, integer k) on one toy curve; P*k, k*P, curve.multiply(P,k) on Curve(order known), "
            "Curve(order unknown) and Generator-as-curve objects against k-fold repeated addition; non-trivial = k outside "
            "[1,n-1], result infinity, or unreduced operand")

    def __init__(self, tier, seed):
        Driver.__init__(self, tier, seed)
        self.bound = dict(curves=len(self.curves()), k="[-2n-1, 2n+1] + {2^256, 2^256+1, -2^256}", points="every point incl. infinity, x4 representatives")

    def units(self):
        for curve in self.curves():
            G = base_point(curve, self.seed)
            for impl in ("curve", "curve-noorder", "generator"):
                for i in range(curve[3]):
                    yield dict(curve=curve, G=G, impl=impl, i=i)

    def execute(self, unit):
        p, a, b, n = unit["curve"]
        P0 = ec.points(p, a, b)[unit["i"]]
        Ps = [None] if P0 is None else (reps(P0, p) if unit["impl"] == "curve" else [P0])
        for P in Ps:
            for k in itertools.chain(range(-2 * n - 1, 2 * n + 2), BIG):
                case = dict(curve=unit["curve"], G=unit["G"], impl=unit["impl"], P=P, k=str(k))
                yield case, self.run(case)

    def run(self, case):
        p, a, b, n = case["curve"]
        P = P_of(case["P"])
        k = int(case["k"])
        cP = ec.canon(P, p)
        exp = ec.mul_repeated(k, cP, p, a, n)
        impl = case["impl"]
        if impl == "generator":
            ok, c = _try(toy_generator, case["curve"], case["G"])
        else:
            ok, c = _try(toy_curve, case["curve"], impl == "curve")
        if not ok:
            return BAD("exception", "curve object", c, clause="construct")
        ok, pp = _try(mkpoint, c, P)
        if not ok:
            return BAD("exception", "point on the curve accepted", pp, clause="point-construct")
        cls = kclass(k, n) + (":inf-operand" if P is None else "") + ("" if P is None or P == cP else ":unreduced")
        outside = impl == "curve-noorder" and k < 0       # the property quantifies over curves of known order
        for name, f in (("P*k", lambda: pp * k), ("k*P", lambda: k * pp), ("multiply", lambda: c.multiply(pp, k))):
            ok, v = _try(f)
            got = norm(v, p) if ok else v
            if outside:
                return OK("outside:order-unknown,k<0:" + ("value-ok" if ok and got == exp else "EXC" if not ok else "value-differs"))
            if not ok or got != exp:
                return BAD("wrong-multiple" if ok else "exception", "%s = %s" % (name, show(exp)), "%s = %s" % (name, show(got) if ok else v),
                           n=3, clause="multiply", target=impl, kclass=kclass(k, n))
        return OK(cls + ("" if impl != "curve-noorder" else ":order-unknown"), n=3)

    def nontrivial(self, cls):
        return cls != "0<=k<n"


# ------------------------------------------------------------------ toy: blinded fixed-base multiply
class ToyGMul(ToyBase):
    id = "C02.toy-gmul"
    rule = ("case = (toy Generator built by the real constructor with blinding factor bf, integer k), EVERY bf in [0,n-1] x "
            "every k; g*k, k*g, g.raw_mul(k), g.multiply(g,k) against k-fold repeated addition of the base point; "
            "non-trivial = k outside [1,n-1] or the blinding sum hits infinity / a doubling")

    def __init__(self, tier, seed):
        Driver.__init__(self, tier, seed)
        self.bound = dict(curves=len(self.curves()), k="[-2n-1, 2n+1] + {2^256, 2^256+1, -2^256}", blinding_factors="all 0..n-1")

    def units(self):
        for curve in self.curves():
            G = base_point(curve, self.seed)
            for bf in range(curve[3]):
                yield dict(curve=curve, G=G, bf=bf)

    def execute(self, unit):
        n = unit["curve"][3]
        for k in itertools.chain(range(-2 * n - 1, 2 * n + 2), BIG):
            case = dict(curve=unit["curve"], G=unit["G"], bf=unit["bf"], k=str(k))
            yield case, self.run(case)

    def run(self, case):
        p, a, b, n = case["curve"]
        G = P_of(case["G"])
        k, bf = int(case["k"]), case["bf"]
        exp = ec.mul_repeated(k, G, p, a, n)
        # a second Generator on the same curve with ANOTHER base point is built first: tables derived from a base
        # point must not leak between generator objects
        G2 = ec.mul_repeated(2, G, p, a, n)
        okd, gd = _try(toy_generator, case["curve"], list(G2), 0)
        # ... and a Generator with the SAME base point coordinates on ANOTHER curve (same p, a+1, b chosen so that G is on it)
        _try(decoy_same_point_other_curve, p, a, G)
        ok, g = _try(toy_generator, case["curve"], case["G"], bf)
        if not ok:
            return BAD("exception", "Generator constructed", g, clause="construct")
        ok, seen = _try(lambda: (g._blinding_factor, norm(g._minus_blinding_factor_g, p)))
        if not ok or seen[0] != bf:
            return BAD("harness-blinding", "blinding factor %d installed by the constructor" % bf, repr(seen), clause="blinding-install")
        for name, f in (("g*k", lambda: g * k), ("k*g", lambda: k * g), ("raw_mul", lambda: g.raw_mul(k))):
            ok, v = _try(f)
            got = norm(v, p) if ok else v
            if not ok or got != exp:
                return BAD("wrong-multiple" if ok else "exception", "%s = %s" % (name, show(exp)), "%s = %s (bf=%d)" % (name, show(got) if ok else v, bf),
                           n=3, clause="generator-mul", op=name)
        # the other generator on this curve must be right as well, whichever of the two was built first in this process
        if okd and G2 is not None:
            expd = ec.mul_repeated(k, G2, p, a, n)
            ok, v = _try(lambda: gd * k)
            got = norm(v, p) if ok else v
            if not ok or got != expd:
                return BAD("wrong-multiple" if ok else "exception", "second generator (base point 2G) * k = %s" % show(expd),
                           show(got) if ok else v, n=4, clause="generator-mul", op="other-base-point")
        cls = kclass(k, n)
        if (k + bf) % n == 0:
            cls += ":blind-part-inf"
        elif bf % n == 0:
            cls += ":bf=0"
        elif (k + 2 * bf) % n == 0:
            cls += ":blind-doubling"
        return OK(cls, n=3)

    def nontrivial(self, cls):
        return cls != "0<=k<n"


# ------------------------------------------------------------------ the Generator object used as a Point operand
class GenAsPoint(Driver):
    id = "C02.gen-as-point"
    rule = ("case = (Generator object g - toy, or production pure/accelerated -, operation) where g itself is the Point operand: -g, P-g, g-P, g+P, P+g "
            "for every toy point P (three points on production curves), g.multiply(g,k) for every k in [-n-1, n+1]; against the reference; "
            "non-trivial = operations that negate g")

    def __init__(self, tier, seed):
        Driver.__init__(self, tier, seed)
        self.toys = toy_list(tier)
        self.bound = dict(toy_curves=len(self.toys), production=["secp256k1", "secp256r1"], ops="-g, P-g, g-P, g+P, P+g (all P), multiply(g,k) k in [-n-1,n+1] (production: boundary k)")

    def units(self):
        for curve in self.toys:
            yield dict(kind="toy", curve=curve, G=base_point(curve, self.seed))
        for name in ("secp256k1", "secp256r1"):
            for cfg in ("pure", "accel"):
                yield dict(kind="prod", curve=name, config=cfg)

    def execute(self, unit):
        if unit["kind"] == "toy":
            p, a, b, n = unit["curve"]
            pts = ec.points(p, a, b)
            ks = list(range(-n - 1, n + 2))
            base = dict(kind="toy", curve=unit["curve"], G=unit["G"])
        else:
            c = ec.PRODUCTION[unit["curve"]]
            n = c["n"]
            pts = [None, c["G"], ec.neg(c["G"], c["p"])] + other_points(c, self.seed)
            ks = [0, 1, 2, 3, -1, -2, n - 1, n, n + 1, 2 ** 255, 2 ** 256 - 1]
            base = dict(kind="prod", curve=unit["curve"], config=unit["config"])
        case = dict(base, op="-g")
        yield case, self.run(case)
        for P in pts:
            for op in ("P-g", "g-P", "g+P", "P+g"):
                case = dict(base, op=op, P=None if P is None else [str(P[0]), str(P[1])])
                yield case, self.run(case)
        for k in ks:
            case = dict(base, op="multiply(g,k)", k=str(k))
            yield case, self.run(case)

    def run(self, case):
        if case["kind"] == "toy":
            p, a, b, n = case["curve"]
            G = P_of(case["G"])
            ok, g = _try(toy_generator, case["curve"], case["G"])
        else:
            c = ec.PRODUCTION[case["curve"]]
            p, a, b, n, G = c["p"], c["a"], c["b"], c["n"], c["G"]
            ok, g = _try(lambda: prod_generators(case["curve"])[case["config"]])
        if not ok:
            return BAD("exception", "Generator constructed", g, clause="construct")
        op = case["op"]
        P = P_of(case.get("P"))
        if op == "-g":
            exp, f = ec.neg(G, p), (lambda: -g)
        elif op == "multiply(g,k)":
            k = int(case["k"])
            exp, f = ec.mul(k, G, p, a), (lambda: g.multiply(g, k))
        else:
            ok, pp = _try(mkpoint, g, P)
            if not ok:
                return BAD("exception", "point accepted", pp, clause="point-construct")
            exp, f = {"P-g": (ec.add(P, ec.neg(G, p), p, a), lambda: pp - g), "g-P": (ec.add(G, ec.neg(P, p), p, a), lambda: g - pp),
                      "g+P": (ec.add(G, P, p, a), lambda: g + pp), "P+g": (ec.add(G, P, p, a), lambda: pp + g)}[op]
            if op == "g-P" and P is None:
                return OK("trivial-skip:g-inf (negation of infinity is judged by C02.toy-add)")
        ok, v = _try(f)
        got = norm(v, p) if ok else v
        if not ok or got != exp:
            return BAD("wrong-value" if ok else "exception", "%s = %s" % (op, show(exp)), "%s = %s" % (op, show(got) if ok else v),
                       clause="generator-as-point", op=op, config=case.get("config", "toy"))
        return OK(op)

    def nontrivial(self, cls):
        return cls in ("-g", "P-g", "multiply(g,k)")


# ------------------------------------------------------------------ toy: points_for_x
class ToyLift(ToyBase):
    id = "C02.toy-lift"
    rule = ("case = (toy Generator, x) for every x in [0,p) (checked) and x+p, x-p (recorded only: outside the property); "
            "points_for_x = the two curve points with that x, even y first, else ValueError; non-trivial = x with no point or odd/even ordering decided")

    def __init__(self, tier, seed):
        Driver.__init__(self, tier, seed)
        self.bound = dict(curves=len(self.curves()), x="every x in [0,p); [p,2p) and [-p,0) recorded only")

    def units(self):
        for curve in self.curves():
            yield dict(curve=curve, G=base_point(curve, self.seed))

    def execute(self, unit):
        p = unit["curve"][0]
        for x in range(-p, 2 * p):
            case = dict(curve=unit["curve"], G=unit["G"], x=x)
            yield case, self.run(case)

    def run(self, case):
        p, a, b, n = case["curve"]
        x = case["x"]
        exp = ec.points_with_x(x % p, p, a, b)
        ok, g = _try(toy_generator, case["curve"], case["G"])
        if not ok:
            return BAD("exception", "Generator constructed", g, clause="construct")
        try:
            r = g.points_for_x(x)
            got = [tuple(r[0]), tuple(r[1])] if len(r) == 2 else "len %d" % len(r)
            verdict = "points"
        except ValueError as e:
            got, verdict = "ValueError", "none"
        except Exception as e:
            got, verdict = "EXC %s: %s" % (type(e).__name__, e), "exc"
        if not (0 <= x < p):
            if verdict == "points":
                return OK("outside:x-out-of-range:" + ("returns-unreduced-alias" if [ec.canon(P_of(q), p) for q in got] == exp else "returns-other"))
            return OK("outside:x-out-of-range:" + verdict)
        if len(exp) == 2:
            want = [tuple(exp[0]), tuple(exp[1])]
            if got != want:
                return BAD("lift", "points_for_x(%d) = %r" % (x, want), repr(got), clause="points-for-x")
            return OK("two-points:first-y-%s" % ("smaller" if want[0][1] < want[1][1] else "larger"))
        if len(exp) == 1:
            # a point of order two: cannot occur on curves of odd prime order
            raise ModelInvalid("toy curve with a 2-torsion point")
        if verdict != "none":
            return BAD("lift", "points_for_x(%d) raises ValueError (no point)" % x, repr(got), clause="points-for-x")
        return OK("no-point")

    def nontrivial(self, cls):
        return not cls.startswith("outside")


# ------------------------------------------------------------------ production curves
def prod_K(n):
    ks = [0, 1, -1, 2, -2, 3, n - 1, n, n + 1, 2 * n, (n - 1) // 2, (n + 1) // 2, 2 ** 300]
    for i in list(range(8, 257, 8)) + [264]:
        ks.append(2 ** i)
        ks.append(2 ** i - 1)
    # scalars e for which 3e sits just below / above a power of two (the double-and-add ladder works on 3e), and
    # alternating bit patterns
    for m in (48, 52, 53, 54, 55, 56, 64, 100, 128, 192, 254, 255, 256):
        ks.append((2 ** m - 1) // 3)
        ks.append((2 ** m + 2) // 3)
        ks.append(2 * (2 ** m - 1) // 3)
    return [k for i, k in enumerate(ks) if k not in ks[:i]]


_PROD = {}


def prod_generators(name):
    """{'pure': plain Generator built from the module constants, 'accel': the imported generator}"""
    if name in _PROD:
        return _PROD[name]
    from pycoin.ecdsa.Generator import Generator
    c = ec.PRODUCTION[name]
    out = {}
    if name == "secp256k1":
        from pycoin.ecdsa import secp256k1 as m
        consts = (m._p, m._a, m._b, (m._Gx, m._Gy), m._r)
        out["accel"] = m.secp256k1_generator
    elif name == "secp256r1":
        from pycoin.ecdsa import secp256r1 as m
        consts = (m._p, m._a, m._b, (m._Gx, m._Gy), m._r)
        out["accel"] = m.secp256r1_generator
    elif name == "nist_p384":       # user-constructed: no module, the reference constants are the input
        consts = (c["p"], c["a"], c["b"], c["G"], c["n"])
    else:
        from pycoin.ecdsa import bls12_381_g1 as m
        consts = (m._p, m._a, m._b, (m._Gx, m._Gy), m._r)
        out["shipped"] = m.bls12_381_g1
    if consts != (c["p"], c["a"], c["b"], c["G"], c["n"]):
        raise ModelInvalid("%s: module constants differ from the reference constants" % name)
    out["pure"] = Generator(*consts)
    _PROD[name] = out
    return out


def accel_class(name):
    if name == "secp256k1":
        from pycoin.ecdsa import secp256k1 as m
    else:
        from pycoin.ecdsa import secp256r1 as m
    return m.GeneratorWithOptimizations


def is_accelerated(g):
    from pycoin.ecdsa.Generator import Generator
    return type(g).multiply is not Generator.multiply or type(g).__mul__ is not Generator.__mul__


def other_points(c, seed):
    """two further points of the production curve: reference multiples of G by fixed / seed-chosen scalars"""
    s1 = 0xC0FFEE1234567 if seed == 0 else seed_int(seed, "C02.prod.s1." + c["name"], 2, c["n"] - 2)
    s2 = (c["n"] - 1) // 3 if seed == 0 else seed_int(seed, "C02.prod.s2." + c["name"], 2, c["n"] - 2)
    return [ec.mul(s1, c["G"], c["p"], c["a"]), ec.mul(s2, c["G"], c["p"], c["a"])]


class ProdMul(Driver):
    id = "C02.prod-mul"
    rule = ("case = (production curve, boundary scalar k); g*k, k*g, raw_mul(k), P*k for P in {G as plain point, two other points} on a pure-Python "
            "Generator and on the imported accelerated generator; each against the reference double-and-add, pure and accelerated identical; "
            "non-trivial = k outside [1,n-1]")

    def __init__(self, tier, seed):
        Driver.__init__(self, tier, seed)
        # nist_p384: a user-constructed Generator whose order is wider than 256 bits (fixed-base table / loop length; see known_findings)
        self.names = ["secp256k1", "secp256r1", "nist_p384"] + (["bls12_381_g1"] if tier == "thorough" else [])
        self.bound = dict(curves=self.names, scalars=len(prod_K(ec.SECP256K1["n"])), points=3,
                          K="0,+-1,+-2,3,n-1,n,n+1,2n,(n+-1)/2,2^i,2^i-1 (i=8,16..256,264),2^300")

    def units(self):
        for name in self.names:
            c = ec.PRODUCTION[name]
            pts = other_points(c, self.seed)
            for k in prod_K(c["n"]):
                yield dict(curve=name, k=str(k), points=[[str(v) for v in P] for P in pts])

    def run(self, case):
        c = ec.PRODUCTION[case["curve"]]
        p, a, n = c["p"], c["a"], c["n"]
        k = int(case["k"])
        pts = [c["G"]] + [(int(P[0]), int(P[1])) for P in case["points"]]
        exps = [ec.mul(k, P, p, a) for P in pts]
        ok, gens = _try(prod_generators, case["curve"])
        if not ok:
            return BAD("exception", "generators constructed", gens, clause="construct")
        calls = 0
        results = {}
        for cfg in sorted(gens):
            g = gens[cfg]
            ops = [("g*k", lambda: g * k, exps[0]), ("k*g", lambda: k * g, exps[0]), ("raw_mul", lambda: g.raw_mul(k), exps[0])]
            for i, P in enumerate(pts):
                ops.append(("P%d*k" % i, (lambda P=P: g.Point(*P) * k), exps[i]))
                ops.append(("multiply(P%d,k)" % i, (lambda P=P: g.multiply(g.Point(*P), k)), exps[i]))
            for name, f, exp in ops:
                ok, v = _try(f)
                calls += 1
                got = norm(v, p) if ok else v
                if not ok or got != exp:
                    return BAD("wrong-multiple" if ok else "exception", "%s = %s" % (name, show(exp)), "[%s] %s = %s" % (cfg, name, show(got) if ok else v),
                               n=calls, clause="multiply", config=cfg, op=name)
                results[(cfg, name)] = tuple(v)
        for (cfg, name), v in results.items():
            if v != results[("pure", name)]:
                return BAD("backend-differs", "identical coordinates", "%s: pure %r, %s %r" % (name, results[("pure", name)], cfg, v), n=calls,
                           clause="backend-differs", config=cfg, op=name)
        return OK(kclass(k, n), n=calls)

    def nontrivial(self, cls):
        return cls != "0<=k<n"


class ProdSums(Driver):
    id = "C02.prod-sums"
    rule = ("case = (production curve, configuration, pair of labelled operands from {inf, G, -G, 2G, P1, -P1, P2, P1+P2}); P+Q, Q+P, P-Q against the "
            "reference; plus associativity on all triples of {G, P1, P2, -G, inf}; non-trivial = anything but a generic sum")

    LABELS = ("inf", "G", "-G", "2G", "P1", "-P1", "P2", "P1+P2")

    def __init__(self, tier, seed):
        Driver.__init__(self, tier, seed)
        self.names = ["secp256k1", "secp256r1"] + (["bls12_381_g1"] if tier == "thorough" else [])
        self.bound = dict(curves=self.names, operands=list(self.LABELS), pairs="all 64 ordered pairs per configuration", triples="all 125 of 5 operands")

    def operand_values(self, name):
        c = ec.PRODUCTION[name]
        p, a = c["p"], c["a"]
        P1, P2 = other_points(c, self.seed)
        G = c["G"]
        vals = dict(inf=None, G=G, P1=P1, P2=P2)
        vals["-G"] = ec.neg(G, p)
        vals["2G"] = ec.add(G, G, p, a)
        vals["-P1"] = ec.neg(P1, p)
        vals["P1+P2"] = ec.add(P1, P2, p, a)
        return vals

    def units(self):
        for name in self.names:
            vals = self.operand_values(name)
            enc = {k: (None if v is None else [str(v[0]), str(v[1])]) for k, v in vals.items()}
            for cfg in (("pure", "accel") if name != "bls12_381_g1" else ("pure", "shipped")):
                for lp in self.LABELS:
                    for lq in self.LABELS:
                        yield dict(curve=name, config=cfg, kind="pair", labels=[lp, lq], ops=[enc[lp], enc[lq]])
                tl = ("G", "P1", "P2", "-G", "inf")
                for t in itertools.product(tl, repeat=3):
                    yield dict(curve=name, config=cfg, kind="triple", labels=list(t), ops=[enc[x] for x in t])

    def run(self, case):
        c = ec.PRODUCTION[case["curve"]]
        p, a, b = c["p"], c["a"], c["b"]
        ops = [None if v is None else (int(v[0]), int(v[1])) for v in case["ops"]]
        ok, gens = _try(prod_generators, case["curve"])
        if not ok:
            return BAD("exception", "generators constructed", gens, clause="construct")
        g = gens[case["config"]]
        ok, pts = _try(lambda: [mkpoint(g, P) for P in ops])
        if not ok:
            return BAD("exception", "points accepted", pts, clause="point-construct")
        if case["kind"] == "pair":
            P, Q = ops
            checks = [("P+Q", lambda: pts[0] + pts[1], ec.add(P, Q, p, a), "add"), ("Q+P", lambda: pts[1] + pts[0], ec.add(P, Q, p, a), "add"),
                      ("P-Q", lambda: pts[0] - pts[1], ec.add(P, ec.neg(Q, p), p, a), "add" if Q is not None else "neg-infinity")]
            cls = relation(P, Q, p)
        else:
            P, Q, R = ops
            exp = ec.add(ec.add(P, Q, p, a), R, p, a)
            checks = [("(P+Q)+R", lambda: (pts[0] + pts[1]) + pts[2], exp, "add"), ("P+(Q+R)", lambda: pts[0] + (pts[1] + pts[2]), exp, "add")]
            cls = "triple:" + ("sum-inf" if exp is None else "has-inf" if None in ops else "generic")
        for name, f, exp, clause in checks:
            ok, v = _try(f)
            got = norm(v, p) if ok else v
            if not ok or got != exp:
                return BAD("wrong-sum" if ok else "exception", "%s = %s" % (name, show(exp)), "[%s] %s = %s" % (case["config"], name, show(got) if ok else v),
                           n=len(checks), clause=clause, config=case["config"])
        return OK(cls, n=len(checks))

    def nontrivial(self, cls):
        return cls not in ("generic", "triple:generic")


class ProdBlind(Driver):
    id = "C02.prod-blind"
    rule = ("case = (production curve, configuration, blinding factor bf installed through the real constructor, scalar k); g*k = reference k*G; "
            "non-trivial = the blinding sum degenerates (k+bf = 0, bf = 0, k+2bf = 0 mod n)")

    def __init__(self, tier, seed):
        Driver.__init__(self, tier, seed)
        self.names = ["secp256k1", "secp256r1"]
        self.bound = dict(curves=self.names, bf="0,1,2,n-1,n-2,(n-1)/2,seed", k="0,1,-1,-bf,-2bf,n-1,2^255,2^256-1", configs="pure, accelerated class")

    def bfs(self, c):
        n = c["n"]
        s = 0x1234567890ABCDEF1234567890ABCDEF if self.seed == 0 else seed_int(self.seed, "C02.bf." + c["name"], 3, n - 3)
        return [0, 1, 2, n - 1, n - 2, (n - 1) // 2, s]

    def units(self):
        for name in self.names:
            c = ec.PRODUCTION[name]
            for cfg in ("pure", "accel"):
                for bf in self.bfs(c):
                    yield dict(curve=name, config=cfg, bf=str(bf))

    def execute(self, unit):
        c = ec.PRODUCTION[unit["curve"]]
        n = c["n"]
        bf = int(unit["bf"])
        ok, g = _try(self.build, unit["curve"], unit["config"], bf)
        ks = []
        for k in (0, 1, -1, -bf, -2 * bf, n - bf, n - 1, 2 ** 255, 2 ** 256 - 1):
            if k not in ks:
                ks.append(k)
        for k in ks:
            case = dict(curve=unit["curve"], config=unit["config"], bf=unit["bf"], k=str(k))
            yield case, self.check(case, ok, g)

    def build(self, name, cfg, bf):
        from pycoin.ecdsa.Generator import Generator
        c = ec.PRODUCTION[name]
        cls = Generator if cfg == "pure" else accel_class(name)
        return construct_generator(cls, c["p"], c["a"], c["b"], c["G"], c["n"], bf)

    def run(self, case):
        ok, g = _try(self.build, case["curve"], case["config"], int(case["bf"]))
        return self.check(case, ok, g)

    def check(self, case, ok, g):
        c = ec.PRODUCTION[case["curve"]]
        p, a, n = c["p"], c["a"], c["n"]
        k, bf = int(case["k"]), int(case["bf"])
        if not ok:
            return BAD("exception", "Generator constructed", g, clause="construct")
        if g._blinding_factor != bf:
            return BAD("harness-blinding", "blinding factor installed", repr(g._blinding_factor), clause="blinding-install")
        exp = ec.mul(k, c["G"], p, a)
        for name, f in (("g*k", lambda: g * k), ("k*g", lambda: k * g)):
            ok, v = _try(f)
            got = norm(v, p) if ok else v
            if not ok or got != exp:
                return BAD("wrong-multiple" if ok else "exception", "%s = %s" % (name, show(exp)), "[%s bf=%d] %s = %s" % (case["config"], bf, name, show(got) if ok else v),
                           n=2, clause="generator-mul", config=case["config"])
        cls = kclass(k, n)
        if (k + bf) % n == 0:
            cls += ":blind-part-inf"
        elif bf == 0:
            cls += ":bf=0"
        elif (k + 2 * bf) % n == 0:
            cls += ":blind-doubling"
        return OK(cls, n=2)

    def nontrivial(self, cls):
        return ":" in cls


class ProdLift(Driver):
    id = "C02.prod-lift"
    rule = ("case = (production curve, configuration, x) for x in {0..20, p-1, p-2, Gx, x(P1), first x without a point, 2^255}; points_for_x = the two points "
            "(even y first) or ValueError; x >= p recorded only; non-trivial = all classes (point / no point)")

    def __init__(self, tier, seed):
        Driver.__init__(self, tier, seed)
        self.names = ["secp256k1", "secp256r1"] + (["bls12_381_g1"] if tier == "thorough" else [])
        self.bound = dict(curves=self.names, x="0..20, p-2, p-1, Gx, x(P1), 2^255 | recorded only: p, p+1, Gx+p (when < 2^256... any int)")

    def units(self):
        for name in self.names:
            c = ec.PRODUCTION[name]
            xs = list(range(21)) + [c["p"] - 2, c["p"] - 1, c["G"][0], other_points(c, self.seed)[0][0], 2 ** 255 % c["p"], c["p"], c["p"] + 1, c["p"] + 5, c["G"][0] + c["p"]]
            for cfg in (("pure", "accel") if name != "bls12_381_g1" else ("pure", "shipped")):
                for x in xs:
                    yield dict(curve=name, config=cfg, x=str(x))

    def run(self, case):
        c = ec.PRODUCTION[case["curve"]]
        p, a, b = c["p"], c["a"], c["b"]
        x = int(case["x"])
        exp = ec.lift_x(x % p, p, a, b)
        ok, gens = _try(prod_generators, case["curve"])
        if not ok:
            return BAD("exception", "generators constructed", gens, clause="construct")
        g = gens[case["config"]]
        try:
            r = g.points_for_x(x)
            got = [tuple(r[0]), tuple(r[1])] if len(r) == 2 else "len %d" % len(r)
            verdict = "points"
        except ValueError:
            got, verdict = "ValueError", "none"
        except Exception as e:
            got, verdict = "EXC %s: %s" % (type(e).__name__, e), "exc"
        if not (0 <= x < p):
            return OK("outside:x>=p:" + verdict)
        if len(exp) == 2:
            want = [tuple(exp[0]), tuple(exp[1])]
            if got != want:
                return BAD("lift", "points_for_x = %r" % (want,), repr(got), clause="points-for-x", config=case["config"])
            return OK("two-points")
        if len(exp) == 1:
            return OK("outside:y=0:" + verdict)
        if verdict != "none":
            return BAD("lift", "ValueError (no point with this x)", repr(got), clause="points-for-x", config=case["config"])
        return OK("no-point")

    def nontrivial(self, cls):
        return not cls.startswith("outside")


class ProdECDH(Driver):
    id = "C02.prod-ecdh"
    rule = ("case = (production curve, configuration, d1, d2) over D x D; generate_shared_public_key(d1, d2*G) == generate_shared_public_key(d2, d1*G) == "
            "reference (d1*d2)*G; non-trivial = d1 != d2")

    def __init__(self, tier, seed):
        Driver.__init__(self, tier, seed)
        self.names = ["secp256k1", "secp256r1"]
        self.bound = dict(curves=self.names, D="1,2,3,n-1,n-2,(n-1)/2,2^128,seed", pairs="D x D (d1 <= d2 by index), pure and accelerated")

    def D(self, c):
        n = c["n"]
        s = 0xDEADBEEFCAFEBABE0123456789ABCDEF0123456789 if self.seed == 0 else seed_int(self.seed, "C02.D." + c["name"], 4, n - 3)
        return [1, 2, 3, n - 1, n - 2, (n - 1) // 2, 2 ** 128, s]

    def units(self):
        for name in self.names:
            c = ec.PRODUCTION[name]
            D = self.D(c)
            for cfg in ("pure", "accel"):
                for i, d1 in enumerate(D):
                    for d2 in D[i:]:
                        yield dict(curve=name, config=cfg, d1=str(d1), d2=str(d2))

    def run(self, case):
        from pycoin.ecdsa.encrypt import generate_shared_public_key
        c = ec.PRODUCTION[case["curve"]]
        p, a, n = c["p"], c["a"], c["n"]
        d1, d2 = int(case["d1"]), int(case["d2"])
        Q1 = ec.mul(d1, c["G"], p, a)
        Q2 = ec.mul(d2, c["G"], p, a)
        exp = ec.mul(d1 * d2, c["G"], p, a)
        ok, gens = _try(prod_generators, case["curve"])
        if not ok:
            return BAD("exception", "generators constructed", gens, clause="construct")
        g = gens[case["config"]]
        for name, f in (("shared(d1,Q2)", lambda: generate_shared_public_key(d1, Q2, g)), ("shared(d2,Q1)", lambda: generate_shared_public_key(d2, Q1, g))):
            ok, v = _try(f)
            got = norm(v, p) if ok else v
            if not ok or got != exp:
                return BAD("wrong-multiple" if ok else "exception", "%s = %s" % (name, show(exp)), "[%s] %s" % (case["config"], show(got) if ok else v),
                           n=2, clause="ecdh", config=case["config"])
        # the peer's key in the other shapes a caller may hold it in: a list, a Point of this generator, and a Point object
        # that belongs to ANOTHER curve (must be refused, or at least never yield a point off this curve)
        for name, arg in (("list", list(Q2)), ("Point", g.Point(*Q2))):
            ok, v = _try(lambda: generate_shared_public_key(d1, arg, g))
            got = norm(v, p) if ok else v
            if not ok or got != exp:
                return BAD("wrong-multiple" if ok else "exception", "shared(d1, Q2 as %s) = %s" % (name, show(exp)), show(got) if ok else v,
                           n=4, clause="ecdh-argument-type", config=case["config"])
        other = [x for x in self.names if x != case["curve"]][0]
        ok, og = _try(prod_generators, other)
        if ok:
            Qo = d2 * og[case["config"]]
            ok, v = _try(lambda: generate_shared_public_key(d1, Qo, g))
            if ok:
                got = norm(v, p)
                if got is not None and not ec.on_curve(got, p, a, c["b"]):
                    return BAD("off-curve-result", "a Point of %s is refused as a %s key (or the result is a %s point)" % (other, case["curve"], case["curve"]),
                               "returned %s, not on the curve" % show(got), n=5, clause="ecdh-foreign-point", config=case["config"])
        return OK("d1=d2" if d1 == d2 else "d1!=d2", n=5)

    def nontrivial(self, cls):
        return cls != "d1=d2"


class InvMod(Driver):
    id = "C02.invmod"
    rule = ("case = (a, m) with gcd(a, m) = 1: Curve.inverse_mod (pure) vs the accelerated generators' inverse_mod, differential only; small (a, m) "
            "exhaustively for every prime m <= 31 and a in [-2m, 2m], plus boundary values modulo the production p and n; non-trivial = a outside [1,m-1]")

    def __init__(self, tier, seed):
        Driver.__init__(self, tier, seed)
        self.mmax = 31 if tier == "quick" else 103
        self.bound = dict(small="primes m <= %d, a in [-2m,2m] coprime" % self.mmax, big="a in {1,2,-1,-2,m-1,m+1,2m-1,2^255,2^256-1,2^300,seed} mod {p,n} of secp256k1/r1")

    def units(self):
        for m in range(3, self.mmax + 1):
            if ec.is_prime(m):
                yield dict(kind="small", m=str(m))
        for name in ("secp256k1", "secp256r1"):
            c = ec.PRODUCTION[name]
            for which in ("p", "n"):
                yield dict(kind="big", m=str(c[which]), label="%s.%s" % (name, which))

    def execute(self, unit):
        m = int(unit["m"])
        if unit["kind"] == "small":
            avals = [x for x in range(-2 * m, 2 * m + 1) if x % m != 0]
        else:
            s = 0xABCDEF0123456789ABCDEF0123456789 if self.seed == 0 else seed_int(self.seed, "C02.inv." + unit["label"], 2, m - 2)
            avals = [1, 2, -1, -2, m - 1, m + 1, 2 * m - 1, 2 ** 255, 2 ** 256 - 1, 2 ** 300, s, -s]
            avals = [x for x in avals if x % m != 0]
        for x in avals:
            case = dict(a=str(x), m=str(m))
            yield case, self.run(case)

    def run(self, case):
        x, m = int(case["a"]), int(case["m"])
        from pycoin.ecdsa.Curve import Curve
        ok, gens = _try(lambda: (prod_generators("secp256k1"), prod_generators("secp256r1")))
        if not ok:
            return BAD("exception", "generators constructed", gens, clause="construct")
        impls = [("Curve", Curve(7, 0, 3, 13)), ("k1.pure", gens[0]["pure"]), ("k1.accel", gens[0]["accel"]), ("r1.accel", gens[1]["accel"])]
        vals = []
        for name, obj in impls:
            ok, v = _try(obj.inverse_mod, x, m)
            vals.append((name, v if ok else v))
        if any(v != vals[0][1] for _, v in vals):
            return BAD("backend-differs", "all backends agree on inverse_mod(%d, %d)" % (x, m), repr(vals), n=len(vals), clause="inverse-mod")
        if not isinstance(vals[0][1], int) or (vals[0][1] * x) % m != 1:
            # all backends agree; the value itself is outside what the property demands - recorded
            return OK("agree:not-an-inverse", n=len(vals))
        return OK("a<0" if x < 0 else "a>=m" if x >= m else "0<a<m", n=len(vals))

    def nontrivial(self, cls):
        return cls != "0<a<m"


def CONFIGURATIONS():
    out = dict(present=[], absent=[])
    try:
        from pycoin.ecdsa.native.openssl import OpenSSL
        from pycoin.ecdsa.native.secp256k1 import libsecp256k1
        from pycoin.ecdsa import secp256k1 as m1, secp256r1 as m2
        out["present"].append("pure-Python Generator objects constructed from the module constants")
        (out["present"] if OpenSSL else out["absent"]).append("OpenSSL libcrypto mix-in (multiply/raw_mul/inverse_mod)")
        (out["present"] if libsecp256k1 else out["absent"]).append("libsecp256k1 mix-in (__mul__/multiply/sign/verify)")
        out["secp256k1_generator_accelerated"] = is_accelerated(m1.secp256k1_generator)
        out["secp256r1_generator_accelerated"] = is_accelerated(m2.secp256r1_generator)
        out["secp256k1_generator_mro"] = [k.__module__.split(".")[-1] + "." + k.__name__ for k in type(m1.secp256k1_generator).__mro__[:4]]
    except Exception as e:
        out["error"] = repr(e)
    return out


DRIVERS = [ToyAdd, ToyAssoc, ToyMul, ToyGMul, ToyLift, GenAsPoint, ProdMul, ProdSums, ProdBlind, ProdLift, ProdECDH, InvMod]
ASSUMPTIONS = [
    "toy curves restricted to coefficients a <= 2, b <= 7 (all p = 3 mod 4 up to the tier bound, all prime orders n >= 5 that occur)",
    "coordinates of results are compared modulo p (an unreduced operand echoed back, e.g. P + infinity, is not an alarm)",
    "points_for_x with x outside [0,p), multiplication by k < 0 on a Curve built without its order, and inverse_mod of non-coprime "
    "arguments are outside the property and only recorded",
    "accelerated back-ends are fed canonical (reduced, on-curve) operands only; libsecp256k1 is absent in this image (reported under configurations)",
    "production curves: scalars and points from the stated boundary sets only",
]
