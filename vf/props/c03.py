"""C03 - script evaluation = Bitcoin consensus (Mode I over programs x flags x contexts).

Oracle: vf.ref.script (independent port of Core's interpreter, bound to all Core vectors shipped in the repo).
Observables: BitcoinVM(...).eval_script() stack / ScriptError and Tx.check_solution() returning / raising."""
import itertools

from ..engine import Driver, OK, BAD
from ..ref import script as R

# ------------------------------------------------------------------ shared plumbing

ALLFLAGS = (1 << 16) - 1
SIGFLAGS = R.STRICTENC | R.DERSIG | R.LOW_S | R.NULLFAIL | R.NULLDUMMY


def legal(f):
    if f & R.WITNESS and not f & R.P2SH:
        return False
    if f & R.CLEANSTACK and not (f & R.P2SH and f & R.WITNESS):
        return False
    return True


def flag_names(f):
    return sorted(k for k, v in R.FLAGNAMES.items() if f & v)


_OPNAME = {}
for _k, _v in list(vars(R).items()):
    if _k.startswith("OP_") and isinstance(_v, int):
        _OPNAME.setdefault(_v, _k)


def opname(op):
    return _OPNAME.get(op, "0x%02x" % op)


class Ctx(object):
    pass


CONST_Z = 12345
_CONST_Z_LE = int.from_bytes(CONST_Z.to_bytes(32, "big"), "little")

_pyc = {}


def pyc():
    """lazy import of the pieces of pycoin under test"""
    if not _pyc:
        from pycoin.coins.bitcoin.VM import BitcoinVM
        from pycoin.coins.SolutionChecker import ScriptError
        from pycoin.symbols.btc import network
        _pyc.update(VM=BitcoinVM, ScriptError=ScriptError, net=network, Tx=network.tx)
    return _pyc


def impl_eval(script, stack, flags, txc):
    P = pyc()
    ctx = Ctx()
    ctx.lock_time, ctx.version, ctx.sequence, ctx.tx_in_idx = txc["lock"], txc["version"], txc["seq"], 0
    try:
        vm = P["VM"](script, ctx, lambda *a: CONST_Z, flags, initial_stack=list(stack))
        out = vm.eval_script()
        return ("OK", tuple(bytes(x) for x in out))
    except P["ScriptError"] as e:
        return ("FAIL", str(e.args[1]) if len(e.args) > 1 else "?")
    except RecursionError:
        return ("EXC", "RecursionError")
    except Exception as e:
        return ("EXC", type(e).__name__)


def ref_eval(script, stack, flags, sigver, txc):
    tx = dict(version=txc["version"], lock=txc["lock"], ins=[(b"\x01" * 32, 0, b"", txc["seq"], [])], outs=[(1, b"")])
    ck = R.Checker(tx, 0, 0, legacy_f=lambda *a: _CONST_Z_LE, witness_f=lambda *a: _CONST_Z_LE)
    s = list(stack)
    try:
        R.eval_script(s, script, flags, ck, sigver)
        return ("OK", tuple(s)), ck.vintage
    except R.ScriptFail as e:
        return ("FAIL", e.code), ck.vintage


TXC0 = dict(version=2, lock=100, seq=5)


def cmp_eval(case):
    script = bytes.fromhex(case["script"])
    stack = [bytes.fromhex(x) for x in case["stack"]]
    flags = case["flags"]
    sigver = R.WITNESS_V0 if case.get("wit") else R.BASE
    txc = case.get("tx", TXC0)
    r, vintage = ref_eval(script, stack, flags, sigver, txc)
    p = impl_eval(script, stack, flags, txc)
    if vintage:
        return OK("trivial-vintage-unconstrained")
    if r[0] == "OK":
        if p[0] == "OK" and p[1] == r[1]:
            return OK("both-ok:depth%d" % len(r[1]))
        direction = "stack-differs" if p[0] == "OK" else "ref-ok/impl-fail"
    else:
        if p[0] != "OK":
            return OK("both-fail:%s%s" % (r[1], "/impl-EXC-" + p[1] if p[0] == "EXC" else ""))
        direction = "ref-fail/impl-ok"
    fo = case.get("focus")
    ck = case.get("ck", fo)
    longop = [i for i, x in enumerate(reversed(stack)) if len(x) > 4]
    codes = "%s>%s" % (r[1] if r[0] == "FAIL" else "OK", p[1] if p[0] != "OK" else "OK")
    return BAD(direction, "%s %s" % (r[0], [x.hex() for x in r[1]] if r[0] == "OK" else r[1]),
               "%s %s" % (p[0], [x.hex() for x in p[1]] if p[0] == "OK" else p[1]),
               clause="%s:%s:%s:%s" % (case.get("layer", "?"), ck or "-", direction, codes), op=fo, dir=direction,
               refcode=r[1] if r[0] == "FAIL" else "OK", implcode=p[1] if p[0] != "OK" else "OK",
               flags=flag_names(flags), long_operands=longop, wit=bool(case.get("wit")),
               nstack=len(stack))


def prev_hash(spk, amount, txc):
    if txc.get("prevhash"):
        return bytes.fromhex(txc["prevhash"])     # fixed outpoint: lets a script contain a signature over itself
    credit = dict(version=1, lock=0, ins=[(b"\0" * 32, 0xffffffff, b"\x00\x00", 0xffffffff, [])], outs=[(amount, spk)])
    return R.dsha(R.ser(credit, False))


def impl_spend(ss, spk, wit, amount, flags, txc):
    P = pyc()
    Tx = P["Tx"]
    h = prev_hash(spk, amount, txc)
    try:
        t = Tx(txc["version"], [Tx.TxIn(h, 0, ss, txc["seq"])], [Tx.TxOut(amount, b"")], txc["lock"])
        t.txs_in[0].witness = list(wit)
        t.set_unspents([Tx.TxOut(amount, spk)])
    except Exception as e:
        return ("EXC", "build:" + type(e).__name__)
    try:
        t.check_solution(0, flags=flags)
        return ("OK", "")
    except P["ScriptError"] as e:
        return ("FAIL", str(e.args[1]) if len(e.args) > 1 else "?")
    except RecursionError:
        return ("EXC", "RecursionError")
    except Exception as e:
        return ("EXC", type(e).__name__)


TXS0 = dict(version=1, lock=0, seq=0xffffffff)


def ref_spend(ss, spk, wit, amount, flags, txc):
    h = prev_hash(spk, amount, txc)
    tx = dict(version=txc["version"], lock=txc["lock"], ins=[(h, 0, ss, txc["seq"], list(wit))], outs=[(amount, b"")])
    ck = R.Checker(tx, 0, amount)
    try:
        R.verify_script(ss, spk, list(wit), flags, ck)
        return ("OK", ""), ck.vintage
    except R.ScriptFail as e:
        return ("FAIL", e.code), ck.vintage


def cmp_spend(case):
    ss = bytes.fromhex(case["ss"])
    spk = bytes.fromhex(case["spk"])
    wit = [bytes.fromhex(x) for x in case["wit"]]
    flags = case["flags"]
    txc = case.get("tx", TXS0)
    amount = case.get("amount", 0)
    r, vintage = ref_spend(ss, spk, wit, amount, flags, txc)
    p = impl_spend(ss, spk, wit, amount, flags, txc)
    if vintage:
        return OK("trivial-vintage-unconstrained")
    if (r[0] == "OK") == (p[0] == "OK"):
        if r[0] == "OK":
            return OK("both-ok")
        return OK("both-fail:%s%s" % (r[1], "/impl-EXC-" + p[1] if p[0] == "EXC" else ""))
    direction = "ref-ok/impl-fail" if r[0] == "OK" else "ref-fail/impl-ok"
    fo = case.get("focus")
    ck = case.get("ck", fo)
    codes = "%s>%s" % (r[1] if r[0] == "FAIL" else "OK", p[1] if p[0] != "OK" else "OK")
    return BAD(direction, "%s %s" % r, "%s %s" % p,
               clause="%s:%s:%s:%s" % (case.get("layer", "?"), ck or "-", direction, codes), op=fo, dir=direction,
               refcode=r[1] if r[0] == "FAIL" else "OK", implcode=p[1] if p[0] != "OK" else "OK",
               flags=flag_names(flags), kindtags=case.get("tags", {}))


class _Base(Driver):
    def run(self, case):
        if case.get("k") == "spend":
            return cmp_spend(case)
        return cmp_eval(case)

    def nontrivial(self, cls):
        return cls.startswith("both-ok")

    def selfcheck(self):
        return R.selfcheck()


# ------------------------------------------------------------------ L1 opcode semantics

OMEGA = [b"", b"\x00", b"\x80", b"\x01", b"\x81", b"\x7f", b"\xff", b"\x10", b"\x11", b"\x00\x00", b"\x00\x80", b"\x01\x00",
         b"\xff\x7f", b"\xff\xff\x7f", b"\xff\xff\xff\x7f", b"\xff\xff\xff\xff", b"\x00\x00\x00\x00\x80",
         b"\x01\x00\x00\x00\x00", b"\xff\xff\xff\xff\x7f", b"\xaa" * 520, b"\xaa" * 521,
         b"\x80\x80", b"\x00\x80\x80", b"\x80\x00"]      # non-zero values made only of 0x00 / 0x80 bytes (true, unlike 0x..0080)
OMEGA_HEX = [x.hex() for x in OMEGA]
TERNARY = (R.OP_WITHIN, R.OP_ROT, R.OP_3DUP, R.OP_PICK, R.OP_ROLL, R.OP_CHECKMULTISIG, R.OP_CHECKMULTISIGVERIFY)
NOPS = tuple(range(0xb0, 0xba))
CHECKSIGS = (R.OP_CHECKSIG, R.OP_CHECKSIGVERIFY, R.OP_CHECKMULTISIG, R.OP_CHECKMULTISIGVERIFY)


def l1_flagsets(op):
    """all subsets of the flags relevant for this opcode, on two backgrounds (others all off / all on)"""
    rel = [R.MINIMALDATA]
    if op in NOPS:
        rel += [R.DISCOURAGE_UPGRADABLE_NOPS, R.CLTV, R.CSV]
    if op in CHECKSIGS:
        rel += [R.NULLFAIL, R.STRICTENC, R.NULLDUMMY]
    out = []
    relmask = 0
    for f in rel:
        relmask |= f
    # flags that only matter to the witness sigversion are handled by the `wit` axis
    bg_on = ALLFLAGS & ~relmask & ~(R.MINIMALIF | R.WITNESS_PUBKEYTYPE)
    for m in range(1 << len(rel)):
        f = 0
        for i, x in enumerate(rel):
            if m >> i & 1:
                f |= x
        out.append(f)
        out.append(f | bg_on)
    return out


class L1(_Base):
    id = "C03.L1"
    rule = ("every opcode byte x initial stacks over the operand alphabet (depth<=2, depth 3 for ternary ops, marker stacks "
            "to depth 7) x relevant flag subsets on two backgrounds x executed / false branch / true branch x sigversion")

    def __init__(self, tier, seed):
        _Base.__init__(self, tier, seed)
        self.maxdepth = 2 if tier == "quick" else 3
        self.bound = dict(opcodes=256, operand_alphabet=len(OMEGA), depth=self.maxdepth, ternary_depth=3,
                          contexts=["exec", "false-branch", "true-branch"], marker_depth=7)

    def units(self):
        for op in range(256):
            for ctx in ("exec", "false", "true"):
                depths = [0] if 1 <= op <= 0x4e else list(range(self.maxdepth + 1))
                if op in TERNARY and 3 not in depths and ctx == "exec":
                    depths.append(3)
                for d in depths:
                    fl = l1_flagsets(op)
                    if d == 3 and self.tier == "quick":
                        fl = [0, R.MINIMALDATA]
                    for f in fl:
                        yield dict(op=op, ctx=ctx, depth=d, flags=f, wit=0)
                if op in (R.OP_IF, R.OP_NOTIF) + CHECKSIGS and ctx == "exec":
                    for d in range(0, 3):
                        for f in (R.MINIMALIF | R.WITNESS_PUBKEYTYPE, R.MINIMALIF | R.WITNESS_PUBKEYTYPE | R.MINIMALDATA,
                                  ALLFLAGS):
                            yield dict(op=op, ctx=ctx, depth=d, flags=f, wit=1)
            yield dict(op=op, ctx="exec", depth="markers", flags=0, wit=0)

    def execute(self, u):
        op = u["op"]
        body = bytes([op])
        script = {"exec": body, "false": b"\x00\x63" + body + b"\x68", "true": b"\x51\x63" + body + b"\x68"}[u["ctx"]].hex()
        if u["depth"] == "markers":
            stacks = [["%02x" % (i + 1) for i in range(k)] for k in range(8)]
        else:
            stacks = itertools.product(OMEGA_HEX, repeat=u["depth"])
        for st in stacks:
            case = dict(k="eval", layer="L1", focus=opname(op), script=script, stack=list(st), flags=u["flags"], wit=u["wit"])
            yield case, cmp_eval(case)


# ------------------------------------------------------------------ L2 control flow and structure

TOK = {"IF": "63", "NOTIF": "64", "ELSE": "67", "ENDIF": "68", "VERIF": "65", "VERNOTIF": "66", "VER": "62",
       "RESERVED": "50", "RESERVED1": "89", "RETURN": "6a", "0": "00", "1": "51", "2": "52", "p00": "0100", "p80": "0180",
       "pd1_01": "4c0101", "NOP": "61", "NOP1": "b0", "CLTV": "b1", "DROP": "75", "DUP": "76", "VERIFY": "69",
       "TOALT": "6b", "FROMALT": "6c", "DEPTH": "74", "CAT": "7e", "CODESEP": "ab", "trunc": "0201", "pd2trunc": "4d51",
       "0xff": "ff"}
TOKNAMES = list(TOK)


class L2(_Base):
    id = "C03.L2"
    rule = ("every script of <= L tokens over a 30-token control-flow alphabet x initial stacks {(),(01),(),(02)} x "
            "MINIMALDATA on/off (single-script evaluation, stacks compared); the same programs up to L-1 tokens as "
            "bare / P2SH / P2WSH spends")

    def __init__(self, tier, seed):
        _Base.__init__(self, tier, seed)
        self.L = 4 if tier == "quick" else 5
        self.LS = 3 if tier == "quick" else 4
        self.bound = dict(tokens=len(TOK), eval_len=self.L, spend_len=self.LS)

    def units(self):
        for ln in range(1, self.L + 1):
            if ln <= 2:
                yield dict(mode="eval", ln=ln, prefix=[])
            else:
                for a in TOKNAMES:
                    for b in TOKNAMES:
                        yield dict(mode="eval", ln=ln, prefix=[a, b])
        for ln in range(1, self.LS + 1):
            if ln <= 2:
                yield dict(mode="spend", ln=ln, prefix=[])
            else:
                for a in TOKNAMES:
                    for b in TOKNAMES:
                        yield dict(mode="spend", ln=ln, prefix=[a, b])

    def execute(self, u):
        pre = u["prefix"]
        for rest in itertools.product(TOKNAMES, repeat=u["ln"] - len(pre)):
            toks = list(pre) + list(rest)
            script = "".join(TOK[t] for t in toks)
            if u["mode"] == "eval":
                for st in ([], ["01"], [""], ["02"]):
                    for flags in (0, R.MINIMALDATA):
                        case = dict(k="eval", layer="L2", ck="", focus=" ".join(toks), script=script, stack=st, flags=flags, wit=0)
                        yield case, cmp_eval(case)
            else:
                sb = bytes.fromhex(script)
                for wrap in ("bare", "p2sh", "p2wsh"):
                    for arg in ("", "51", "00"):
                        if wrap == "bare":
                            ss, spk, wit = arg, script, []
                        elif wrap == "p2sh":
                            ss, spk, wit = arg + R.push_data(sb).hex(), (b"\xa9\x14" + R.hash160(sb) + b"\x87").hex(), []
                        else:
                            ss, spk = "", (b"\x00\x20" + R.sha256(sb)).hex()
                            wit = ([{"51": "01", "00": ""}[arg]] if arg else []) + [script]
                        for flags in (R.P2SH | R.WITNESS, R.P2SH | R.WITNESS | R.CLEANSTACK | R.MINIMALDATA | R.MINIMALIF):
                            case = dict(k="spend", layer="L2", ck=wrap, focus=" ".join(toks), ss=ss, spk=spk, wit=wit, flags=flags,
                                        tags=dict(wrap=wrap))
                            yield case, cmp_spend(case)



# ------------------------------------------------------------------ L3 limits

def _filler(nbytes):
    """a script fragment of exactly nbytes made of pushes + DROPs (leaves the stack unchanged)"""
    out = b""
    left = nbytes
    while left > 0:
        if left >= 524:
            chunk = R.push_data(b"\xaa" * 520) + b"\x75"           # 1+2+520+1
        elif left >= 2:
            m = left - 2                                            # push(m) costs m+1 for m<=75
            if m <= 75:
                chunk = R.push_data(b"\xbb" * m) + b"\x75"
            else:
                mm = min(75, left - 4)                              # leave >= 2 bytes for a final piece
                chunk = R.push_data(b"\xbb" * mm) + b"\x75"
        else:
            chunk = b"\x61"                                         # one NOP
        out += chunk
        left -= len(chunk)
    assert len(out) == nbytes
    return out


class L3(_Base):
    id = "C03.L3"
    rule = ("parametric families standing on / one below / one above each limit: 201 ops (executed, unexecuted, "
            "CHECKMULTISIG key counts 0..20, small-int opcodes, RESERVED in dead code), 1000 stack+altstack items, "
            "10000-byte scripts, 520-byte pushes, witness-script and witness-item sizes, nested IF depth, PUSHDATA forms")

    def __init__(self, tier, seed):
        _Base.__init__(self, tier, seed)
        self.bound = dict(families=["opcount", "opcount-multisig", "stack", "scriptsize", "pushsize", "nesting", "pushdata"])

    def units(self):
        for f in ("opcount", "multisig", "stack", "scriptsize", "pushsize", "nesting", "pushdata", "witsize"):
            yield dict(family=f)

    def execute(self, u):
        f = u["family"]
        E = lambda script, stack=(), flags=0, ck=f, wit=0: dict(k="eval", layer="L3", ck=ck, focus=f, script=script.hex(),
                                                               stack=[x.hex() for x in stack], flags=flags, wit=wit)
        cases = []
        if f == "opcount":
            for k in (199, 200, 201, 202):
                cases.append(E(b"\x61" * k + b"\x51"))
                cases.append(E(b"\x51" + b"\x61" * k))
                cases.append(E(b"\x00\x63" + b"\x61" * (k - 2) + b"\x68\x51"))              # unexecuted ops count
                cases.append(E(b"\x00\x63" + b"\x50" * 50 + b"\x61" * (k - 2) + b"\x68\x51"))  # RESERVED in dead code is not counted
                cases.append(E(b"\x00\x63" + b"\x62" * 3 + b"\x61" * (k - 5) + b"\x68\x51"))   # OP_VER in dead code is counted
                cases.append(E(b"\x51\x75" * k + b"\x51"))                                    # small ints are not counted (k DROPs are)
                cases.append(E(b"\x4f\x75" * k + b"\x51"))
                cases.append(E(b"\x00\x75" * k + b"\x51"))
                cases.append(E(b"\x51" * 5 + b"\x61" * k))
                cases.append(E(b"\x00\x63" + b"\x00\x51\x4f\x60" * 40 + b"\x61" * (k - 2) + b"\x68\x51"))
        elif f == "multisig":
            key = b"\x02" + b"\x11" * 32
            for nk in range(0, 22):
                for extra in (-1, 0, 1):
                    k = 201 - 1 - nk + extra      # NOPs so that NOPs + CHECKMULTISIG + nk = 201 + extra
                    if k < 0:
                        continue
                    body = b"\x00\x00" + R.push_data(key) * nk + R.push_data(R.num_encode(nk)) + b"\xae"
                    cases.append(E(b"\x61" * k + body, ck="multisig"))
                    cases.append(E(body + b"\x61" * k, ck="multisig"))
                    cases.append(E(b"\x61" * k + b"\x00\x63" + body + b"\x68\x51", ck="multisig"))   # unexecuted: keys not added
                    cases.append(E(b"\x61" * k + body[:-1] + b"\xaf\x51", ck="multisig"))
        elif f == "stack":
            for n in (997, 998, 999, 1000, 1001, 1002, 1003):
                st = [b"\x01"] * n
                # the last five start by SHRINKING the stack: the limit is tested after each instruction, not before the first one
                for sc in (b"\x75", b"\x6d", b"\x77", b"\x75\x51", b"\x6d\x51\x51", b"\x6d\x75", b"\x76", b"\x76\x75", b"\x6b\x76\x76", b"\x6e", b"\x6f", b"\x61", b"\x51", b"\x74", b"\x6b\x6b\x51\x51\x51",
                           b"\x76\x6b", b"\x6e\x6d", b"\x51\x51\x51", b"\x73", b"\x00\x63\x51\x51\x51\x68", b"\x7d", b"\x78"):
                    cases.append(E(sc, st))
        elif f == "scriptsize":
            for n in (9999, 10000, 10001):
                cases.append(E(_filler(n - 1) + b"\x51"))
                cases.append(E(b"\x51" + _filler(n - 1)))
                cases.append(E(b"\x6a" + _filler(n - 1)))       # size check precedes execution
                spk = _filler(n - 1) + b"\x51"
                for flags in (0, R.P2SH | R.WITNESS):
                    cases.append(dict(k="spend", layer="L3", ck="scriptsize", focus=f, ss="", spk=spk.hex(), wit=[], flags=flags))
                    cases.append(dict(k="spend", layer="L3", ck="scriptsize", focus=f, ss=spk.hex(), spk="51", wit=[], flags=flags))
        elif f == "pushsize":
            for n in (519, 520, 521, 522):
                d = b"\xcc" * n
                for sc in (R.push_data(d) + b"\x75\x51", b"\x00\x63" + R.push_data(d) + b"\x68\x51", b"\x51\x63" + R.push_data(d) + b"\x68",
                           b"\x4e" + n.to_bytes(4, "little") + d + b"\x75\x51", b"\x51" + R.push_data(d)):
                    for flags in (0, R.MINIMALDATA):
                        cases.append(E(sc, flags=flags))
        elif f == "nesting":
            for k in (1, 2, 50, 99, 100, 101):
                for top in (b"\x51", b"\x00"):
                    cases.append(E(top + b"\x63" * 1 + (b"\x51\x63") * (k - 1) + b"\x51" + b"\x68" * k))
                    cases.append(E(top + b"\x63" + b"\x63" * (k - 1) + b"\x68" * k + b"\x51"))
                    cases.append(E(top + b"\x64" + b"\x63" * (k - 1) + b"\x67" * 3 + b"\x68" * k + b"\x51"))
                    cases.append(E(top + b"\x63" + b"\x63" * (k - 1) + b"\x68" * (k - 1) + b"\x51"))
                    cases.append(E(top + b"\x63" + b"\x63" * (k - 1) + b"\x68" * (k + 1) + b"\x51"))
        elif f == "pushdata":
            for n in (0, 1, 74, 75, 76, 77, 254, 255, 256, 257, 519, 520):
                d = b"\x07" * n
                forms = {"direct": (bytes([n]) + d) if n <= 75 else None,
                         "pd1": (b"\x4c" + bytes([n]) + d) if n <= 255 else None,
                         "pd2": b"\x4d" + n.to_bytes(2, "little") + d,
                         "pd4": b"\x4e" + n.to_bytes(4, "little") + d}
                for nm, enc in forms.items():
                    if enc is None:
                        continue
                    for flags in (0, R.MINIMALDATA):
                        cases.append(E(enc + b"\x75\x51", flags=flags, ck="pushdata:%s" % nm))
                        cases.append(E(b"\x00\x63" + enc + b"\x68\x51", flags=flags, ck="pushdata:%s" % nm))
                        cases.append(E(enc[:-1] if len(enc) > 1 else enc, flags=flags, ck="pushdata-trunc:%s" % nm))
                        cases.append(E(b"\x51" + enc[:len(enc) - n] if n else b"\x51", flags=flags, ck="pushdata-trunc:%s" % nm))
            for one in range(0, 256):
                d = bytes([one])
                for flags in (0, R.MINIMALDATA):
                    cases.append(E(b"\x01" + d + b"\x75\x51", flags=flags, ck="pushdata:one-byte"))
                    cases.append(E(b"\x4c\x01" + d + b"\x75\x51", flags=flags, ck="pushdata:one-byte"))
        elif f == "witsize":
            for n in (519, 520, 521, 3600, 9999, 10000, 10001):
                ws = _filler(n - 1) + b"\x51"
                spk = b"\x00\x20" + R.sha256(ws)
                for flags in (R.P2SH | R.WITNESS, R.P2SH | R.WITNESS | R.CLEANSTACK):
                    cases.append(dict(k="spend", layer="L3", ck="witness-script-size", focus=f, ss="", spk=spk.hex(), wit=[ws.hex()], flags=flags,
                                      tags=dict(wslen=n)))
                    red = spk
                    cases.append(dict(k="spend", layer="L3", ck="witness-script-size", focus=f, ss=R.push_data(red).hex(),
                                      spk=(b"\xa9\x14" + R.hash160(red) + b"\x87").hex(), wit=[ws.hex()], flags=flags, tags=dict(wslen=n)))
            ws = b"\x75\x51"
            spk = b"\x00\x20" + R.sha256(ws)
            for n in (0, 1, 519, 520, 521):
                for flags in (R.P2SH | R.WITNESS, 0):
                    cases.append(dict(k="spend", layer="L3", ck="witness-item-size", focus=f, ss="", spk=spk.hex(),
                                      wit=[(b"\xdd" * n).hex(), ws.hex()], flags=flags, tags=dict(itemlen=n)))
        for c in cases:
            yield c, self.run(c)


# ------------------------------------------------------------------ L4 signatures

def _keys(seed):
    from ..engine import seed_int
    if seed == 0:
        ds = [11, 12, 13]
    else:
        ds = [seed_int(seed, "C03.key%d" % i, 1, R.N - 1) for i in range(3)]
    return [(d, R.pubkey_of(d)) for d in ds]


def _z_of(tx_spk_code, mode, amount, ht, code):
    """digest (big-endian int) for signing input 0 of the standard spend tx of (scriptSig-less) spk"""
    tx = R.credit_spend(b"", tx_spk_code, [], amount)
    if mode in ("p2wsh", "p2wpkh", "p2sh-p2wsh"):
        return R.digest_be(R.sighash_bip143(tx, 0, code, amount, ht))
    return R.digest_be(R.sighash_legacy(tx, 0, code, ht))


def sig_variants(d, zf, dother):
    out = {}
    r, s = R.ecdsa_sign(d, zf(1))
    der = R.der_sig(r, s)
    out["valid"] = der + b"\x01"
    out["highS"] = R.der_sig(r, R.N - s) + b"\x01"
    out["otherkey"] = R.der_sig(*R.ecdsa_sign(dother, zf(1))) + b"\x01"
    out["badr"] = R.der_sig(r ^ 1, s) + b"\x01"
    out["empty"] = b""
    for ht in (0, 2, 3, 4, 0x21, 0x22, 0x23, 0x41, 0x42, 0x43, 0x62, 0x80, 0x81, 0x82, 0x83, 0x84, 0xa2, 0xc3, 0xff):
        out["ht%02x" % ht] = R.der_sig(*R.ecdsa_sign(d, zf(ht))) + bytes([ht])
    out["wronght"] = der + b"\x02"
    out["s_half+1"] = R.der_sig(5, R.N // 2 + 1) + b"\x01"
    out["s_half"] = R.der_sig(5, R.N // 2) + b"\x01"
    out["s_phalf+1"] = R.der_sig(5, R.P // 2 + 1) + b"\x01"
    out["r0"] = R.der_sig(0, s) + b"\x01"
    out["s0"] = R.der_sig(r, 0) + b"\x01"
    out["rN"] = R.der_sig(R.N, s) + b"\x01"
    # R or S at or beyond the group order: Core's low-S test sees the zeroed signature (not high), CHECKSIG then just fails
    out["sN+5"] = R.der_sig(5, R.N + 5) + b"\x01"
    out["sN"] = R.der_sig(5, R.N) + b"\x01"
    out["sN-1"] = R.der_sig(5, R.N - 1) + b"\x01"
    out["smax"] = R.der_sig(5, (1 << 256) - 1) + b"\x01"
    out["rN+1_highS"] = R.der_sig(R.N + 1, R.N - s) + b"\x01"
    out["rmax_highS"] = R.der_sig((1 << 256) - 1, R.N - 1) + b"\x01"
    dd = bytearray(der)
    out["seqlen+1"] = bytes([0x30, dd[1] + 1]) + bytes(dd[2:]) + b"\x01"
    out["seqlen-1"] = bytes([0x30, dd[1] - 1]) + bytes(dd[2:]) + b"\x01"
    out["seqlen0"] = bytes([0x30, 0]) + bytes(dd[2:]) + b"\x01"
    out["seqlong"] = bytes([0x30, 0x81, dd[1]]) + bytes(dd[2:]) + b"\x01"
    rl = dd[3]
    out["rpad"] = bytes([0x30, dd[1] + 1, 0x02, rl + 1, 0]) + bytes(dd[4:]) + b"\x01"
    out["rlong"] = bytes([0x30, dd[1] + 1, 0x02, 0x81, rl]) + bytes(dd[4:]) + b"\x01"
    sl = dd[5 + rl]
    out["spad"] = bytes([0x30, dd[1] + 1]) + bytes(dd[2:5 + rl]) + bytes([sl + 1, 0]) + bytes(dd[6 + rl:]) + b"\x01"
    out["slong"] = bytes([0x30, dd[1] + 1]) + bytes(dd[2:5 + rl]) + bytes([0x81, sl]) + bytes(dd[6 + rl:]) + b"\x01"
    out["trail_in"] = bytes([0x30, dd[1] + 1]) + bytes(dd[2:]) + b"\x00" + b"\x01"
    out["trail_out"] = der + b"\x00" + b"\x01"
    out["tagbad"] = bytes([0x31]) + bytes(dd[1:]) + b"\x01"
    out["inttagbad"] = bytes(dd[:2]) + b"\x03" + bytes(dd[3:]) + b"\x01"
    out["noht"] = der
    out["r33"] = b"\x30" + bytes([len(der) - 2 + 34 - 2 - rl]) + b"\x02\x21\x01" + b"\x00" * 32 + bytes(dd[4 + rl:]) + b"\x01"
    out["garbage"] = b"\x01\x02\x03"
    out["one"] = b"\x01"
    # DER cut short at every structural point (the lax parser must simply fail: the signature is then just invalid)
    out["trunc-30"] = b"\x30" + b"\x01"
    out["trunc-30-len"] = b"\x30\x01" + b"\x01"
    out["trunc-3002-02"] = b"\x30\x02\x02" + b"\x01"
    out["trunc-r-len"] = bytes(dd[:4]) + b"\x01"
    out["trunc-in-r"] = bytes(dd[:4 + rl // 2]) + b"\x01"
    out["trunc-after-r"] = bytes(dd[:4 + rl]) + b"\x01"
    out["trunc-s-tag"] = bytes(dd[:5 + rl]) + b"\x01"
    out["trunc-s-len"] = bytes(dd[:6 + rl]) + b"\x01"
    out["trunc-in-s"] = bytes(dd[:-2]) + b"\x01"
    out["r-len-0"] = b"\x30\x06\x02\x00\x02\x02\x00\x01" + b"\x01"
    out["long-len-80"] = b"\x30\x80" + bytes(dd[2:]) + b"\x01"
    out["r-long-len-88"] = bytes(dd[:3]) + b"\x88" + bytes(dd[4:]) + b"\x01"
    return out


def der_padded(r, s, padr):
    """lax-DER signature whose R carries `padr` superfluous leading zero bytes (long-form lengths where needed)"""
    def ln(n):
        return bytes([n]) if n < 0x80 else bytes([0x81, n]) if n < 0x100 else bytes([0x82, n >> 8, n & 0xff])
    rb = b"\x00" * padr + R.der_int(r)[2:]
    sb = R.der_int(s)[2:]
    body = b"\x02" + ln(len(rb)) + rb + b"\x02" + ln(len(sb)) + sb
    return b"\x30" + ln(len(body)) + body


def pk_variants(Q):
    x, y = Q
    X = x.to_bytes(32, "big")
    Y = y.to_bytes(32, "big")
    out = {"comp": R.sec(Q), "uncomp": R.sec(Q, False), "hyb_ok": bytes([6 + (y & 1)]) + X + Y,
           "hyb_bad": bytes([7 - (y & 1)]) + X + Y, "pre05": b"\x05" + X, "pre00": b"\x00" + X, "pre01": b"\x01" + X,
           "short32": X, "len34": R.sec(Q) + b"\x00", "len64": X + Y, "len66": R.sec(Q, False) + b"\x00",
           "offcurve": b"\x04" + X + (y ^ 1).to_bytes(32, "big"), "empty": b"",
           "wrongparity": bytes([2 + (1 - (y & 1))]) + X, "pre04_33": b"\x04" + X}
    return out


SIGFL = [R.STRICTENC, R.DERSIG, R.LOW_S, R.NULLFAIL, R.WITNESS_PUBKEYTYPE]


class L4(_Base):
    id = "C03.L4"
    rule = ("CHECKSIG(VERIFY) x signature alphabet (valid, high-S, boundary S, wrong key/hash type, every single-field "
            "lax-DER mutation, 12 hash-type bytes) x public-key alphabet (15 encodings) x all subsets of "
            "{STRICTENC,DERSIG,LOW_S,NULLFAIL,WITNESS_PUBKEYTYPE} x {bare,P2SH,P2WSH,P2WPKH}; m-of-n CHECKMULTISIG n<=3 "
            "with every signature sequence over {valid-for-key-i, invalid, empty}, dummies, NULLDUMMY/NULLFAIL; "
            "FindAndDelete and CODESEPARATOR scripts; witness amounts")

    def __init__(self, tier, seed):
        _Base.__init__(self, tier, seed)
        self.bound = dict(keys=3, sigflags=len(SIGFL), nmax=3)

    def units(self):
        for mode in ("bare", "p2sh", "p2wsh"):
            for pk in pk_variants((1, 2)):
                for tail in ("ac", "ac91", "ad51"):
                    yield dict(fam="checksig", mode=mode, pk=pk, tail=tail)
        yield dict(fam="p2wpkh")
        for mode in ("bare", "p2sh", "p2wsh"):
            for n in (1, 2, 3):
                for m in range(0, n + 1):
                    yield dict(fam="multisig", mode=mode, n=n, m=m)
        for mode in ("bare", "p2sh", "p2wsh"):
            yield dict(fam="codesep", mode=mode)
        yield dict(fam="amount")

    def _spend_case(self, mode, script, args, flags, ck, tags, amount=0):
        """args: list of stack items supplied to `script` under the given wrapping"""
        if mode == "bare":
            ss = b"".join(R.push_data(a) if a else b"\x00" for a in args)
            spk, wit = script, []
        elif mode == "p2sh":
            ss = b"".join(R.push_data(a) if a else b"\x00" for a in args) + R.push_data(script)
            spk, wit = b"\xa9\x14" + R.hash160(script) + b"\x87", []
            flags |= R.P2SH
        else:
            ss, spk, wit = b"", b"\x00\x20" + R.sha256(script), list(args) + [script]
            flags |= R.P2SH | R.WITNESS
        return dict(k="spend", layer="L4", ck=ck, focus=ck, ss=ss.hex(), spk=spk.hex(), wit=[w.hex() for w in wit], flags=flags,
                    amount=amount, tags=tags)

    def _spk_for(self, mode, script):
        if mode == "bare":
            return script
        if mode == "p2sh":
            return b"\xa9\x14" + R.hash160(script) + b"\x87"
        return b"\x00\x20" + R.sha256(script)

    def execute(self, u):
        keys = _keys(self.seed)
        fam = u["fam"]
        if fam == "checksig":
            mode = u["mode"]
            d, Q = keys[0]
            pk = pk_variants(Q)[u["pk"]]
            script = R.push_data(pk) + bytes.fromhex(u["tail"]) if pk else b"\x00" + bytes.fromhex(u["tail"])
            amount = 12345 if mode == "p2wsh" else 0
            spk = self._spk_for(mode, script)
            zf = lambda ht: _z_of(spk, mode, amount, ht, script)
            for sname, sig in sig_variants(d, zf, keys[2][0]).items():
                for mset in range(1 << len(SIGFL)):
                    f = sum(SIGFL[i] for i in range(len(SIGFL)) if mset >> i & 1)
                    if mode != "p2wsh" and f & R.WITNESS_PUBKEYTYPE:
                        continue
                    c = self._spend_case(mode, script, [sig], f, "checksig", dict(sig=sname, pk=u["pk"], mode=mode, tail=u["tail"]), amount)
                    yield c, cmp_spend(c)
        elif fam == "p2wpkh":
            d, Q = keys[0]
            for comp in (True, False):
                pk = R.sec(Q, comp)
                prog = R.hash160(pk)
                code = b"\x76\xa9\x14" + prog + b"\x88\xac"
                for wrap in ("bare", "p2sh"):
                    inner = b"\x00\x14" + prog
                    spk = inner if wrap == "bare" else b"\xa9\x14" + R.hash160(inner) + b"\x87"
                    ss = b"" if wrap == "bare" else R.push_data(inner)
                    amount = 7777
                    tx = R.credit_spend(ss, spk, [], amount)
                    zf = lambda ht: R.digest_be(R.sighash_bip143(tx, 0, code, amount, ht))
                    for sname, sig in sig_variants(d, zf, keys[2][0]).items():
                        for mset in range(1 << len(SIGFL)):
                            f = sum(SIGFL[i] for i in range(len(SIGFL)) if mset >> i & 1) | R.P2SH | R.WITNESS
                            for wit in ([sig, pk], [pk, sig], [sig], [sig, pk, b""]):
                                c = dict(k="spend", layer="L4", ck="p2wpkh", focus="p2wpkh", ss=ss.hex(), spk=spk.hex(),
                                         wit=[w.hex() for w in wit], flags=f, amount=amount,
                                         tags=dict(sig=sname, comp=comp, wrap=wrap, nwit=len(wit)))
                                yield c, cmp_spend(c)
                                if sname not in ("valid", "highS", "empty", "ht81"):
                                    break
        elif fam == "multisig":
            mode, n, m = u["mode"], u["n"], u["m"]
            pks = [R.sec(keys[i][1], i != 1) if mode != "p2wsh" else R.sec(keys[i][1]) for i in range(n)]
            for verify in (False, True, "not"):
                # "not": CHECKMULTISIG NOT - a failed check is tolerated by the script, so only NULLFAIL / encoding rules can refuse it
                script = bytes([0x50 + m]) if m else b"\x00"
                script += b"".join(R.push_data(pk) for pk in pks) + bytes([0x50 + n]) + (b"\xae\x91" if verify == "not" else b"\xaf\x51" if verify else b"\xae")
                amount = 999 if mode == "p2wsh" else 0
                spk = self._spk_for(mode, script)
                z = _z_of(spk, mode, amount, 1, script)
                sigs = {"s%d" % i: R.der_sig(*R.ecdsa_sign(keys[i][0], z)) + b"\x01" for i in range(n)}
                sigs["bad"] = R.der_sig(*R.ecdsa_sign(keys[0][0], z ^ 1)) + b"\x01"
                sigs["empty"] = b""
                names = list(sigs)
                for seq in itertools.product(names, repeat=m):
                    for dname, dummy in (("empty", b""), ("00", b"\x00"), ("01", b"\x01")):
                        for mset in range(8):
                            f = sum(x for i, x in enumerate((R.NULLDUMMY, R.NULLFAIL, R.STRICTENC)) if mset >> i & 1)
                            if mode == "bare":
                                ss = (R.push_data(dummy) if dummy else b"\x00") + b"".join(R.push_data(sigs[x]) if sigs[x] else b"\x00" for x in seq)
                                c = dict(k="spend", layer="L4", ck="multisig", focus="multisig", ss=ss.hex(), spk=script.hex(), wit=[], flags=f,
                                         amount=0, tags=dict(mode=mode, m=m, n=n, seq=list(seq), dummy=dname, verify=verify))
                            else:
                                c = self._spend_case(mode, script, [dummy] + [sigs[x] for x in seq], f, "multisig",
                                                     dict(mode=mode, m=m, n=n, seq=list(seq), dummy=dname, verify=verify), amount)
                            yield c, cmp_spend(c)
        elif fam == "codesep":
            mode = u["mode"]
            d, Q = keys[0]
            pk = R.sec(Q)
            amount = 4242 if mode == "p2wsh" else 0
            shapes = {"sep-first": b"\xab" + R.push_data(pk) + b"\xac",
                      "sep-mid": R.push_data(pk) + b"\xab\xac",
                      "sep-twice": b"\xab" + R.push_data(pk) + b"\xab\xac",
                      "sep-after": R.push_data(pk) + b"\xac\xab",
                      "sep-dead": b"\x00\x63\xab\x68" + R.push_data(pk) + b"\xac",
                      "sep-live-if": b"\x51\x63\xab\x68" + R.push_data(pk) + b"\xac",
                      "two-sigs": R.push_data(pk) + b"\xad\xab" + R.push_data(pk) + b"\xac"}
            for nm, script in shapes.items():
                spk = self._spk_for(mode, script)
                tx = R.credit_spend(b"", spk, [], amount)
                # the code actually hashed by consensus after each executed separator
                codes = []
                pos = 0
                while True:
                    i = script.find(b"\xab", pos)
                    if i < 0:
                        break
                    codes.append(script[i + 1:])
                    pos = i + 1
                codes = [script] + codes
                for ci, code in enumerate(codes):
                    if mode == "p2wsh":
                        z = R.digest_be(R.sighash_bip143(tx, 0, code, amount, 1))
                    else:
                        z = R.digest_be(R.sighash_legacy(tx, 0, code, 1))
                    sig = R.der_sig(*R.ecdsa_sign(d, z)) + b"\x01"
                    args = [sig] if nm != "two-sigs" else None
                    if nm == "two-sigs":
                        for cj, code2 in enumerate(codes):
                            z2 = R.digest_be(R.sighash_bip143(tx, 0, code2, amount, 1)) if mode == "p2wsh" else R.digest_be(R.sighash_legacy(tx, 0, code2, 1))
                            sig2 = R.der_sig(*R.ecdsa_sign(d, z2)) + b"\x01"
                            c = self._spend_case(mode, script, [sig2, sig], 0, "codesep", dict(shape=nm, code=ci, code2=cj, mode=mode), amount)
                            yield c, cmp_spend(c)
                    else:
                        for f in (0, R.NULLFAIL):
                            c = self._spend_case(mode, script, args, f, "codesep", dict(shape=nm, code=ci, mode=mode), amount)
                            yield c, cmp_spend(c)
            # FindAndDelete: the script contains a push of a signature it checks (legacy sigversions only).  The outpoint
            # is fixed (not derived from the script) so that such a signature exists without a fixed point.
            if mode != "p2wsh":
                PH = "5c" * 32
                txc = dict(version=1, lock=0, seq=0xffffffff, prevhash=PH)

                def zfor(code, ht):
                    tx = dict(version=1, lock=0, ins=[(bytes.fromhex(PH), 0, b"", 0xffffffff, [])], outs=[(0, b"")])
                    return R.digest_be(R.sighash_legacy(tx, 0, code, ht))
                PKc = R.push_data(pk)
                for ht in (1, 2, 3, 0x81):
                    HT = bytes([ht])
                    tail1 = b"\x75" + PKc + b"\xac"
                    sig1 = R.der_sig(*R.ecdsa_sign(d, zfor(tail1, ht))) + HT
                    shapes2 = {"embedded": (R.push_data(sig1) + tail1, [sig1]),
                               "embedded-pd1-not-deleted": (b"\x4c" + bytes([len(sig1)]) + sig1 + tail1, [sig1]),
                               "embedded-inside-bigger": (R.push_data(sig1 + b"\x00") + tail1, [sig1])}
                    tail2 = b"\x6d" + PKc + b"\xac"
                    sig2 = R.der_sig(*R.ecdsa_sign(d, zfor(tail2, ht))) + HT
                    shapes2["embedded-twice"] = (R.push_data(sig2) * 2 + tail2, [sig2])
                    # two signature operations in one script, only the first one's signature is embedded
                    tailA = b"\x75" + PKc + b"\xad" + PKc + b"\xac"
                    sigA = R.der_sig(*R.ecdsa_sign(d, zfor(tailA, ht))) + HT
                    full = R.push_data(sigA) + tailA
                    sigB = R.der_sig(*R.ecdsa_sign(d, zfor(full, ht))) + HT
                    shapes2["two-ops"] = (full, [sigB, sigA])
                    shapes2["two-ops-swapped"] = (full, [sigA, sigB])
                    sigB_wrong = R.der_sig(*R.ecdsa_sign(d, zfor(tailA, ht))) + HT     # what a too-coarse digest cache would accept
                    shapes2["two-ops-same-digest"] = (full, [sigB_wrong, sigA])
                    # multisig 1-of-1 followed by checksig, the multisig signature embedded
                    tailM = b"\x75\x51" + PKc + b"\x51\xaf" + PKc + b"\xac"
                    sigM = R.der_sig(*R.ecdsa_sign(d, zfor(tailM, ht))) + HT
                    fullM = R.push_data(sigM) + tailM
                    sigN = R.der_sig(*R.ecdsa_sign(d, zfor(fullM, ht))) + HT
                    shapes2["multisig-then-checksig"] = (fullM, [sigN, b"", sigM])
                    # signature blobs beyond the direct-push range (lax DER, R padded with leading zeros): FindAndDelete must look
                    # for the PUSHDATA1 / PUSHDATA2 form of the push
                    for padr, lname in ((12, "long-pushdata1"), (200, "long-pushdata2")):
                        sigL = der_padded(*R.ecdsa_sign(d, zfor(tail1, ht)), padr) + HT
                        shapes2["embedded-" + lname] = (R.push_data(sigL) + tail1, [sigL])
                    for nm, (script, args) in shapes2.items():
                        for f in (0, R.NULLFAIL, R.STRICTENC | R.DERSIG | R.LOW_S):
                            c = self._spend_case(mode, script, args, f, "findanddelete", dict(shape=nm, ht=ht, mode=mode), 0)
                            c["tx"] = txc
                            yield c, cmp_spend(c)
        elif fam == "amount":
            d, Q = keys[0]
            pk = R.sec(Q)
            script = R.push_data(pk) + b"\xac"
            spk = b"\x00\x20" + R.sha256(script)
            amts = (0, 1, 1 << 63, (1 << 64) - 1)
            for signed in amts:
                for presented in amts:
                    tx = R.credit_spend(b"", spk, [], presented)
                    z = R.digest_be(R.sighash_bip143(tx, 0, script, signed, 1))
                    sig = R.der_sig(*R.ecdsa_sign(d, z)) + b"\x01"
                    c = dict(k="spend", layer="L4", ck="amount", focus="amount", ss="", spk=spk.hex(), wit=[sig.hex(), script.hex()],
                             flags=R.P2SH | R.WITNESS, amount=presented, tags=dict(signed=signed, presented=presented))
                    yield c, cmp_spend(c)


# ------------------------------------------------------------------ L5 dispatch

DISPFL = [R.P2SH, R.WITNESS, R.CLEANSTACK, R.SIGPUSHONLY, R.DISCOURAGE_UPGRADABLE_WITNESS_PROGRAM, R.MINIMALIF, R.WITNESS_PUBKEYTYPE]


def disp_flagsets():
    out = []
    for m in range(1 << len(DISPFL)):
        f = sum(DISPFL[i] for i in range(len(DISPFL)) if m >> i & 1)
        if legal(f):
            out.append(f)
    return out


class L5(_Base):
    id = "C03.L5"
    rule = ("VerifyScript dispatch: P2SH and look-alikes, witness programs v0..v16 x program lengths 2..40 and near-misses, "
            "scriptSig shapes, witness shapes, all legal subsets of 7 dispatch flags")

    def __init__(self, tier, seed):
        _Base.__init__(self, tier, seed)
        self.bound = dict(flagsets=len(disp_flagsets()))

    def units(self):
        ws, ws_big, ws2 = b"\x51", b"\x01\x01\x75" * 190 + b"\x51", b"\x52\x87"
        spks = []
        for name, script in (("ws1", ws), ("wsbig", ws_big), ("ws2", ws2), ("wsif", b"\x63\x51\x67\x51\x68")):
            spks.append(("p2wsh:" + name, b"\x00\x20" + R.sha256(script), script))
        vers = (0x51, 0x52, 0x60) if self.tier == "quick" else tuple(range(0x51, 0x61))
        lens = (2, 20, 32, 40) if self.tier == "quick" else tuple(range(2, 41))
        for ver in vers:
            for ln in lens:
                spks.append(("wit_v%d_%d" % (ver - 0x50, ln), bytes([ver, ln]) + b"\x07" * ln, ws))
        for ln in (1, 2, 19, 20, 21, 31, 33, 40, 41, 42):
            spks.append(("wit_v0_len%d" % ln, bytes([0, ln]) + b"\x07" * ln, ws))
        spks.append(("wit_pd1", b"\x00\x4c\x20" + R.sha256(ws), ws))
        spks.append(("wit_1negate", b"\x4f\x20" + R.sha256(ws), ws))
        spks.append(("wit_reserved", b"\x50\x20" + R.sha256(ws), ws))
        spks.append(("wit_lenmismatch", b"\x00\x21" + R.sha256(ws), ws))
        spks.append(("wit_trailing", b"\x00\x20" + R.sha256(ws) + b"\x61", ws))
        for i, (tag, spk, script) in enumerate(spks):
            yield dict(fam="wit", tag=tag, spk=spk.hex(), script=script.hex())
        for redeem in (b"\x51", b"\x00", b"\x51\x51", b"\x61" * 202 + b"\x51", b"\x6a", b"\x51\x75" * 259 + b"\x51", b"\x51\x75" * 260 + b"\x51",
                       b"\x76\x51\x87", b"\x63\x51\x67\x51\x68", b""):
            yield dict(fam="p2sh", redeem=redeem.hex())
        yield dict(fam="lookalike")

    def execute(self, u):
        FS = disp_flagsets()
        push = R.push_data
        if u["fam"] == "wit":
            spk = bytes.fromhex(u["spk"])
            script = bytes.fromhex(u["script"])
            tag = u["tag"]
            for wname, wit in (("none", []), ("script", [script]), ("arg2", [b"\x02", script]), ("arg-empty", [b"", script]),
                               ("arg-521", [b"\xaa" * 521, script]), ("twice", [script, script]), ("arg1", [b"\x01", script]),
                               ("arg-0100", [b"\x01\x00", script]), ("wrong", [script + b"\x61"]), ("two-items", [b"\x01", b"\x02"])):
                for sname, ss in (("empty", b""), ("nop", b"\x61"), ("one", b"\x51"), ("zero", b"\x00")):
                    for f in FS:
                        c = dict(k="spend", layer="L5", ck="bare-witness", focus=tag, ss=ss.hex(), spk=spk.hex(), wit=[w.hex() for w in wit], flags=f,
                                 tags=dict(spk=tag, wit=wname, ss=sname))
                        yield c, cmp_spend(c)
                redeem = spk
                outer = b"\xa9\x14" + R.hash160(redeem) + b"\x87"
                for sname, ss in (("push", push(redeem)), ("pd1", b"\x4c" + bytes([len(redeem)]) + redeem), ("one+push", b"\x51" + push(redeem)),
                                  ("nop+push", b"\x61" + push(redeem)), ("empty", b""), ("pd2", b"\x4d" + len(redeem).to_bytes(2, "little") + redeem)):
                    for f in FS:
                        c = dict(k="spend", layer="L5", ck="p2sh-witness", focus=tag, ss=ss.hex(), spk=outer.hex(), wit=[w.hex() for w in wit], flags=f,
                                 tags=dict(spk=tag, wit=wname, ss=sname))
                        yield c, cmp_spend(c)
        elif u["fam"] == "p2sh":
            redeem = bytes.fromhex(u["redeem"])
            outer = b"\xa9\x14" + R.hash160(redeem) + b"\x87"
            sss = [("push", push(redeem)), ("one+push", b"\x51" + push(redeem)), ("nop+push", b"\x61" + push(redeem)),
                   ("zero+push", b"\x00" + push(redeem)), ("wrong", push(redeem + b"\x61")), ("empty", b""),
                   ("push+drop-dup", push(redeem) + b"\x76\x75")]
            if len(redeem) < 256:
                sss.append(("pd1", b"\x4c" + bytes([len(redeem)]) + redeem))
            for sname, ss in sss:
                for wit in ([], [b"\x01"]):
                    for f in FS:
                        c = dict(k="spend", layer="L5", ck="plain-p2sh", focus="p2sh", ss=ss.hex(), spk=outer.hex(), wit=[w.hex() for w in wit], flags=f,
                                 tags=dict(redeem=u["redeem"][:16], ss=sname, rlen=len(redeem), wit=len(wit)))
                        yield c, cmp_spend(c)
        else:
            redeem = b"\x51"
            h = R.hash160(redeem)
            looks = {"pd1-form": b"\xa9\x4c\x14" + h + b"\x87", "len19": b"\xa9\x13" + h[:19] + b"\x87\x61", "len21": b"\xa9\x15" + h + b"\x00\x87",
                     "equalverify": b"\xa9\x14" + h + b"\x88", "hash256": b"\xaa\x14" + h + b"\x87", "trailing-nop": b"\xa9\x14" + h + b"\x87\x61",
                     "exact": b"\xa9\x14" + h + b"\x87", "23-bytes-other": b"\xa9\x13" + h[:19] + b"\x75\x87"[:2],
                     "23-bytes-push21": b"\xa9\x15" + h + b"\x87", "23-bytes-push21-zero": b"\xa9\x15" + b"\x00" * 20 + b"\x87",
                     "23-bytes-pd1-19": b"\xa9\x4c\x13" + h[:19] + b"\x87", "23-bytes-hash-first": b"\xa9\x01\x14" + h + b"\x87"[:0] + b"\x87"[:1][:0]}
            for nm, spk in looks.items():
                for sname, ss in (("push", push(redeem)), ("push0", push(b"\x00")), ("one+push", b"\x51" + push(redeem)), ("one", b"\x51"),
                                  ("empty", b""), ("push-true-script", push(b"\x51\x51"))):
                    for f in FS:
                        c = dict(k="spend", layer="L5", ck="p2sh-lookalike", focus=nm, ss=ss.hex(), spk=spk.hex(), wit=[], flags=f, tags=dict(spk=nm, ss=sname))
                        yield c, cmp_spend(c)


# ------------------------------------------------------------------ L6 lock times

LT = [-1, 0, 1, 499999999, 500000000, (1 << 31) - 1, 1 << 31, (1 << 32) - 1, 1 << 32, (1 << 39) - 1, 1 << 39, (1 << 22), (1 << 22) | 5, 0xffff, 0x10000 | 7]
TXLOCK = [0, 1, 499999999, 500000000, (1 << 31) - 1, 1 << 31, (1 << 32) - 1]
TXSEQ = [0, 1, 5, 0xffff, 1 << 22, (1 << 22) | 5, (1 << 22) | 0xffff, (1 << 31), (1 << 31) | 5, 0xfffffffe, 0xffffffff, 0x10000 | 7]
TXVER = [0, 1, 2, 3, 1 << 31, (1 << 32) - 1]


class L6(_Base):
    id = "C03.L6"
    rule = ("CLTV/CSV operand x tx lock_time x input sequence x tx version over boundary alphabets (full product) x subsets of "
            "{CLTV, CSV, MINIMALDATA, DISCOURAGE_UPGRADABLE_NOPS}; operands also in non-minimal and 5/6-byte encodings")

    def __init__(self, tier, seed):
        _Base.__init__(self, tier, seed)
        self.bound = dict(operands=len(LT) + 4, locks=len(TXLOCK), sequences=len(TXSEQ), versions=len(TXVER))

    def units(self):
        for op in (0xb1, 0xb2):
            for lock in TXLOCK:
                for ver in TXVER:
                    yield dict(op=op, lock=lock, ver=ver)
                    yield dict(op=op, lock=lock, ver=ver, spend=1)

    def execute(self, u):
        operands = [R.num_encode(v) for v in LT] + [b"\x00", b"\x05\x00", b"\x01\x00\x00\x00\x00\x00", b"\xff\xff\xff\xff\xff\x7f"]
        if u.get("spend"):
            # the same product through Tx.check_solution, so that the transaction context is the one pycoin builds itself
            for seq in TXSEQ:
                for o in operands:
                    spk = (R.push_data(o) if o else b"\x00") + bytes([u["op"]]) + b"\x75\x51"
                    for f in (R.CLTV | R.CSV, R.CLTV | R.CSV | R.P2SH | R.WITNESS | R.MINIMALDATA):
                        c = dict(k="spend", layer="L6", ck=opname(u["op"]) + "-spend", focus=opname(u["op"]), ss="", spk=spk.hex(), wit=[], flags=f,
                                 tx=dict(version=u["ver"], lock=u["lock"], seq=seq))
                        yield c, cmp_spend(c)
            return
        for seq in TXSEQ:
            for o in operands:
                for m in range(16):
                    f = sum(x for i, x in enumerate((R.CLTV, R.CSV, R.MINIMALDATA, R.DISCOURAGE_UPGRADABLE_NOPS)) if m >> i & 1)
                    c = dict(k="eval", layer="L6", ck=opname(u["op"]), focus=opname(u["op"]), script=bytes([u["op"]]).hex(), stack=[o.hex()], flags=f,
                             wit=0, tx=dict(version=u["ver"], lock=u["lock"], seq=seq))
                    yield c, cmp_eval(c)


DRIVERS = [L1, L2, L3, L4, L5, L6]
ASSUMPTIONS = ["reference interpreter vf/ref/script.py is the consensus oracle (validated on all Core vectors shipped in the repo)",
               "executed NOP2/NOP3 with the soft-fork flag unset and DISCOURAGE_UPGRADABLE_NOPS set is treated as unconstrained "
               "(Core versions differ; policy-only)",
               "taproot is excluded by the property"]
