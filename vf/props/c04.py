"""C04 - signature hashes equal the consensus definition (Mode I).

Deviation-bounded transactions x every input index x all 256 hash-type bytes x script codes x coin classes,
through SolutionChecker._signature_hash / _signature_for_hash_type_segwit and through the closures the VM
actually calls (_make_sighash_f / _make_witness_sighash_f with a stub VM).  Oracle: vf.ref.sighash."""
from ..engine import Driver, OK, BAD
from ..space import deviations
from ..ref import sighash as S
from ..ref import script as R

COINS = ["BTC", "LTC", "BCH", "BTG", "GRS", "DOGE"]
FORKID = {"BCH": 0, "BTG": 79}

P2PKH = bytes.fromhex("76a914") + b"\x11" * 20 + bytes.fromhex("88ac")
SIGLIKE = bytes.fromhex("30440220") + b"\x21" * 32 + bytes.fromhex("0220") + b"\x22" * 32 + b"\x01"   # 71 bytes, signature shaped
CODES = {
    "p2pkh": P2PKH,
    "empty": b"",
    "multisig": b"\x51" + R.push_data(b"\x02" + b"\x33" * 32) + R.push_data(b"\x03" + b"\x44" * 32) + b"\x52\xae",
    "sep-first": b"\xab" + P2PKH,
    "sep-mid": P2PKH[:3] + b"\xab" + P2PKH[3:] if False else b"\x76\xab\xa9\x14" + b"\x11" * 20 + b"\x88\xac",
    "sep-last": P2PKH + b"\xab",
    "sep-twice": b"\xab\x51\xab\xab\x52\xab",
    "sep-in-data": b"\x02\xab\xab\x51",
    "sigpush": R.push_data(SIGLIKE) + b"\x75" + P2PKH,
    "len252": b"\x51" * 252,
    "len253": b"\x51" * 253,
    "len65536": b"\x6a" * 65536,
}

AXES = {
    "n_in": [2, 1, 3],
    "n_out": [2, 0, 1, 3],
    "version": [1, 2, 0xffffffff],
    "lock": [0, 500000000, 0xffffffff],
    "seqs": ["ffffffff", "mixed", "zero"],
    "previdx": ["small", "max"],
    "amounts": ["small", "zero", "2^63", "max"],
    "outscript": [25, 0, 252, 253],
    "spent": [1, 0, 21 * 10 ** 14, (1 << 64) - 1],
    "code": list(CODES),
}


def build_tx(p):
    seqs = {"ffffffff": [0xffffffff] * 3, "mixed": [0, 0xfffffffe, 0xffffffff], "zero": [0, 0, 0]}[p["seqs"]]
    pidx = {"small": [0, 1, 7], "max": [0xffffffff, 0, 0xffffffff]}[p["previdx"]]
    amts = {"small": [5, 6, 7], "zero": [0, 0, 0], "2^63": [1 << 63, 1, (1 << 63) - 1], "max": [(1 << 64) - 1, 0, 1]}[p["amounts"]]
    ins = [(bytes([n + 1]) * 32, pidx[n], b"\x51\x52", seqs[n], []) for n in range(p["n_in"])]
    outs = [(amts[n], bytes([0x51 + n]) * p["outscript"]) for n in range(p["n_out"])]
    return dict(version=p["version"], lock=p["lock"], ins=ins, outs=outs)


class VMStub(object):
    def __init__(self, script, begin):
        self.script = script
        self.begin_code_hash = begin


_nets = {}


def net(code):
    if code not in _nets:
        from pycoin.networks.registry import network_for_netcode
        _nets[code] = network_for_netcode(code)
    return _nets[code]


def ref_digests(coin, tx, idx, code, amount, ht):
    """(legacy-entry digest or 'refuse', witness-entry digest) as big-endian ints"""
    if coin == "GRS":
        leg = S.digest_be(S.sighash_legacy(tx, idx, code, ht, h=S.sha256))
        wit = S.digest_be(S.sighash_bip143(tx, idx, code, amount, ht, h=S.sha256, hfinal=S.sha256))
    elif coin in FORKID:
        full = ht | (FORKID[coin] << 8)
        # the fork-id bit is mandatory at both entry points (witness programs too on BTG)
        wit = S.digest_be(S.sighash_bip143(tx, idx, code, amount, full)) if ht & 0x40 else "refuse"
        leg = wit
    else:
        leg = S.digest_be(S.sighash_legacy(tx, idx, code, ht))
        wit = S.digest_be(S.sighash_bip143(tx, idx, code, amount, ht))
    return leg, wit


def strip_sep(code):
    return S.strip_codesep(code)


class Digests(Driver):
    id = "C04.digests"
    rule = ("transactions within <=k deviations of a default over 10 axes x every input index x all 256 hash types x 6 coin "
            "classes, legacy entry point and BIP143 entry point; non-trivial = digest compared and equal (not a refusal)")

    def __init__(self, tier, seed):
        Driver.__init__(self, tier, seed)
        self.k = 2 if tier == "quick" else 3
        self.bound = dict(deviations=self.k, axes={a: len(v) for a, v in AXES.items()}, hash_types=256, coins=COINS)

    def units(self):
        for p, d in deviations(AXES, self.k):
            if p["code"] == "len65536" and d > 1:
                continue          # the 64 KiB script code only alone and with single deviations (cost)
            for coin in COINS:
                yield dict(coin=coin, p=p)

    def _setup(self, coin, p):
        Tx = net(coin).tx
        t = build_tx(p)
        tx = Tx(t["version"], [Tx.TxIn(h, i, s, q) for h, i, s, q, w in t["ins"]], [Tx.TxOut(v, s) for v, s in t["outs"]], t["lock"])
        tx.set_unspents([Tx.TxOut(p["spent"], b"\x51") for _ in t["ins"]])
        return t, tx

    def execute(self, u):
        coin, p = u["coin"], u["p"]
        try:
            t, tx = self._setup(coin, p)
            sc = tx.SolutionChecker(tx)
            before = (tx.as_bin(), tx.id(), tx.w_id(), [(x.coin_value, x.script) for x in tx.unspents])
        except Exception as e:
            yield dict(coin=coin, p=p, idx=0, ht=0), BAD("setup", "transaction can be built", "EXC %s: %s" % (type(e).__name__, e), clause="setup")
            return
        code = CODES[p["code"]]
        for idx in range(p["n_in"]):
            bad = None
            nref = 0
            for ht in range(256):
                leg, wit = ref_digests(coin, t, idx, code, p["spent"], ht)
                try:
                    g1 = sc._signature_hash(code, idx, ht)
                except sc.ScriptError:
                    g1 = "refuse"
                except Exception as e:
                    g1 = "EXC %s" % type(e).__name__
                try:
                    g2 = sc._signature_for_hash_type_segwit(code, idx, ht)
                except sc.ScriptError:
                    g2 = "refuse"
                except Exception as e:
                    g2 = "EXC %s" % type(e).__name__
                nref += 2
                if (g1 != leg or g2 != wit) and bad is None:
                    bad = (ht, leg, wit, g1, g2)
            case = dict(coin=coin, p=p, idx=idx)
            if bad:
                ht, leg, wit, g1, g2 = bad
                which = "legacy-entry" if g1 != leg else "witness-entry"
                yield dict(case, ht=ht), BAD("digest-differs", "legacy %s witness %s" % (leg, wit), "legacy %s witness %s" % (g1, g2), n=nref,
                                             clause="%s:%s" % (coin, which), coin=coin, ht=ht, base=ht & 0x1f, acp=bool(ht & 0x80))
            else:
                yield case, OK("equal:%s" % coin, n=nref)
        try:
            after = (tx.as_bin(), tx.id(), tx.w_id(), [(x.coin_value, x.script) for x in tx.unspents])
        except Exception as e:
            after = "EXC %s" % type(e).__name__
        if after != before:
            yield dict(coin=coin, p=p, idx=-1), BAD("mutated", "transaction unchanged by digest computation", "transaction changed", clause="mutated")

    def run(self, case):
        coin, p = case["coin"], case["p"]
        t, tx = self._setup(coin, p)
        sc = tx.SolutionChecker(tx)
        code = CODES[p["code"]]
        idx = case["idx"]
        hts = [case["ht"]] if "ht" in case else range(256)
        if idx < 0:
            before = tx.as_bin()
            for i in range(p["n_in"]):
                for ht in range(256):
                    try:
                        sc._signature_hash(code, i, ht)
                        sc._signature_for_hash_type_segwit(code, i, ht)
                    except Exception:
                        pass
            return OK("unchanged") if tx.as_bin() == before else BAD("mutated", "unchanged", "changed", clause="mutated")
        for ht in hts:
            leg, wit = ref_digests(coin, t, idx, code, p["spent"], ht)
            try:
                g1 = sc._signature_hash(code, idx, ht)
            except sc.ScriptError:
                g1 = "refuse"
            except Exception as e:
                g1 = "EXC %s" % type(e).__name__
            try:
                g2 = sc._signature_for_hash_type_segwit(code, idx, ht)
            except sc.ScriptError:
                g2 = "refuse"
            except Exception as e:
                g2 = "EXC %s" % type(e).__name__
            if g1 != leg or g2 != wit:
                which = "legacy-entry" if g1 != leg else "witness-entry"
                return BAD("digest-differs", "legacy %s witness %s" % (leg, wit), "legacy %s witness %s" % (g1, g2),
                           clause="%s:%s" % (coin, which), coin=coin, ht=ht, base=ht & 0x1f, acp=bool(ht & 0x80))
        return OK("equal:%s" % coin)

    def nontrivial(self, cls):
        return cls.startswith("equal")

    def selfcheck(self):
        return selfcheck()


# ---- closures as the VM calls them: (hash_type, sig_blobs, vm)

SIGB = {"sig71": SIGLIKE, "sig9": bytes.fromhex("300602010102010101"), "sig73": SIGLIKE[:4] + b"\x00\x00" + SIGLIKE[4:],
        "sig76": SIGLIKE + b"\x07" * 5, "sig256": (SIGLIKE * 4)[:256],
        "sig71-forkid": SIGLIKE[:-1] + b"\x41", "sig71-forkid-c3": SIGLIKE[:-1] + b"\xc3"}


def closure_scripts(sig):
    push = R.push_data(sig)
    pd1 = b"\x4c" + bytes([len(sig)]) + sig if len(sig) < 76 else None
    out = {"plain": P2PKH, "push-front": push + b"\x75" + P2PKH, "push-twice": push + push + b"\x6d" + P2PKH, "push-end": P2PKH + push,
           "inside-bigger": R.push_data(b"\x00" + sig) + b"\x75" + P2PKH,
           "sep+push": b"\x51\xab" + push + b"\x75\xab" + P2PKH, "push-only": push}
    if pd1:
        out["noncanonical-push"] = pd1 + b"\x75" + P2PKH
    return out


class Closures(Driver):
    id = "C04.closures"
    rule = ("the sighash closures handed to the VM, driven with a stub VM: script shapes containing the signature push "
            "(canonical, twice, non-canonical, inside a larger push, around CODESEPARATORs) x begin_code_hash at every opcode "
            "boundary x signature blobs x 24 hash types x {2, 1, 0} outputs (input index 1) x 6 coin classes x legacy/witness closure")

    def __init__(self, tier, seed):
        Driver.__init__(self, tier, seed)
        self.hts = [0, 1, 2, 3, 4, 0x1f, 0x20, 0x21, 0x40, 0x41, 0x42, 0x43, 0x61, 0x80, 0x81, 0x82, 0x83, 0x9f, 0xc1, 0xc2, 0xc3, 0xe1, 0xfe, 0xff]
        if tier == "thorough":
            self.hts = list(range(256))
        self.bound = dict(hash_types=len(self.hts), sigs=list(SIGB), coins=COINS)

    def units(self):
        for coin in COINS:
            for sname in SIGB:
                for shape in closure_scripts(SIGB[sname]):
                    yield dict(coin=coin, sig=sname, shape=shape)

    def execute(self, u):
        coin = u["coin"]
        sig = SIGB[u["sig"]]
        script = closure_scripts(sig)[u["shape"]]
        bounds = [0]
        pc = 0
        while pc < len(script):
            r = S.get_op(script, pc)
            if r is None:
                break
            pc = r[2]
            bounds.append(pc)
        for begin in bounds:
            for blobs in ([], ["sig"], ["sig", "other"]):
                for ht in self.hts:
                    for n_out in (2, 1, 0):          # input index 1: with, and without, an output of the same index
                        case = dict(coin=coin, sig=u["sig"], shape=u["shape"], begin=begin, blobs=blobs, ht=ht, n_out=n_out)
                        yield case, self.run(case)

    def run(self, case):
        coin = case["coin"]
        sig = SIGB[case["sig"]]
        script = closure_scripts(sig)[case["shape"]]
        p = {a: v[0] for a, v in AXES.items()}
        p["n_out"] = case.get("n_out", 2)
        Tx = net(coin).tx
        t = build_tx(p)
        try:
            tx = Tx(t["version"], [Tx.TxIn(h, i, s, q) for h, i, s, q, w in t["ins"]], [Tx.TxOut(v, s) for v, s in t["outs"]], t["lock"])
            tx.set_unspents([Tx.TxOut(p["spent"], b"\x51") for _ in t["ins"]])
            sc = tx.SolutionChecker(tx)
        except Exception as e:
            return BAD("setup", "built", "EXC %s" % type(e).__name__, clause="setup")
        blobs = [sig if b == "sig" else b"\x30\x06\x02\x01\x09\x02\x01\x09\x01" for b in case["blobs"]]
        begin, ht, idx = case["begin"], case["ht"], 1
        vm = VMStub(script, begin)
        code = script[begin:]
        for b in blobs:
            if coin == "BCH" and b[-1] & 0x40:
                continue          # Bitcoin Cash: a signature carrying the fork-id bit stays in the script code (no FindAndDelete)
            code, _ = R.find_and_delete(code, R.push_data(b))
        leg, _w = ref_digests(coin, t, idx, code, p["spent"], ht)
        _l, wit = ref_digests(coin, t, idx, script[begin:], p["spent"], ht)
        try:
            g1 = sc._make_sighash_f(idx)(ht, blobs, vm)
        except sc.ScriptError:
            g1 = "refuse"
        except Exception as e:
            g1 = "EXC %s" % type(e).__name__
        try:
            g2 = sc._make_witness_sighash_f(idx)(ht, blobs, vm)
        except sc.ScriptError:
            g2 = "refuse"
        except Exception as e:
            g2 = "EXC %s" % type(e).__name__
        if g1 == leg and g2 == wit:
            return OK("equal:%s:%s" % (coin, "refuse" if leg == "refuse" else "digest"), n=2)
        which = "legacy-closure" if g1 != leg else "witness-closure"
        return BAD("digest-differs", "legacy %s witness %s" % (leg, wit), "legacy %s witness %s" % (g1, g2), n=2,
                   clause="%s:%s" % (coin, which), coin=coin, shape=case["shape"])

    def nontrivial(self, cls):
        return cls.endswith("digest")

    def selfcheck(self):
        return selfcheck()


_sc = [None]


def selfcheck():
    """BIP143 worked example (native P2WPKH, input 1) + every signature in the Core vectors verifying through the
    reference interpreter (R.selfcheck)."""
    from ..engine import ModelInvalid
    if _sc[0] is not None:
        return _sc[0]
    n = R.selfcheck()
    raw = bytes.fromhex("0100000002fff7f7881a8099afa6940d42d1e7f6362bec38171ea3edf433541db4e4ad969f0000000000eeffffffef51e1b804cc89d182d279655c3aa89e815b1b309fe287d9b2b55d57b90ec68a0100000000ffffffff02202cb206000000001976a9148280b37df378db99f66f85c95a783a76ac7a6d5988ac9093510d000000001976a9143bde42dbee7e4dbe6a21b2d50ce2f0167faa815988ac11000000")
    tx = R.parse_tx(raw)
    code = bytes.fromhex("76a9141d0f172a0ecb48aee1be1f2687d2963ae33f71a188ac")
    d = S.sighash_bip143(tx, 1, code, 600000000, 1)
    if S.digest_be(d) != int("c37af31116d1b27caf68aae9e3ac82f1477929014d5b917657d0eb49478cb670", 16):
        raise ModelInvalid("BIP143 example digest")
    _sc[0] = n + 1
    return _sc[0]


DRIVERS = [Digests, Closures]
ASSUMPTIONS = ["script codes with truncated pushes are not explored (they can never validate, so the digest is unobservable)",
               "signature blobs of length 0 and 1 are not used with the closures (pycoin encodes them as OP_0/OP_N pushes, "
               "consensus as direct pushes; such signatures can never verify)"]
