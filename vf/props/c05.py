"""C05 - signing standard inputs (Mode S: histories of signing passes on one transaction object).

State = complete transaction bytes + unspents (+ the persistent Keychain).  Event = one signing pass
(key subset, supply mechanism, hash type, input set).  After every pass the invariants I1..I5 of DESIGN.md
are evaluated; validity is judged by the independent reference interpreter under the standard policy
flag set, and pycoin's own verdict is compared with it."""
import itertools

from ..engine import Driver, OK, BAD
from ..ref import script as R
from ..ref import sighash as S

STD = (R.P2SH | R.STRICTENC | R.DERSIG | R.LOW_S | R.NULLDUMMY | R.MINIMALDATA | R.DISCOURAGE_UPGRADABLE_NOPS | R.CLEANSTACK
       | R.CLTV | R.CSV | R.WITNESS | R.DISCOURAGE_UPGRADABLE_WITNESS_PROGRAM | R.MINIMALIF | R.NULLFAIL | R.WITNESS_PUBKEYTYPE)
FORKID = {"BCH": 0, "BTG": 79}
PLACEHOLDER = bytes.fromhex("3045022100fffffffffffffffffffffffffffffffebaaedce6af48a03bbfd25e8cd036414002207"
                            "fffffffffffffffffffffffffffffff5d576e7357a4501ddfe92f46681b20a001")
HTS = [1, 2, 3, 0x81, 0x82, 0x83]
KINDS = ["p2pk", "p2pk_u", "p2pkh", "p2pkh_u", "ms", "ms_mixed", "p2sh_ms", "p2sh_ms_mixed", "p2wsh_ms", "p2sh_p2wsh_ms",
         "p2wpkh", "p2sh_p2wpkh"]
MS_KINDS = ["ms", "ms_mixed", "p2sh_ms", "p2wsh_ms", "p2sh_p2wsh_ms"]
WITNESS_KINDS = {"p2wsh_ms", "p2sh_p2wsh_ms", "p2wpkh", "p2sh_p2wpkh"}

_nets = {}


def net(code):
    if code not in _nets:
        from pycoin.networks.registry import network_for_netcode
        _nets[code] = network_for_netcode(code)
    return _nets[code]


_keycache = {}


def keyset(seed):
    """30 secret exponents derived (through pycoin's BIP32, harness side) from a fixed master, + reference public keys"""
    if seed not in _keycache:
        master = net("BTC").keys.bip32_seed(b"vf-c05-seed-%d" % seed)
        ds = [master.subkey_for_path("0/%d" % i).secret_exponent() for i in range(24)]
        _keycache[seed] = (master, ds, [R.pubkey_of(d) for d in ds])
    return _keycache[seed]


def num_op(n):
    return bytes([0x50 + n]) if 1 <= n <= 16 else R.push_data(R.num_encode(n))


def multisig_script(m, pubs):
    return num_op(m) + b"".join(R.push_data(p) for p in pubs) + num_op(len(pubs)) + b"\xae"


def puzzle(kind, m, n, first, seed):
    """returns (scriptPubKey, [scripts for the p2sh lookup], listed key indices, m)"""
    master, ds, Qs = keyset(seed)
    idxs = list(range(first, first + n))
    sec = lambda i, comp=True: R.sec(Qs[i], comp)
    k0 = idxs[0]
    if kind == "p2pk":
        return R.push_data(sec(k0)) + b"\xac", [], [k0], 1
    if kind == "p2pk_u":
        return R.push_data(sec(k0, False)) + b"\xac", [], [k0], 1
    if kind == "p2pkh":
        return b"\x76\xa9\x14" + R.hash160(sec(k0)) + b"\x88\xac", [], [k0], 1
    if kind == "p2pkh_u":
        return b"\x76\xa9\x14" + R.hash160(sec(k0, False)) + b"\x88\xac", [], [k0], 1
    if kind == "p2wpkh":
        return b"\x00\x14" + R.hash160(sec(k0)), [], [k0], 1
    if kind == "p2sh_p2wpkh":
        w = b"\x00\x14" + R.hash160(sec(k0))
        return b"\xa9\x14" + R.hash160(w) + b"\x87", [w], [k0], 1
    mixed = kind.endswith("_mixed")
    pubs = [sec(i, not (mixed and (i - first) % 2 == 1)) for i in idxs]
    ms = multisig_script(m, pubs)
    base = kind.replace("_mixed", "")
    if base == "ms":
        return ms, [], idxs, m
    if base == "p2sh_ms":
        return b"\xa9\x14" + R.hash160(ms) + b"\x87", [ms], idxs, m
    if base == "p2wsh_ms":
        return b"\x00\x20" + R.sha256(ms), [ms], idxs, m
    if base == "p2sh_p2wsh_ms":
        w = b"\x00\x20" + R.sha256(ms)
        return b"\xa9\x14" + R.hash160(w) + b"\x87", [ms, w], idxs, m
    raise ValueError(kind)


class Violation(Exception):
    def __init__(self, clause, ref, impl, **tags):
        self.clause, self.ref, self.impl, self.tags = clause, ref, impl, tags


def ref_valid(coin, txd, idx, spk, amount, flags=STD):
    if coin in FORKID:
        fid = FORKID[coin]

        def leg(tx, i, code, ht):
            if not ht & 0x40:
                return None
            return S.sighash_bip143(tx, i, code, amount, ht | (fid << 8))

        def wit(tx, i, code, amt, ht):
            if not ht & 0x40:
                return None
            return S.sighash_bip143(tx, i, code, amt, ht | (fid << 8))
        ck = R.Checker(txd, idx, amount, legacy_f=leg, witness_f=wit)
        ck.forkid = True
        ck.forkid_keeps_sig = coin == "BCH"      # Bitcoin Cash skips FindAndDelete for fork-id signatures (not known to differ on Bitcoin Gold, whose checker is left as it is)
    elif coin == "GRS":
        # Groestlcoin: single SHA256 everywhere in the signature hash
        ck = R.Checker(txd, idx, amount, legacy_f=lambda tx, i, code, ht: S.sighash_legacy(tx, i, code, ht, h=S.sha256),
                       witness_f=lambda tx, i, code, amt, ht: S.sighash_bip143(tx, i, code, amt, ht, h=S.sha256, hfinal=S.sha256))
    else:
        ck = R.Checker(txd, idx, amount)
    i = txd["ins"][idx]
    try:
        R.verify_script(i[2], spk, list(i[4]), flags, ck)
        return True, ""
    except R.ScriptFail as e:
        return False, e.code


class Scenario(object):
    """one transaction under signing; executes passes on the real pycoin objects and checks the invariants"""

    def __init__(self, coin, inputs, seed, ht):
        # inputs: list of (kind, m, n, first_key)
        self.coin, self.seed, self.ht = coin, seed, ht
        self.kinds = [x[0] for x in inputs]
        self.N = net(coin)
        Tx = self.N.tx
        self.master, self.ds, self.Qs = keyset(seed)
        self.puz = [puzzle(k, m, n, first, seed) for (k, m, n, first) in inputs]
        self.p2s = [s for p in self.puz for s in p[1]]
        unsp = [Tx.Spendable(50000 + 1000 * i, p[0], bytes([7 + i]) * 32, i) for i, p in enumerate(self.puz)]
        self.spent = [(50000 + 1000 * i, p[0]) for i, p in enumerate(self.puz)]
        self.tx = Tx(1, [u.tx_in(sequence=0xfffffffe - i) for i, u in enumerate(unsp)],
                     [Tx.TxOut(10000 + j, bytes([0x51 + j])) for j in range(len(inputs))] + [Tx.TxOut(777, b"\x6a")], 7)
        self.tx.set_unspents(unsp)
        self.supplied = set()
        self.keychain = None
        self.valid_before = [False] * len(inputs)

    # ---- observation helpers (through the wire form: independent of attribute names)
    def snapshot(self):
        txd = R.parse_tx(self.tx.as_bin())
        unsp = [(u.coin_value, bytes(u.script)) for u in self.tx.unspents]
        return txd, unsp

    def expected_valid(self, i):
        spk, p2s, listed, m = self.puz[i]
        return len(self.supplied & set(listed)) >= m

    def do_pass(self, keys, mech, idxset, ht=None):
        N, tx = self.N, self.tx
        kw = dict(hash_type=self.ht if ht is None else ht)
        if idxset is not None:
            # the index collection in the shapes a caller may hold it in, in rotation (deterministic per history)
            self.nshape = getattr(self, "nshape", -1) + 1
            lst = sorted(set(idxset))
            kw["tx_in_idx_set"] = [set(lst), lst, tuple(lst), iter(lst), (i for i in lst), frozenset(lst), dict.fromkeys(lst).keys()][self.nshape % 7]
        if mech == "lookup":
            lookup = N.tx.solve.build_hash160_lookup([self.ds[k] for k in keys])
            tx.sign(lookup, p2sh_lookup=N.tx.solve.build_p2sh_lookup(self.p2s), **kw)
        elif mech == "wif":
            from pycoin.coins.tx_utils import sign_tx
            wifs = [N.keys.private(self.ds[k]).wif() for k in keys]
            sign_tx(N, tx, wifs=wifs, p2sh_lookup=N.tx.solve.build_p2sh_lookup(self.p2s), **kw)
        elif mech == "keychain":
            if self.keychain is None:
                self.keychain = N.keychain()
                self.keychain.add_p2s_scripts(self.p2s)
                self.kmaster = N.keys.bip32_seed(b"vf-c05-seed-%d" % self.seed)
                self.keychain.add_secrets([self.kmaster])
            # both routes that fill the path table, alternating by key number
            pub = self.kmaster.public_copy()
            self.keychain.add_key_paths(pub, ["0/%d" % k for k in keys if k % 2 == 0])
            for k in keys:
                if k % 2:
                    self.keychain.add_keys_path([pub], "0/%d" % k)
            if any(k.endswith("_u") or k.endswith("_mixed") for k in self.kinds):
                # Keychain indexes BIP32 paths by the compressed hash160 only; keys that a puzzle uses in uncompressed
                # form are handed over as hierarchical sub-keys directly
                self.keychain.add_secrets([self.kmaster.subkey_for_path("0/%d" % k) for k in keys])
            tx.sign(self.keychain, p2sh_lookup=self.keychain, **kw)
        else:
            raise ValueError(mech)

    def mutate(self):
        """an output amount changes after signing: signatures that commit to it go stale; which inputs are still valid is
        judged by the reference, and the stale ones count as unsigned again (a later pass has to re-sign them)"""
        self.tx.txs_out[0].coin_value -= 1
        self.spent_outs_changed = True
        after, _ = self.snapshot()
        self.supplied_for = getattr(self, "supplied_for", [set() for _ in self.puz])
        for i, (spk, p2s, listed, m) in enumerate(self.puz):
            rv, _code = ref_valid(self.coin, after, i, spk, self.spent[i][0])
            self.valid_before[i] = rv
            if not rv:
                self.supplied_for[i] = set()

    def step(self, keys, mech, idxset, ht=None):
        if keys == "mutate":
            return self.mutate()
        self.hts_used = getattr(self, "hts_used", set())
        self.hts_used.add(self.ht if ht is None else ht)
        before, unsp_before = self.snapshot()
        asked = set(range(len(self.puz))) if idxset is None else set(idxset)
        try:
            self.do_pass(keys, mech, idxset, ht)
        except Exception as e:
            raise Violation("pass-raises", "signing pass returns", "EXC %s: %s" % (type(e).__name__, e))
        if mech == "keychain":
            self.supplied_here = set(keys)
        after, unsp_after = self.snapshot()
        # I1: nothing but script/witness of asked, not-yet-valid inputs may change
        if (after["version"], after["lock"], after["outs"]) != (before["version"], before["lock"], before["outs"]):
            raise Violation("I1-touched", "version/lock/outputs untouched", "changed")
        if unsp_after != unsp_before or unsp_after != self.spent:
            raise Violation("I1-touched", "unspents untouched", "changed")
        if len(after["ins"]) != len(before["ins"]):
            raise Violation("I1-touched", "input count", "changed")
        for i, (a, b) in enumerate(zip(after["ins"], before["ins"])):
            if a[:2] != b[:2] or a[3] != b[3]:
                raise Violation("I1-touched", "outpoint/sequence of input %d untouched" % i, "changed")
            if (a[2], a[4]) != (b[2], b[4]) and (i not in asked or self.valid_before[i]):
                raise Violation("I4-resigned" if self.valid_before[i] else "I1-touched",
                                "input %d (%s) left alone" % (i, "already valid" if self.valid_before[i] else "not asked"),
                                "script/witness changed")
        # which keys count as having signed: keys supplied in passes that covered the input
        self.supplied_for = getattr(self, "supplied_for", [set() for _ in self.puz])
        for i in asked:
            if not self.valid_before[i]:
                self.supplied_for[i] |= set(keys)
        flags_impl = STD if self.coin not in FORKID else STD & ~R.STRICTENC
        bad = 0
        for i, (spk, p2s, listed, m) in enumerate(self.puz):
            exp = len(self.supplied_for[i] & set(listed)) >= m
            rv, code = ref_valid(self.coin, after, i, spk, self.spent[i][0])
            try:
                iv = bool(self.tx.is_solution_ok(i, flags=flags_impl))
            except Exception as e:
                raise Violation("validate-raises", "is_solution_ok returns", "EXC %s: %s" % (type(e).__name__, e))
            if rv != exp:
                raise Violation("I2-valid-iff-m-signed" if exp else "I5-valid-without-keys",
                                "input %d valid=%s (keys signed %r of listed %r, m=%d)" % (i, exp, sorted(self.supplied_for[i] & set(listed)), listed, m),
                                "consensus verdict %s %s" % (rv, code), kind=self.kinds[i], ms_m=m, ms_n=len(listed))
            if iv != rv:
                raise Violation("checker-disagrees", "consensus verdict %s %s" % (rv, code), "is_solution_ok=%s" % iv, kind=self.kinds[i])
            if rv and self.coin not in FORKID:
                rv2, code2 = ref_valid(self.coin, after, i, spk, self.spent[i][0], STD | R.SIGPUSHONLY)
                if not rv2:
                    raise Violation("I3-pushonly", "valid also with SIGPUSHONLY", code2, kind=self.kinds[i])
            if not iv:
                bad += 1
            # I3: every real signature carries the requested hash type, strict DER, low S
            a = after["ins"][i]
            items = list(a[4])
            pc = 0
            while pc < len(a[2]):
                r = R.get_op(a[2], pc)
                if r is None:
                    raise Violation("I3-canonical", "scriptSig parses", "truncated push in scriptSig of input %d" % i)
                op, data, pc = r
                if data is not None:
                    items.append(data)
                    if not R.check_minimal_push(data, op):
                        raise Violation("I3-canonical", "minimal pushes", "non-minimal push in scriptSig of input %d" % i)
                elif op > R.OP_16:
                    raise Violation("I3-canonical", "push-only scriptSig", "opcode 0x%02x" % op)
            wants = set(h | (0x40 if self.coin in FORKID else 0) for h in self.hts_used)
            want = sorted(wants)[0]
            for it in items:
                if len(it) >= 9 and it[0] == 0x30 and it != PLACEHOLDER and it not in self.p2s and len(it) <= 73:
                    if not R.valid_sig_encoding(it):
                        raise Violation("I3-der", "strict DER signature", it.hex())
                    rs = R.parse_der_lax(it[:-1])
                    if rs is None or rs[1] > R.N // 2:
                        raise Violation("I3-lowS", "low-S signature", it.hex())
                    if it[-1] not in wants:
                        raise Violation("I3-hashtype", "hash type %s" % "/".join("0x%02x" % w for w in sorted(wants)), "0x%02x" % it[-1], kind=self.kinds[i])
            self.valid_before[i] = rv
        try:
            bc = self.tx.bad_solution_count(flags=flags_impl)
        except Exception as e:
            raise Violation("validate-raises", "bad_solution_count returns", "EXC %s" % type(e).__name__)
        if bc != bad:
            raise Violation("I5-bad-solution-count", "bad_solution_count=%d" % bad, str(bc))


def run_history(case):
    inputs = [tuple(x) for x in case["inputs"]]
    try:
        sc = Scenario(case["coin"], inputs, case.get("seed", 0), case["ht"])
    except Exception as e:
        return BAD("setup", "scenario can be built", "EXC %s: %s" % (type(e).__name__, e), clause="setup")
    k = -1
    try:
        for k, ps in enumerate(case["passes"]):
            sc.step(ps[0], ps[1], ps[2], ps[3] if len(ps) > 3 else None)
    except Violation as v:
        return BAD(v.clause, v.ref, "after pass %d %r: %s" % (k, case["passes"][k], v.impl), n=k + 1, clause=v.clause,
                   coin=case["coin"], kinds=[x[0] for x in inputs], ht=case["ht"], mech=case["passes"][k][1], **v.tags)
    nvalid = sum(1 for v in sc.valid_before if v)
    return OK("valid%d/%d:%s" % (nvalid, len(inputs), "forkid" if case["coin"] in FORKID else "plain"), n=len(case["passes"]))


COINS = ["BTC", "XTN", "LTC", "BCH", "BTG", "DOGE", "DASH"]
MECHS = ["lookup", "wif", "keychain"]


def kinds_for(coin):
    return KINDS


class _Base(Driver):
    def run(self, case):
        return run_history(case)

    def nontrivial(self, cls):
        return not cls.startswith("valid0/")

    def selfcheck(self):
        return R.selfcheck()


class Single(_Base):
    id = "C05.single"
    rule = ("every puzzle kind x 6 hash types x 7 coins x 3 key-supply mechanisms on a 2-input transaction (kind + P2PKH): a pass "
            "with an explicitly empty input set, a pass for input 1 only, an all-inputs pass, a repeated pass (identity), then an output "
            "amount is changed (signatures committing to it go stale) and a last pass must re-sign; judged by the reference "
            "interpreter under the standard flags")

    def __init__(self, tier, seed):
        _Base.__init__(self, tier, seed)
        self.bound = dict(kinds=KINDS, hash_types=HTS, coins=COINS, mechanisms=MECHS)

    def units(self):
        for coin in COINS:
            for kind in kinds_for(coin):
                for ht in HTS:
                    for mech in MECHS:
                        m, n = (2, 3) if "ms" in kind else (1, 1)
                        keys = list(range(0, n)) + [5]
                        # an explicitly empty input set asks for nothing; then input 1 only; then everything; then again (identity)
                        yield dict(coin=coin, seed=self.seed, ht=ht, inputs=[[kind, m, n, 0], ["p2pkh", 1, 1, 5]],
                                   passes=[[keys, mech, []], [keys, mech, [1]], [keys, mech, None], [keys, mech, None],
                                           ["mutate", mech, None], [keys, mech, None]])


class Pairs(_Base):
    id = "C05.pairs"
    rule = "every ordered pair of puzzle kinds (and one legacy+P2SH+witness triple) in one transaction; per-input passes in both orders"

    def __init__(self, tier, seed):
        _Base.__init__(self, tier, seed)
        self.coins = ["BTC", "BCH"] if tier == "quick" else ["BTC", "BCH", "BTG", "LTC"]
        self.bound = dict(kinds=KINDS, coins=self.coins)

    def units(self):
        for coin in self.coins:
            for a in KINDS:
                for b in KINDS:
                    na = (2, 3) if "ms" in a else (1, 1)
                    nb = (2, 3) if "ms" in b else (1, 1)
                    inputs = [[a, na[0], na[1], 0], [b, nb[0], nb[1], 4]]
                    keys = list(range(0, na[1])) + list(range(4, 4 + nb[1]))
                    for ht in (1, 0x83):
                        yield dict(coin=coin, seed=self.seed, ht=ht, inputs=inputs, passes=[[keys, "lookup", None]])
                    # one input at a time, second first
                    yield dict(coin=coin, seed=self.seed, ht=1, inputs=inputs, passes=[[keys, "lookup", [1]], [keys, "keychain", [0]], [keys, "wif", None]])
                    # two parties, each holding the keys of one input only and signing "everything it can": the owner of the
                    # SECOND input first (the first input is then unsolvable for this signer and must not stop the pass)
                    ka, kb = list(range(0, na[1])), list(range(4, 4 + nb[1]))
                    for mech in MECHS:
                        yield dict(coin=coin, seed=self.seed, ht=1, inputs=inputs, passes=[[kb, mech, None], [ka, mech, None]])
                        yield dict(coin=coin, seed=self.seed, ht=1, inputs=inputs, passes=[[ka, mech, None], [kb, mech, None]])
                    # index restrictions in several container shapes (a pass per input, then both)
                    yield dict(coin=coin, seed=self.seed, ht=1, inputs=inputs,
                               passes=[[[], "lookup", [0]], [[], "lookup", [1]], [[], "lookup", [0, 1]], [keys, "lookup", [1]], [keys, "lookup", [0]]])
                    yield dict(coin=coin, seed=self.seed, ht=1, inputs=inputs,
                               passes=[[[], "lookup", [0]], [[], "lookup", [1]], [[], "lookup", [0, 1]], [[], "lookup", [0]], [keys, "lookup", [0, 1]]])
            inputs = [["p2pkh_u", 1, 1, 0], ["p2sh_ms", 2, 3, 1], ["p2wsh_ms", 2, 2, 4], ["p2sh_p2wpkh", 1, 1, 7]]
            for ht in HTS:
                for mech in MECHS:
                    yield dict(coin=coin, seed=self.seed, ht=ht, inputs=inputs, passes=[[list(range(8)), mech, None]])


class Orders(_Base):
    id = "C05.orders"
    rule = ("m-of-n multisig (n<=3 quick, <=4 thorough) in bare/P2SH/P2WSH/P2SH-P2WSH form: every order of single-key passes, "
            "with <=1 deviation (a wrong-key pass, a repeated pass, a pass restricted to another input) at every position")

    def __init__(self, tier, seed):
        _Base.__init__(self, tier, seed)
        self.nmax = 3 if tier == "quick" else 4
        self.coins = ["BTC", "BCH", "BTG"] if tier == "quick" else COINS
        self.bound = dict(nmax=self.nmax, coins=self.coins, kinds=MS_KINDS)

    def units(self):
        ci = 0
        for kind in MS_KINDS:
            for n in range(1, self.nmax + 1):
                for m in range(1, n + 1):
                    for perm in itertools.permutations(range(n)):
                        for coin in self.coins:
                            for ht in ((1,) if self.tier == "quick" else (1, 0x83)):
                                mech = MECHS[ci % 3]
                                ci += 1
                                base = [[[k], mech, None] for k in perm]
                                inputs = [[kind, m, n, 0], ["p2pkh", 1, 1, 9]]
                                yield dict(coin=coin, seed=self.seed, ht=ht, inputs=inputs, passes=base)
                                if n >= 2:
                                    # every pass with its own hash type (earlier signatures must survive later passes)
                                    mixed = [[[k], mech, None, HTS[(j + ci) % len(HTS)]] for j, k in enumerate(perm)]
                                    yield dict(coin=coin, seed=self.seed, ht=ht, inputs=inputs, passes=mixed)
                                for pos in range(len(base) + 1):
                                    yield dict(coin=coin, seed=self.seed, ht=ht, inputs=inputs, passes=base[:pos] + [[[20], mech, None]] + base[pos:])
                                    if pos > 0:
                                        yield dict(coin=coin, seed=self.seed, ht=ht, inputs=inputs, passes=base[:pos] + [base[pos - 1]] + base[pos:])
                                    yield dict(coin=coin, seed=self.seed, ht=ht, inputs=inputs, passes=base[:pos] + [[[perm[0]], mech, [1]]] + base[pos:])


class Sweep(_Base):
    id = "C05.sweep"
    rule = ("m-of-n for 1<=m<=n<=20 wherever size limits allow (n<=15 under P2SH): one all-keys pass, and one reverse-order "
            "one-key-at-a-time history")

    def __init__(self, tier, seed):
        _Base.__init__(self, tier, seed)
        if tier == "quick":
            self.mn = [(1, 1), (2, 3), (9, 10), (10, 10), (9, 11), (11, 12), (15, 15), (16, 16), (10, 20), (20, 20), (1, 20), (17, 18)]
            self.coins = ["BTC", "BCH"]
        else:
            self.mn = [(m, n) for n in range(1, 21) for m in range(1, n + 1)]
            self.coins = ["BTC", "BCH", "LTC"]
        self.bound = dict(mn=len(self.mn), coins=self.coins)

    def units(self):
        for coin in self.coins:
            for (m, n) in self.mn:
                for kind in ("ms", "p2sh_ms", "p2wsh_ms"):
                    if kind == "p2sh_ms" and n > 15:
                        continue
                    inputs = [[kind, m, n, 0]]
                    yield dict(coin=coin, seed=self.seed, ht=1, inputs=inputs, passes=[[list(range(n)), "lookup", None]])
                    if self.tier == "thorough" or n <= 12:
                        yield dict(coin=coin, seed=self.seed, ht=1, inputs=inputs, passes=[[[k], "lookup", None] for k in reversed(range(n))])


DRIVERS = [Single, Pairs, Orders, Sweep]
ASSUMPTIONS = ["validity is judged by vf/ref/script.py under Core's standard flags restricted to the 16 flags pycoin defines; on BCH/BTG with "
               "a fork-id aware hash-type rule in the reference and without STRICTENC for pycoin's checker, as the property allows",
               "key material is derived through pycoin's BIP32 (harness side); public keys are recomputed by the reference"]
