"""C06 - validation is tamper evident (Mode I single-field mutations + Mode S mutate/validate histories).

Start set: transactions signed through the real signer (C05 scenarios) for every puzzle kind x 6 hash types.
Every mutation of the alphabet is applied to the live object; each input's verdict must equal the reference
interpreter's verdict on the mutated transaction (primary oracle) - and the reference verdict must itself agree
with a field-level commitment view written from the BIP text (secondary oracle guarding the reference).
Histories: sequences of mutations / undos / validations on ONE object, compared after every step with a fresh
object parsed from the current bytes."""
import copy
import itertools

from ..engine import Driver, OK, BAD, ModelInvalid
from ..ref import script as R
from . import c05

STD = c05.STD
FORKID = c05.FORKID
HTS = c05.HTS
KINDS = c05.KINDS
COINS = ["BTC", "BCH", "LTC", "BTG"]


def signed_scenario(coin, kind, ht, seed, few_outs=False, solo=False):
    m, n = (2, 3) if "ms" in kind else (1, 1)
    inputs = [(kind, m, n, 0), (kind, m, n, 4), ("p2pkh", 1, 1, 9)]
    if solo:
        inputs = inputs[:1]       # a one-input transaction (the shape in which special outpoint values matter)
    hts = list(ht) if isinstance(ht, (list, tuple)) else [ht]
    sc = c05.Scenario(coin, inputs, seed, hts[0])
    if few_outs:
        del sc.tx.txs_out[2:]          # inputs 2 has no matching output: SIGHASH_SINGLE corner
    if len(hts) == 1:
        sc.do_pass(list(range(0, 12)), "lookup", None)
    else:
        # cosigners with different hash types: first keys of each input with hts[0], second keys with hts[1]
        sc.do_pass([0, 4, 9], "lookup", None, hts[0])
        sc.do_pass([1, 5], "lookup", None, hts[1])
    return sc


class Signed(object):
    """a fresh transaction object parsed from the bytes of a (cached, deterministic) signed scenario"""
    _cache = {}

    def __init__(self, coin, kind, ht, seed, few=False, solo=False):
        key = (coin, kind, tuple(ht) if isinstance(ht, (list, tuple)) else ht, seed, few, solo)
        if key not in self._cache:
            sc = signed_scenario(coin, kind, ht, seed, few, solo)
            self._cache[key] = (sc.tx.as_bin(), list(sc.spent), list(sc.p2s))
        blob, spent, p2s = self._cache[key]
        Tx = c05.net(coin).tx
        self.tx = Tx.from_bin(blob)
        self.tx.set_unspents([Tx.TxOut(v, s) for v, s in spent])
        self.spent, self.p2s = list(spent), list(p2s)


# ---------------------------------------------------------------- mutations (on the live pycoin object)

def mutation_list(n_in, n_out):
    L = [("version", +1), ("version", -1), ("lock", +1), ("lock", -1)]
    for j in range(n_in):
        L += [("in", j, "hash0"), ("in", j, "hash255"), ("in", j, "index+"), ("in", j, "index-"), ("in", j, "seq+"), ("in", j, "seq-"), ("in", j, "seq0"),
              ("in", j, "hashzero"), ("in", j, "indexmax")]
    for j in range(n_out):
        L += [("out", j, "amount+"), ("out", j, "amount-"), ("out", j, "script0"), ("out", j, "script-1"), ("out", j, "empty")]
    for p in range(n_in + 1):
        L.append(("ins-insert", p))
    for j in range(n_in):
        L.append(("ins-delete", j))
    for a, b in itertools.combinations(range(n_in), 2):
        L.append(("ins-swap", a, b))
        L.append(("swap-unlock", a, b))
    for p in range(n_out + 1):
        L.append(("outs-insert", p))
        L.append(("outs-insert-dup", p))
    for j in range(n_out):
        L.append(("outs-delete", j))
    for a, b in itertools.combinations(range(n_out), 2):
        L.append(("outs-swap", a, b))
    for j in range(n_in):
        L += [("unspent", j, "amount+"), ("unspent", j, "amount-"), ("unspent", j, "script0"), ("unspent", j, "none")]
    L += [("unspents-short",), ("unspents-empty",), ("unspents-from-impostor-db",)]
    return [list(x) for x in L]


def flip(b, i, bit=1):
    b = bytearray(b)
    b[i] ^= bit
    return bytes(b)


def apply_mutation(tx, mu):
    """mutates the live pycoin Tx (and its unspents, kept aligned for input list edits).  Returns a map old input
    index -> new input index (None if the input disappeared)."""
    Tx = tx.__class__
    n = len(tx.txs_in)
    imap = {i: i for i in range(n)}
    k = mu[0]
    if k == "version":
        tx.version = (tx.version + mu[1]) & 0xffffffff
    elif k == "lock":
        tx.lock_time = (tx.lock_time + mu[1]) & 0xffffffff
    elif k == "in":
        ti = tx.txs_in[mu[1]]
        f = mu[2]
        if f == "hash0":
            ti.previous_hash = flip(ti.previous_hash, 0, 1)
        elif f == "hash255":
            ti.previous_hash = flip(ti.previous_hash, 31, 0x80)
        elif f == "hashzero":
            ti.previous_hash = bytes(32)           # half of the coinbase outpoint
        elif f == "indexmax":
            ti.previous_index = 0xffffffff         # the other half
        elif f == "index+":
            ti.previous_index = (ti.previous_index + 1) & 0xffffffff
        elif f == "index-":
            ti.previous_index = (ti.previous_index - 1) & 0xffffffff
        elif f == "seq+":
            ti.sequence = (ti.sequence + 1) & 0xffffffff
        elif f == "seq-":
            ti.sequence = (ti.sequence - 1) & 0xffffffff
        elif f == "seq0":
            ti.sequence = 0
    elif k == "out":
        to = tx.txs_out[mu[1]]
        f = mu[2]
        if f == "amount+":
            to.coin_value += 1
        elif f == "amount-":
            to.coin_value -= 1
        elif f == "script0":
            to.script = flip(to.script, 0)
        elif f == "script-1":
            to.script = flip(to.script, len(to.script) - 1)
        elif f == "empty":
            to.script = b""
    elif k == "ins-insert":
        p = mu[1]
        tx.txs_in.insert(p, Tx.TxIn(b"\x5a" * 32, 3, b"\x51", 0xfffffff0))
        tx.unspents.insert(p, Tx.TxOut(4321, b"\x51"))
        imap = {i: (i if i < p else i + 1) for i in range(n)}
    elif k == "ins-delete":
        j = mu[1]
        del tx.txs_in[j]
        del tx.unspents[j]
        imap = {i: (None if i == j else (i if i < j else i - 1)) for i in range(n)}
    elif k == "ins-swap":
        a, b = mu[1], mu[2]
        tx.txs_in[a], tx.txs_in[b] = tx.txs_in[b], tx.txs_in[a]
        tx.unspents[a], tx.unspents[b] = tx.unspents[b], tx.unspents[a]
        imap[a], imap[b] = b, a
    elif k == "swap-unlock":
        a, b = tx.txs_in[mu[1]], tx.txs_in[mu[2]]
        a.script, b.script = b.script, a.script
        a.witness, b.witness = b.witness, a.witness
    elif k == "outs-insert":
        tx.txs_out.insert(mu[1], Tx.TxOut(999, b"\x6a\x01\x07"))
    elif k == "outs-insert-dup":
        src = tx.txs_out[min(mu[1], len(tx.txs_out) - 1)]
        tx.txs_out.insert(mu[1], Tx.TxOut(src.coin_value, src.script))
    elif k == "outs-delete":
        del tx.txs_out[mu[1]]
    elif k == "outs-swap":
        a, b = mu[1], mu[2]
        tx.txs_out[a], tx.txs_out[b] = tx.txs_out[b], tx.txs_out[a]
    elif k == "unspent":
        j, f = mu[1], mu[2]
        if f == "none":
            tx.unspents[j] = None
        else:
            u = tx.unspents[j]
            nu = Tx.TxOut(u.coin_value, u.script)
            if f == "amount+":
                nu.coin_value += 1
            elif f == "amount-":
                nu.coin_value -= 1
            elif f == "script0":
                nu.script = flip(nu.script, 0)
            tx.unspents[j] = nu
    elif k == "unspents-short":
        tx.unspents = tx.unspents[:-1]
    elif k == "unspents-empty":
        tx.unspents = []
    elif k == "unspents-from-impostor-db":
        # the records are re-loaded through unspents_from_db from a plain dict whose entries are NOT the transactions the
        # outpoints name (their ids differ) although they carry the very same outputs: every spent output is then unknown
        db = {}
        for kk, ti in enumerate(tx.txs_in):
            u = tx.unspents[kk]
            outs = [Tx.TxOut(0, b"")] * min(ti.previous_index, 64) + [Tx.TxOut(u.coin_value, u.script)]
            db[ti.previous_hash] = Tx(1, [Tx.TxIn(b"\x07" * 32, kk)], outs)
        tx.unspents_from_db(db, ignore_missing=True)
    else:
        raise ValueError(mu)
    return imap


# ---------------------------------------------------------------- secondary oracle: field-level commitment view

def sig_hashtypes(txd, i, p2s):
    """hash types of the real signatures in input i's unlocking data"""
    a = txd["ins"][i]
    items = list(a[4])
    pc = 0
    while pc < len(a[2]):
        r = R.get_op(a[2], pc)
        if r is None:
            break
        op, data, pc = r
        if data is not None:
            items.append(data)
    return sorted(set(it[-1] for it in items if 9 <= len(it) <= 73 and it[0] == 0x30 and it not in p2s))


def commit_view(txd, i, ht, witness_style, amount):
    """the tuple of fields hash type `ht` commits input i to - written at field level from BIP143 / the legacy rules.
    The script code is left out: it is determined by the spent script, which is handled separately."""
    base = ht & 0x1f
    acp = bool(ht & 0x80)
    ins, outs = txd["ins"], txd["outs"]
    me = (ins[i][0], ins[i][1], ins[i][3])
    if witness_style:
        prevouts = None if acp else tuple((x[0], x[1]) for x in ins)
        seqs = None if (acp or base in (2, 3)) else tuple(x[3] for x in ins)
        if base not in (2, 3):
            o = tuple(outs)
        elif base == 3 and i < len(outs):
            o = ("single", outs[i])
        else:
            o = None
        return (txd["version"], txd["lock"], prevouts, seqs, me, amount, o, ht)
    if base == 3 and i >= len(outs):
        return ("SIGHASH_SINGLE bug: digest is the constant 1",)
    if acp:
        vin = (me,)
        pos = 0
    else:
        vin = tuple((x[0], x[1], x[3] if (j == i or base not in (2, 3)) else 0) for j, x in enumerate(ins))
        pos = i
    if base == 2:
        o = ()
    elif base == 3:
        o = ("blanks", i, outs[i])
    else:
        o = tuple(outs)
    return (txd["version"], txd["lock"], vin, pos, o, ht)


class Mutations(Driver):
    id = "C06.mutations"
    rule = ("signed transactions (12 puzzle kinds x 6 hash types x coins, 3 inputs / 4 outputs, plus a 2-output variant) x every "
            "single mutation of the alphabet; every input's verdict compared with the reference interpreter and with the "
            "field-level commitment view; non-trivial = at least one input changes verdict and at least one keeps it")

    def __init__(self, tier, seed):
        Driver.__init__(self, tier, seed)
        self.coins = ["BTC", "BCH"] if tier == "quick" else COINS
        self.bound = dict(kinds=KINDS, hash_types=HTS, coins=self.coins, mutations=len(mutation_list(3, 4)), pairs=(tier == "thorough"))

    def units(self):
        for coin in self.coins:
            for kind in KINDS:
                if self.tier == "quick" and coin != "BTC" and kind not in ("p2pkh", "p2sh_ms", "p2pk_u"):
                    continue
                for ht in HTS:
                    yield dict(coin=coin, kind=kind, ht=ht, few=False)
                    if kind in ("p2pkh", "p2wpkh", "p2sh_ms", "p2wsh_ms"):
                        yield dict(coin=coin, kind=kind, ht=ht, few=True)
        # hash-type bytes outside the six named ones (consensus reads them as ALL, with or without ANYONECANPAY)
        for kind in ("p2pkh", "p2wpkh", "p2wsh_ms", "p2sh_p2wpkh"):
            for ht in (0, 4, 0x1f, 0x84):
                yield dict(coin="BTC", kind=kind, ht=ht, few=False, relax=True)
        # one-input transactions
        for coin in self.coins:
            for kind in ("p2pkh", "p2sh_ms", "p2wpkh", "p2pk"):
                for ht in (1, 0x83):
                    yield dict(coin=coin, kind=kind, ht=ht, few=False, solo=True)
        # cosigners of one multisig input using different hash types (each signature commits by its own type)
        for coin in self.coins:
            for kind in ("ms", "p2sh_ms", "p2wsh_ms") if self.tier == "quick" else c05.MS_KINDS:
                for hts in ([1, 2], [2, 1], [1, 3], [3, 0x81], [0x82, 1]):
                    yield dict(coin=coin, kind=kind, ht=hts, few=False)
        # Groestlcoin (single SHA256 digests, its own overrides of the BIP143 sub-hashes)
        for kind in ("p2pkh", "p2wpkh", "p2wsh_ms") if self.tier == "quick" else KINDS:
            for ht in (1, 3, 0x82):
                yield dict(coin="GRS", kind=kind, ht=ht, few=False)

    def execute(self, u):
        try:
            sc0 = Signed(u["coin"], u["kind"], u["ht"], self.seed, u["few"], u.get("solo", False))
            n_in, n_out = len(sc0.tx.txs_in), len(sc0.tx.txs_out)
        except Exception as e:
            yield dict(u, mu=None), BAD("setup", "scenario signs", "EXC %s: %s" % (type(e).__name__, e), clause="setup")
            return
        mus = [[m] for m in mutation_list(n_in, n_out) if not (n_in == 1 and m[0] == "ins-delete")]    # a transaction keeps >= 1 input (C07)
        if self.tier == "thorough" and not u["few"]:
            small = [m for m in mutation_list(n_in, n_out) if m[0] in ("version", "in", "out", "unspent", "outs-swap", "swap-unlock")]
            mus += [[a, b] for a, b in itertools.combinations(small[::3], 2)]
        yield dict(u, seed=self.seed, mus=[]), self._one(u, [], sc0)
        for ms in mus:
            case = dict(u, seed=self.seed, mus=ms)
            yield case, self._one(u, ms)

    def run(self, case):
        return self._one(case, case["mus"])

    def _one(self, u, ms, sc=None):
        coin = u["coin"]
        try:
            if sc is None:
                sc = Signed(coin, u["kind"], u["ht"], u.get("seed", self.seed), u["few"], u.get("solo", False))
        except Exception as e:
            return BAD("setup", "scenario signs", "EXC %s: %s" % (type(e).__name__, e), clause="setup")
        tx = sc.tx
        orig = R.parse_tx(tx.as_bin())
        orig_spent = list(sc.spent)
        n = len(orig["ins"])
        flags_impl = STD if coin not in FORKID else STD & ~R.STRICTENC
        flags_ref = STD
        if u.get("relax"):
            # hash-type bytes outside the six named ones are only valid without the defined-hash-type rule
            flags_impl = flags_ref = STD & ~R.STRICTENC
        imap = {i: i for i in range(n)}
        try:
            for mu in ms:
                step = apply_mutation(tx, mu)
                imap = {i: (step.get(imap[i]) if imap[i] is not None else None) for i in imap}
            after_bin = tx.as_bin()
        except Exception as e:
            return BAD("mutation-raises", "attribute mutation + serialisation works", "EXC %s: %s" % (type(e).__name__, e), clause="mutation-raises")
        if ms and after_bin == R.ser(orig) and [None if x is None else (x.coin_value, x.script) for x in tx.unspents] == orig_spent \
                and not any(m[0] == "unspents-from-impostor-db" for m in ms):
            return OK("trivial-noop")
        txd = R.parse_tx(after_bin)
        changed = kept = 0
        for i in range(n):
            j = imap[i]
            if j is None:
                continue
            unsp = tx.unspents
            missing = len(unsp) <= j or unsp[j] is None or any(m[0] == "unspents-from-impostor-db" for m in ms)
            try:
                iv = bool(tx.is_solution_ok(j, flags=flags_impl))
                if missing:
                    # "never reported valid": whatever flags the caller validates with
                    iv = iv or bool(tx.is_solution_ok(j)) or bool(tx.is_solution_ok(j, flags=0)) or bool(tx.is_solution_ok(j, flags=R.P2SH))
            except Exception as e:
                return BAD("validate-raises", "is_solution_ok returns a verdict", "EXC %s: %s" % (type(e).__name__, e), clause="validate-raises",
                           mu=ms, kind=u["kind"])
            base_ok, base_why = c05.ref_valid(coin, orig, i, orig_spent[i][1], orig_spent[i][0], flags=flags_ref)
            if not ms:
                if not base_ok or not iv:
                    return BAD("baseline", "freshly signed input %d validates (reference: %s %s)" % (i, base_ok, base_why), "is_solution_ok=%s" % iv,
                               clause="signed-input-invalid" if iv == base_ok else "baseline-verdict-differs", kind=u["kind"], ht=u["ht"], coin=coin)
                kept += 1
                continue
            if missing:
                exp, why = False, "spent output unknown"
            else:
                amount, spk = unsp[j].coin_value, bytes(unsp[j].script)
                exp, why = c05.ref_valid(coin, txd, j, spk, amount, flags=flags_ref)
                if base_ok:
                    # secondary oracle (guards the reference): field-level view, relative to the valid baseline
                    wstyle = (coin in FORKID or u["kind"] in c05.WITNESS_KINDS) if i < 2 else coin in FORKID
                    hts = sig_hashtypes(orig, i, sc.p2s)
                    view_same = all(commit_view(orig, i, h, wstyle, orig_spent[i][0]) == commit_view(txd, j, h, wstyle, amount) for h in hts)
                    unlock_same = (orig["ins"][i][2], orig["ins"][i][4]) == (txd["ins"][j][2], txd["ins"][j][4])
                    puzzle_same = spk == orig_spent[i][1]
                    table = view_same and unlock_same and puzzle_same and bool(hts)
                    if table != exp:
                        raise ModelInvalid("commitment view says %s but reference interpreter says %s (%s) for %r input %d mutations %r"
                                           % (table, exp, why, u, i, ms))
            if iv != exp:
                return BAD("verdict-differs", "input %d (now %d) valid=%s (%s)" % (i, j, exp, why), "is_solution_ok=%s" % iv,
                           clause="missing-unspent" if missing else ("accepts-tampered" if iv else "rejects-uncommitted"),
                           mu=ms, kind=u["kind"], ht=u["ht"], coin=coin)
            if exp:
                kept += 1
            else:
                changed += 1
        try:
            bc = tx.bad_solution_count(flags=flags_impl)
        except Exception as e:
            return BAD("validate-raises", "bad_solution_count returns", "EXC %s: %s" % (type(e).__name__, e), clause="validate-raises", mu=ms)
        live = [j for j in imap.values() if j is not None]
        extra = len(tx.txs_in) - len(live)
        if not (changed <= bc <= changed + extra):
            return BAD("bad-solution-count", "between %d and %d" % (changed, changed + extra), str(bc), clause="bad-solution-count", mu=ms)
        if not ms:
            return OK("baseline-valid%d" % kept)
        return OK("invalidates%d-keeps%d" % (changed, kept), n=n)

    def nontrivial(self, cls):
        return cls.startswith("invalidates") and not cls.startswith("invalidates0") and not cls.endswith("keeps0")

    def selfcheck(self):
        return R.selfcheck()


class Histories(Driver):
    id = "C06.histories"
    rule = ("on ONE transaction object: every sequence of <=2 (3 in thorough) operations from {apply mutation, undo it, validate} over a "
            "reduced mutation set; after every step the verdict vector must equal that of a fresh object parsed from the "
            "current bytes with a copy of the unspents")

    MU = [["version", 1], ["lock", 1], ["in", 0, "seq+"], ["in", 1, "index+"], ["out", 0, "amount+"], ["out", 1, "script0"],
          ["outs-swap", 0, 1], ["swap-unlock", 0, 1], ["unspent", 0, "amount+"], ["unspent", 1, "script0"], ["unspent", 0, "none"],
          ["ins-swap", 0, 1]]

    def __init__(self, tier, seed):
        Driver.__init__(self, tier, seed)
        self.depth = 2 if tier == "quick" else 3
        self.kinds = ["p2pkh", "p2wsh_ms"] if tier == "quick" else KINDS
        self.bound = dict(depth=self.depth, mutations=len(self.MU), kinds=self.kinds)

    def units(self):
        for coin in ("BTC", "BCH"):
            for kind in self.kinds:
                for ht in ((1, 0x83) if self.tier == "quick" else (1, 0x83, 2)):
                    for seq in itertools.product(range(len(self.MU)), repeat=self.depth):
                        yield dict(coin=coin, kind=kind, ht=ht, seq=list(seq), seed=self.seed)

    def run(self, case):
        coin = case["coin"]
        try:
            sc = Signed(coin, case["kind"], case["ht"], case.get("seed", 0))
        except Exception as e:
            return BAD("setup", "scenario signs", "EXC %s" % type(e).__name__, clause="setup")
        tx = sc.tx
        Tx = tx.__class__
        flags_impl = STD if coin not in FORKID else STD & ~R.STRICTENC
        nsteps = 0

        def verdicts(t):
            return [bool(t.is_solution_ok(i, flags=flags_impl)) for i in range(len(t.txs_in))], t.bad_solution_count(flags=flags_impl)

        def fresh():
            f = Tx.from_bin(tx.as_bin())
            f.unspents = [None if u is None else Tx.TxOut(u.coin_value, bytes(u.script)) for u in tx.unspents]
            return f
        snap0 = tx.as_bin()
        try:
            base = verdicts(tx)
            classes = set()
            for pos, mi in enumerate(case["seq"]):
                saved = (tx.version, tx.lock_time, [(i.previous_hash, i.previous_index, i.script, i.sequence, list(i.witness)) for i in tx.txs_in],
                         [(o.coin_value, o.script) for o in tx.txs_out], list(tx.unspents), list(tx.txs_in), list(tx.txs_out))
                apply_mutation(tx, self.MU[mi])
                for phase in ("mutated", "undone"):
                    a = verdicts(tx)
                    a2 = verdicts(tx)          # repeated validation on the same object
                    b = verdicts(fresh())
                    nsteps += 3
                    if a != b or a != a2:
                        return BAD("stale-verdict", "fresh object says %r" % (b,), "same object says %r then %r (%s, after %r)" % (a, a2, phase, self.MU[mi]),
                                   clause="stale-verdict", n=nsteps)
                    classes.add(tuple(a[0]))
                    if phase == "mutated" and mi % 2 == 0:
                        # undo on even mutations, keep odd ones applied (so later mutations start from non-initial states)
                        tx.version, tx.lock_time = saved[0], saved[1]
                        tx.txs_in[:] = saved[5]
                        tx.txs_out[:] = saved[6]
                        for ti, s in zip(tx.txs_in, saved[2]):
                            ti.previous_hash, ti.previous_index, ti.script, ti.sequence, ti.witness = s[0], s[1], s[2], s[3], s[4]
                        for to, s in zip(tx.txs_out, saved[3]):
                            to.coin_value, to.script = s
                        tx.unspents = saved[4]
                        if verdicts(tx) != base and all(m % 2 == 0 for m in case["seq"][:pos + 1]):
                            return BAD("stale-verdict", "verdicts after undo equal the original %r" % (base,), repr(verdicts(tx)), clause="undo", n=nsteps)
                    else:
                        break
        except Exception as e:
            return BAD("validate-raises", "validation returns", "EXC %s: %s" % (type(e).__name__, e), clause="validate-raises")
        return OK("verdict-classes-%d" % len(classes), n=nsteps)

    def nontrivial(self, cls):
        return cls != "verdict-classes-1"


DRIVERS = [Mutations, Histories]
ASSUMPTIONS = ["expected verdict of a mutated transaction = reference interpreter verdict under the standard flags; the reference is "
               "cross-checked on every case against a field-level commitment view (disagreement = MODEL-INVALID, not a violation)",
               "a mutated digest invalidates an ECDSA signature (probability of accidental validity 2^-256)"]
