"""C07 - transactions round-trip through the wire format and have stable ids (Mode I).

C07.tx          deviation-bounded product of boundary alphabets for every field of a transaction (version, lock time,
                input/output counts, script lengths across the compact-size boundaries, 64-bit amounts, sequences,
                outpoints, every mixture of witness kinds for <= 3 inputs, the spent-output extension) x 5 coin classes.
                Oracle: vf.ref.wire (independent BIP144/legacy serialiser + parser, double-SHA256 ids).
C07.spendable   full product of boundary alphabets for the seven fields of a Spendable x its text / dict / binary forms.

The helpers at the top (descriptor -> reference structure -> pycoin object -> observed fields) are shared with
c14 / c16 / c20.
"""
import io
import itertools

from ..engine import Driver, OK, BAD, ModelInvalid, seed_bytes
from ..ref import wire

COINS = ("BTC", "LTC", "BCH", "BTG", "GRS")
_NET = {}


def network(code):
    if code not in _NET:
        from pycoin.networks.registry import network_for_netcode
        _NET[code] = network_for_netcode(code)
    return _NET[code]


def tx_class(code):
    return network(code).tx


# ---------------------------------------------------------------- concrete bytes from compact descriptors

_UNITS = {}


def patbytes(n, salt=0):
    """n bytes, position dependent (so that shifted / truncated / swapped content is visible), never all equal"""
    unit = _UNITS.get(salt)
    if unit is None:
        unit = _UNITS[salt] = bytes(((salt * 17 + 1 + i * 7 + (i >> 8) * 3) & 0xff) for i in range(1024))
    return (unit * (n // 1024 + 1))[:n]


def mkbytes(d):
    """hex string | [length, salt]"""
    if isinstance(d, str):
        return bytes.fromhex(d)
    return patbytes(int(d[0]), int(d[1]))


def ival(x):
    return int(x)


def ref_tx(desc):
    """JSON transaction descriptor -> vf.ref.wire transaction"""
    return {"version": ival(desc["version"]), "lock_time": ival(desc["lock_time"]),
            "ins": [{"prev": mkbytes(i["prev"]), "index": ival(i["index"]), "script": mkbytes(i["script"]),
                     "sequence": ival(i["sequence"]), "witness": [mkbytes(w) for w in i.get("witness", [])]}
                    for i in desc["ins"]],
            "outs": [{"value": ival(o["value"]), "script": mkbytes(o["script"])} for o in desc["outs"]]}


def simple_tx_desc(n_in=1, n_out=1, witness=(), salt=0, version=1, lock_time=0):
    """small helper for the other drivers: a minimal transaction; witness = tuple of per-input witness kinds"""
    ins = []
    for k in range(n_in):
        wk = witness[k] if k < len(witness) else "none"
        ins.append({"prev": bytes([(salt + k + 1) & 0xff] * 32).hex(), "index": k, "script": [2 + (salt & 3), salt + k],
                    "sequence": 0xffffffff, "witness": witness_items(wk, salt + k)})
    outs = [{"value": 1000 + salt * 10 + k, "script": [3, salt + 40 + k]} for k in range(n_out)]
    return {"version": version, "lock_time": lock_time, "ins": ins, "outs": outs}


WITNESS_KINDS = ("none", "e", "ee", "x", "ex", "n253", "i253", "i65536")
WITNESS_KINDS_MORE = ("i252", "i65535", "xe", "i131072")


def witness_items(kind, salt=0):
    """witness stack descriptors for one input"""
    if kind == "none":
        return []
    if kind == "e":
        return [""]
    if kind == "ee":
        return ["", ""]
    if kind == "x":
        return [[5, salt]]
    if kind == "ex":
        return ["", [5, salt]]
    if kind == "xe":
        return [[5, salt], ""]
    if kind == "n253":
        return [([1, salt + k] if k % 3 else "") for k in range(253)]
    if kind[0] == "i":
        return [[int(kind[1:]), salt]]
    raise ValueError(kind)


def build_tx(T, r):
    """pycoin transaction of class T from a reference transaction (all constructor calls are pycoin code)"""
    ins = []
    for i in r["ins"]:
        ins.append(T.TxIn(i["prev"], i["index"], i["script"], i["sequence"]))
    outs = [T.TxOut(o["value"], o["script"]) for o in r["outs"]]
    tx = T(r["version"], ins, outs, r["lock_time"])
    for k, i in enumerate(r["ins"]):
        if len(i["witness"]) > 0:
            tx.set_witness(k, list(i["witness"]))
    return tx


def tx_fields(tx):
    """observe a pycoin transaction field by field, as a reference transaction"""
    return {"version": tx.version, "lock_time": tx.lock_time,
            "ins": [{"prev": bytes(i.previous_hash), "index": i.previous_index, "script": bytes(i.script),
                     "sequence": i.sequence, "witness": [bytes(w) for w in i.witness]} for i in tx.txs_in],
            "outs": [{"value": o.coin_value, "script": bytes(o.script)} for o in tx.txs_out]}


def diff_tx(a, b):
    """first difference between two reference-form transactions, or None"""
    for k in ("version", "lock_time"):
        if a[k] != b[k] or type(a[k]) is not type(b[k]):
            return "%s: %r vs %r" % (k, a[k], b[k])
    if len(a["ins"]) != len(b["ins"]):
        return "input count %d vs %d" % (len(a["ins"]), len(b["ins"]))
    if len(a["outs"]) != len(b["outs"]):
        return "output count %d vs %d" % (len(a["outs"]), len(b["outs"]))
    for n, (x, y) in enumerate(zip(a["ins"], b["ins"])):
        for k in ("prev", "index", "script", "sequence"):
            if x[k] != y[k]:
                return "input %d %s: %s vs %s" % (n, k, short(x[k]), short(y[k]))
        if list(x["witness"]) != list(y["witness"]):
            return "input %d witness: %d items %s vs %d items %s" % (
                n, len(x["witness"]), [len(w) for w in x["witness"]][:6], len(y["witness"]), [len(w) for w in y["witness"]][:6])
    for n, (x, y) in enumerate(zip(a["outs"], b["outs"])):
        for k in ("value", "script"):
            if x[k] != y[k]:
                return "output %d %s: %s vs %s" % (n, k, short(x[k]), short(y[k]))
    return None


def short(v):
    if isinstance(v, (bytes, bytearray)):
        h = bytes(v).hex()
        return h if len(h) <= 80 else "%s..(%d bytes)" % (h[:64], len(v))
    return repr(v)


def exc(e):
    return "EXC %s: %s" % (type(e).__name__, str(e)[:160])


def first_diff(a, b):
    n = min(len(a), len(b))
    for i in range(n):
        if a[i] != b[i]:
            return "lengths %d/%d, first difference at byte %d: ..%s vs ..%s" % (len(a), len(b), i, a[max(0, i - 4):i + 8].hex(), b[max(0, i - 4):i + 8].hex())
    return "lengths %d/%d, common prefix equal" % (len(a), len(b))


def tx_id_hash(code, stripped_or_full):
    """transaction hash function of the coin: double-SHA256, Groestlcoin: single SHA256"""
    if code == "GRS":
        return wire.sha256(stripped_or_full)
    return wire.dsha256(stripped_or_full)


# ---------------------------------------------------------------- C07.tx

U32 = 2 ** 32 - 1
AXES = [  # name, alphabet (first = base value)
    ("version", [1, 0, 2, 2 ** 31, U32]),
    ("lock_time", [0, 1, 2, 2 ** 31, U32]),
    ("n_out", [1, 0, 2, 252, 253]),
    ("in_script", [1, 0, 75, 76, 252, 253, 65535, 65536, 131072]),
    ("out_script", [1, 0, 75, 76, 252, 253, 65535, 65536]),
    ("amount", [1, 0, 2 ** 63 - 1, 2 ** 63, 2 ** 64 - 1]),
    ("sequence", [U32, 0, 1, 2 ** 31, U32 - 1]),
    ("prev", ["A", "zero", "ff", "null"]),          # "null" = the coinbase outpoint (zero hash AND index 2^32-1) as ONE deviation
    ("index", [0, 1, U32]),
    ("unspents", ["none", "std", "big", "zero"]),
]
AXES_THOROUGH_EXTRA = {"in_script": [77, 254, 65534], "out_script": [77, 254, 131072, 196608], "amount": [2 ** 32, 2 ** 32 - 1],
                       "n_out": [3, 254]}


def shapes(tier):
    """(n_in, witness kinds per input): every mixture for n_in <= 3, four mixtures for 252 / 253 inputs"""
    kinds = WITNESS_KINDS
    out = []
    for n in (1, 2, 3):
        for ws in itertools.product(kinds, repeat=n):
            out.append((n, list(ws)))
    for n in (252, 253) + ((254,) if tier == "thorough" else ()):
        out.append((n, ["none"] * n))
        out.append((n, ["x"] * n))
        out.append((n, ["none"] * (n - 1) + ["e"]))
        out.append((n, ["x"] + ["none"] * (n - 1)))
    if tier == "thorough":
        for k in WITNESS_KINDS_MORE:
            out.append((1, [k]))
            out.append((2, ["none", k]))
            out.append((2, [k, "none"]))
    return out


def compress_ws(ws):
    """run-length form for the case JSON: [[kind, count], ...]"""
    out = []
    for k in ws:
        if out and out[-1][0] == k:
            out[-1][1] += 1
        else:
            out.append([k, 1])
    return out


def expand_ws(rle):
    out = []
    for k, c in rle:
        out.extend([k] * int(c))
    return out


def expand_case(case):
    """symbolic-but-complete case -> (transaction descriptor, unspents descriptor list or None).
    Per-input / per-output deviations apply to the LAST input / output; the others keep base values with distinct
    indices, so that reordering is visible."""
    ax = case["axes"]
    ws = expand_ws(ax["witness"])
    n_in = len(ws)
    prev = {"A": case["prevA"], "zero": "00" * 32, "ff": "ff" * 32, "null": "00" * 32}
    ins = []
    for k in range(n_in):
        last = k == n_in - 1
        ins.append({"prev": prev[ax["prev"]] if last else prev["A"],
                    "index": (U32 if ax["prev"] == "null" else ax["index"]) if last else 100 + k,
                    "script": [ax["in_script"], k] if last else [1, k],
                    "sequence": ax["sequence"] if last else U32 - 2 - k,
                    "witness": witness_items(ws[k], k)})
    outs = []
    n_out = ax["n_out"]
    for k in range(n_out):
        last = k == n_out - 1
        outs.append({"value": ax["amount"] if last else 7 + k, "script": [ax["out_script"], 50 + k] if last else [1, 50 + k]})
    desc = {"version": ax["version"], "lock_time": ax["lock_time"], "ins": ins, "outs": outs}
    u = ax["unspents"]
    unspents = None
    if u == "std":
        unspents = [{"value": 1 + k, "script": [1, 90 + k]} for k in range(n_in)]
    elif u == "big":
        unspents = [{"value": 2 ** 64 - 1 - k, "script": [253 if k == n_in - 1 else 2, 90 + k]} for k in range(n_in)]
    elif u == "zero":
        unspents = [{"value": 0 if k == 0 else 5, "script": [1, 90 + k]} for k in range(n_in)]
    return desc, unspents


class Transactions(Driver):
    id = "C07.tx"
    rule = ("one state = one concrete transaction of one coin class: base transaction with <= k fields moved to a boundary "
            "value, every witness mixture for <= 3 inputs; non-trivial = extended (BIP144) form, a compact-size "
            "prefix wider than one byte, an amount >= 2^63 or an appended spent-output extension")

    def __init__(self, tier, seed):
        Driver.__init__(self, tier, seed)
        self.k = 2 if tier == "quick" else 3
        self.axes = []
        for name, alph in AXES:
            alph = list(alph)
            if tier == "thorough":
                alph += AXES_THOROUGH_EXTRA.get(name, [])
            self.axes.append((name, alph))
        self.shapes = shapes(tier)
        self.prevA = bytes(range(0xa0, 0xc0)).hex() if seed == 0 else seed_bytes(seed, "c07.prevA", 32).hex()
        self.bound = dict(deviation=self.k, coins=list(COINS), axes={n: [str(v) for v in a] for n, a in self.axes},
                          shapes="all %d-ary witness mixtures for 1..3 inputs + 4 mixtures for each of 252, 253%s inputs = %d shapes"
                                 % (len(WITNESS_KINDS), ", 254" if tier == "thorough" else "", len(self.shapes)),
                          witness_kinds=list(WITNESS_KINDS) + (list(WITNESS_KINDS_MORE) if tier == "thorough" else []),
                          deviating_position="last input / last output",
                          reduction="3-input witness mixtures on BTC and LTC only" if tier == "quick" else "deviation 3 on BTC and LTC, 2 on BCH/BTG/GRS")

    def units(self):
        for si, (n, ws) in enumerate(self.shapes):
            for coin in COINS:
                if self.tier == "quick" and coin not in ("BTC", "LTC") and n == 3:
                    continue    # BCH/BTG/GRS inherit parse and stream from the BTC class: 3-input mixtures in thorough only
                yield {"coin": coin, "shape": si}
        yield {"coin": "BTC", "shape": 0, "huge": True}

    def execute(self, unit):
        if unit.get("huge"):
            # strings far beyond every consensus limit (the wire format itself has none below 2^32): one field at a time
            base = {nm: al[0] for nm, al in self.axes}
            for size in (4000000, 4000001, 2 ** 24 + 1):
                for field in ("in_script", "out_script", "witness"):
                    ax = dict(base)
                    ax["witness"] = compress_ws(["i%d" % size] if field == "witness" else ["none"])
                    if field != "witness":
                        ax[field] = size
                    case = {"coin": "BTC", "prevA": self.prevA, "axes": ax}
                    yield case, self.run(case)
            return
        n, ws = self.shapes[unit["shape"]]
        k = self.k
        if self.tier == "thorough" and unit["coin"] not in ("BTC", "LTC"):
            k = 2       # BCH/BTG/GRS inherit parse and stream from the BTC class: deviation 3 on BTC and LTC only
        budget = k - (0 if unit["shape"] == 0 else 1)
        # very wide transactions: the heavy 65 535 / 65 536-byte values stay (one script only), fine
        names = [a[0] for a in self.axes]
        base = {nm: al[0] for nm, al in self.axes}
        for r in range(0, budget + 1):
            for subset in itertools.combinations(range(len(self.axes)), r):
                for vals in itertools.product(*[self.axes[i][1][1:] for i in subset]):
                    ax = dict(base)
                    for i, v in zip(subset, vals):
                        ax[names[i]] = v
                    ax["witness"] = compress_ws(ws)
                    case = {"coin": unit["coin"], "prevA": self.prevA, "axes": ax}
                    yield case, self.run(case)
        if 2 <= n <= 3:
            # a coinbase-style outpoint among several inputs, together with the appended spent outputs (whatever the budget)
            for extra in ({"prev": "null", "unspents": "std"}, {"prev": "null", "unspents": "big"}, {"prev": "zero", "index": U32, "unspents": "std"}):
                ax = dict(base)
                ax.update(extra)
                ax["witness"] = compress_ws(ws)
                case = {"coin": unit["coin"], "prevA": self.prevA, "axes": ax}
                yield case, self.run(case)

    def run(self, case):
        code = case["coin"]
        desc, unspents = expand_case(case)
        R = ref_tx(desc)
        ref_full = wire.ser_tx(R)
        ref_stripped = wire.ser_tx_legacy(R)
        extended = wire.has_witness(R)
        some_empty = any(len(i["witness"]) == 0 for i in R["ins"])
        flags = ["bip144" + ("-mixed" if some_empty else "") if extended else "legacy"]
        widths = [len(wire.compact_size(len(R["ins"]))), len(wire.compact_size(len(R["outs"])))]
        for i in R["ins"]:
            widths.append(len(wire.compact_size(len(i["script"]))))
            widths.append(len(wire.compact_size(len(i["witness"]))))
            for w in i["witness"]:
                widths.append(len(wire.compact_size(len(w))))
        for o in R["outs"]:
            widths.append(len(wire.compact_size(len(o["script"]))))
        if max(widths) > 1:
            flags.append("cs%d" % max(widths))
        if any(o["value"] >= 2 ** 63 for o in R["outs"]):
            flags.append("amt63")
        if not extended and any(len(i["witness"]) for i in R["ins"]):
            raise AssertionError("unreachable")
        n = 0
        T = tx_class(code)
        # 1. serialise
        try:
            P = build_tx(T, R)
            got = P.as_bin()
            n += 1
        except Exception as e:
            return BAD("serialise-raises", "as_bin() = reference bytes", exc(e), clause="tx-stream")
        if got != ref_full:
            return BAD("serialise-differs", "as_bin() = standard wire bytes (%s form) %s" % ("BIP144" if extended else "legacy", short(ref_full)),
                       "as_bin() %s; %s" % (short(got), first_diff(ref_full, got)), clause="tx-stream")
        # 2. parse what was serialised / parse reference bytes / re-serialise
        try:
            P2 = T.from_bin(ref_full)
            f2 = tx_fields(P2)
            again = P2.as_bin()
            n += 2
        except Exception as e:
            return BAD("parse-raises", "from_bin(reference bytes) parses", exc(e), clause="tx-parse")
        d = diff_tx(R, f2)
        if d:
            return BAD("parse-differs", "from_bin(as_bin()) equal field by field", d, clause="tx-parse")
        if again != ref_full:
            return BAD("reserialise-differs", "from_bin(b).as_bin() == b", first_diff(ref_full, again), clause="tx-parse")
        try:
            f = io.BytesIO(ref_full + b"\xaa\xbb\xcc")
            P3 = T.parse(f)
            pos = f.tell()
            f3 = tx_fields(P3)
            n += 1
        except Exception as e:
            return BAD("parse-raises", "parse(stream) parses", exc(e), clause="tx-parse")
        if pos != len(ref_full) or diff_tx(R, f3):
            return BAD("parse-consumes", "parse(stream) consumes exactly the %d bytes of the transaction" % len(ref_full),
                       "consumed %d; %s" % (pos, diff_tx(R, f3)), clause="tx-parse")
        # 3. hex form
        try:
            hx = P.as_hex()
            P4 = T.from_hex(ref_full.hex())
            f4 = tx_fields(P4)
            n += 2
        except Exception as e:
            return BAD("hex-raises", "as_hex/from_hex work", exc(e), clause="tx-hex")
        if hx != ref_full.hex() or diff_tx(R, f4):
            return BAD("hex-differs", "as_hex() = hex of the wire bytes, from_hex inverse", "%s / %s" % (short(hx), diff_tx(R, f4)), clause="tx-hex")
        # 4. ids
        want_hash = tx_id_hash(code, ref_stripped)
        want_whash = tx_id_hash(code, ref_full)
        try:
            ids = (bytes(P.hash()), P.id(), bytes(P.w_hash()), P.w_id(), bytes(P2.hash()), P2.id(), bytes(P2.w_hash()))
            n += 7
        except Exception as e:
            return BAD("id-raises", "hash()/id()/w_hash()/w_id() work", exc(e), clause="tx-id")
        want = (want_hash, want_hash[::-1].hex(), want_whash, want_whash[::-1].hex(), want_hash, want_hash[::-1].hex(), want_whash)
        if ids != want:
            which = [nm for nm, a, b in zip(("hash", "id", "w_hash", "w_id", "parsed.hash", "parsed.id", "parsed.w_hash"), ids, want) if a != b]
            return BAD("id-differs", "txid = H(witness-stripped serialisation) %s, wtxid = H(full) %s" % (want[1], want[3]),
                       "%s differ: id()=%s w_id()=%s" % (which, ids[1], ids[3]), clause="tx-id")
        if (want_hash != want_whash) != extended:
            raise ModelInvalid("reference ids: witness coverage")
        # 4b. the witness-stripped serialisation itself, through every route that offers it
        try:
            f = io.BytesIO()
            P.stream(f, include_witness_data=False)
            stripped = (P.as_bin(include_witness_data=False), P.as_hex(include_witness_data=False), f.getvalue())
            n += 3
        except Exception as e:
            return BAD("stripped-raises", "as_bin / as_hex / stream(include_witness_data=False) work", exc(e), clause="tx-stripped")
        if stripped != (ref_stripped, ref_stripped.hex(), ref_stripped):
            which = [nm for nm, a, b in zip(("as_bin", "as_hex", "stream"), stripped, (ref_stripped, ref_stripped.hex(), ref_stripped)) if a != b]
            return BAD("stripped-differs", "witness-stripped serialisation %s" % short(ref_stripped), "%s(include_witness_data=False) differ" % which,
                       clause="tx-stripped")
        # 5. appended spent outputs
        if unspents is not None:
            RU = [{"value": ival(u["value"]), "script": mkbytes(u["script"])} for u in unspents]
            ref_u = ref_full + wire.ser_unspents(RU)
            try:
                P.set_unspents([T.TxOut(u["value"], u["script"]) for u in RU])
                got_u = P.as_bin(include_unspents=True)
                P5 = T.from_bin(got_u)
                f5 = tx_fields(P5)
                un5 = [None if u is None else {"value": u.coin_value, "script": bytes(u.script)} for u in P5.unspents]
                again_u = P5.as_bin(include_unspents=True)
                n += 3
            except Exception as e:
                return BAD("unspents-raises", "as_bin(include_unspents=True) / from_bin work", exc(e), clause="tx-unspents")
            if any(u["value"] == 0 for u in RU):
                # the property covers the extension "for non-zero amounts" only: record what happens
                same = un5 == RU and again_u == got_u
                return OK("+".join(flags) + "+unspents-zero-amount:" + ("kept" if same else "dropped"), n=n)
            if got_u != ref_u:
                return BAD("unspents-differs", "transaction bytes followed by one TxOut per input", first_diff(ref_u, got_u), clause="tx-unspents")
            if diff_tx(R, f5) or un5 != RU or again_u != ref_u:
                return BAD("unspents-roundtrip", "from_bin restores transaction and spent outputs", "tx: %s; unspents: %s" % (
                    diff_tx(R, f5), [(u and (u["value"], short(u["script"]))) for u in un5][:4]), clause="tx-unspents")
            flags.append("unspents")
        return OK("+".join(flags), n=n)

    def nontrivial(self, cls):
        return cls != "legacy"

    def selfcheck(self):
        try:
            n = wire.selfcheck()
        except ModelInvalid:
            raise
        except Exception as e:
            raise ModelInvalid("vf.ref.wire: %s: %s" % (type(e).__name__, e))
        # reference parser inverts reference serialiser on the corner shapes of this driver
        for n_in, ws in self.shapes[:80]:
            case = {"coin": "BTC", "prevA": self.prevA, "axes": dict({nm: al[-1] for nm, al in self.axes}, witness=compress_ws(ws), n_out=2, unspents="none")}
            desc, _ = expand_case(case)
            R = ref_tx(desc)
            b = wire.ser_tx(R)
            back = wire.parse_tx(b)
            if diff_tx(R, back) or wire.ser_tx(back) != b or wire.total_size(R) != len(b) or wire.stripped_size(R) != len(wire.ser_tx_legacy(R)):
                raise ModelInvalid("vf.ref.wire parse/serialise not inverse on %r" % (case,))
            n += 1
        return n


# ---------------------------------------------------------------- C07.spendable

SP_FORMS = ("text", "dict", "bin-parse", "bin-roundtrip")


class Spendables(Driver):
    id = "C07.spendable"
    rule = ("one state = one Spendable (7 fields from boundary alphabets, full product; spent flag from the constructor or re-assigned as a "
            "bool on the finished object) in one of its forms; "
            "non-trivial = any field off its default / a compact-size boundary crossed")

    def __init__(self, tier, seed):
        Driver.__init__(self, tier, seed)
        big = tier == "thorough"
        A = bytes(range(1, 33)).hex() if seed == 0 else seed_bytes(seed, "c07.sp.hash", 32).hex()
        self.alph = dict(
            value=[0, 1, 2 ** 63 - 1, 2 ** 63, 2 ** 64 - 1] + ([2 ** 32, 21 * 10 ** 14] if big else []),
            script=[0, 1, 252, 253] + ([75, 76, 65535, 65536] if big else [65536]),
            tx_hash=[A, "00" * 32, "ff" * 32],
            index=[0, 1, 253, U32] + ([252, 65535, 65536] if big else []),
            bia=[0, 1, 252, 253, 65535, 65536, U32, U32 + 1] if big else [0, 1, 253, 65536, U32 + 1],
            spent=[0, 1],
            bis=[0, 1, 252, 253, 65535, 65536, U32, U32 + 1] if big else [0, 252, 253, 65535, U32],
        )
        self.bound = dict(product="full", forms=list(SP_FORMS), alphabets={k: [str(x) for x in v] for k, v in self.alph.items()})

    def units(self):
        for value in self.alph["value"]:
            for script in self.alph["script"]:
                for h in self.alph["tx_hash"]:
                    yield dict(value=value, script=[script, 9], tx_hash=h)

    def execute(self, unit):
        a = self.alph
        for index, bia, spent, bis in itertools.product(a["index"], a["bia"], a["spent"], a["bis"]):
            for form in SP_FORMS:
                case = dict(unit, index=index, block_index_available=bia, spent=spent, block_index_spent=bis, form=form)
                yield case, self.run(case)
                if form != "bin-parse":
                    # the flag re-assigned on the finished object as a bool, the way the library's own wallet marks records
                    case = dict(case, flag_by="attr-bool")
                    yield case, self.run(case)

    def run(self, case):
        S = {"value": ival(case["value"]), "script": mkbytes(case["script"]), "tx_hash": mkbytes(case["tx_hash"]),
             "index": ival(case["index"]), "block_index_available": ival(case["block_index_available"]),
             "spent": ival(case["spent"]), "block_index_spent": ival(case["block_index_spent"])}
        form = case["form"]
        Sp = tx_class("BTC").Spendable

        def fields(s):
            return {"value": s.coin_value, "script": bytes(s.script), "tx_hash": bytes(s.tx_hash), "index": s.tx_out_index,
                    "block_index_available": s.block_index_available, "spent": int(s.does_seem_spent),
                    "block_index_spent": s.block_index_spent}

        def diff(f):
            for k in S:
                if f[k] != S[k]:
                    return "%s: %s vs %s" % (k, short(S[k]), short(f[k]))
            return None

        cls = form + (":boundary" if (S["block_index_available"] >= 253 or S["block_index_spent"] >= 253 or len(S["script"]) >= 253
                                      or S["value"] >= 2 ** 63) else ":small")
        try:
            sp = Sp(S["value"], S["script"], S["tx_hash"], S["index"], S["block_index_available"], bool(S["spent"]), S["block_index_spent"])
            if diff(fields(sp)):
                return BAD("constructor", "constructor keeps the fields", diff(fields(sp)), clause="spendable-ctor")
            if case.get("flag_by") == "attr-bool":
                sp.does_seem_spent = bool(S["spent"])
                cls += ":flag-assigned"
        except Exception as e:
            return BAD("constructor", "Spendable(...) constructs", exc(e), clause="spendable-ctor")
        if form == "text":
            want = wire.spendable_text(S)
            try:
                t = sp.as_text()
                back = fields(Sp.from_text(t))
                back2 = fields(Sp.from_text(want))
            except Exception as e:
                return BAD("text-raises", "as_text/from_text work", exc(e), n=2, clause="spendable-text")
            if diff(back) or diff(back2):
                return BAD("text-roundtrip", "from_text(as_text()) equal field by field", "%s (text %s)" % (diff(back) or diff(back2), t[:120]), n=2, clause="spendable-text")
            if t != want:
                # the exact text layout is not a published standard: the round trip above is what the property demands
                return OK(cls + ":layout-differs", n=3)
            return OK(cls, n=3)
        if form == "dict":
            try:
                d = sp.as_dict()
                back = fields(Sp.from_dict(d))
                import json
                back2 = fields(Sp.from_dict(json.loads(json.dumps(d))))
            except Exception as e:
                return BAD("dict-raises", "as_dict/from_dict work (also through JSON)", exc(e), n=2, clause="spendable-dict")
            if diff(back) or diff(back2):
                return BAD("dict-roundtrip", "from_dict(as_dict()) equal field by field", diff(back) or diff(back2), n=2, clause="spendable-dict")
            return OK(cls, n=3)
        ref = wire.ser_spendable(S)
        if form == "bin-parse":
            # the parse side alone, on bytes produced by the reference (so that it is judged even if streaming is broken)
            try:
                back = fields(Sp.from_bin(ref))
                f = io.BytesIO(ref + b"\x55\x66")
                back2 = fields(Sp.parse(f))
                pos = f.tell()
            except Exception as e:
                return BAD("bin-parse-raises", "from_bin(binary record) parses", exc(e), n=2, clause="spendable-bin-parse")
            if diff(back) or diff(back2) or pos != len(ref):
                return BAD("bin-parse-differs", "from_bin(record) gives the recorded fields, consuming %d bytes" % len(ref),
                           "%s, consumed %d" % (diff(back) or diff(back2), pos), n=2, clause="spendable-bin-parse")
            return OK(cls, n=2)
        # bin-roundtrip
        try:
            b = sp.as_bin(as_spendable=True)
        except Exception as e:
            return BAD("bin-stream-raises", "as_bin(as_spendable=True) produces the binary record", exc(e), clause="spendable-bin-stream")
        try:
            back = fields(Sp.from_bin(b))
        except Exception as e:
            return BAD("bin-roundtrip-raises", "from_bin(as_bin(as_spendable=True)) parses", exc(e), n=2, clause="spendable-bin-roundtrip")
        if diff(back):
            return BAD("bin-roundtrip", "from_bin(as_bin(as_spendable=True)) equal field by field", diff(back), n=2, clause="spendable-bin-roundtrip")
        try:
            plain = sp.as_bin()
        except Exception as e:
            return BAD("bin-stream-raises", "as_bin() produces the TxOut bytes", exc(e), clause="spendable-bin-stream")
        if plain != wire.ser_txout(S):
            return BAD("bin-txout", "as_bin() without flag = TxOut wire bytes", first_diff(wire.ser_txout(S), plain), clause="spendable-bin-stream")
        if b != ref:
            return OK(cls + ":layout-differs", n=3)
        return OK(cls, n=3)

    def nontrivial(self, cls):
        return ":boundary" in cls

    def selfcheck(self):
        S = {"value": 2 ** 64 - 1, "script": b"\x51", "tx_hash": bytes(range(32)), "index": 7, "block_index_available": 253,
             "spent": 1, "block_index_spent": 0}
        want = "ffffffffffffffff" + "0151" + bytes(range(32)).hex() + "07000000" + "fdfd00" + "01" + "00"
        if wire.ser_spendable(S).hex() != want:
            raise ModelInvalid("spendable record layout")
        if wire.spendable_text(S) != bytes(range(32))[::-1].hex() + "/7/51/18446744073709551615/253/1/0":
            raise ModelInvalid("spendable text layout")
        return 2


ASSUMPTIONS = [
    "fields take values from the stated boundary alphabets; at most k fields deviate from the base transaction at once (k = 2 quick, 3 thorough); per-input/per-output deviations sit on the last input/output",
    "transaction ids of the Groestlcoin class use single SHA-256 (that coin's definition); all other classes double SHA-256",
    "rejection of truncated or otherwise malformed serialisations is not part of the property and is not asserted",
    "the spent-output extension is asserted for non-zero amounts only (a zero amount reads back as None by design; recorded as an outcome class)",
    "the binary spendable record is a library-specific format; its layout is taken from the documented field order (TxOut, tx hash, index u32, block index (compact size), spent flag, block index (compact size)); only the round trip and field-exact parsing of that record are asserted",
]


class History(Driver):
    """Mode S: serialisation and ids of ONE transaction object must follow its current fields after any sequence of edits."""
    id = "C07.history"
    rule = ("state = one Tx object after a history of <= 3 operations from {observe (as_bin, as_hex, id, w_id), give input i a witness by "
            "direct assignment / by set_witness, remove it, change lock_time, append an output}; after every operation bytes, id and "
            "w_id must equal the reference serialisation of the current fields (and of a fresh object built from them); "
            "non-trivial = history that switches between witness and no witness")

    OPS = ["observe", "w0=x", "w0=none", "w1=ex:set_witness", "w1=none:set_witness", "lock+1", "add-output", "w1.append-in-place"]

    def __init__(self, tier, seed):
        Driver.__init__(self, tier, seed)
        self.depth = 3 if tier == "quick" else 4
        self.bound = dict(ops=self.OPS, depth=self.depth, coins=list(COINS), starts=["no-witness", "witness"])

    def units(self):
        for coin in COINS:
            for start in ("no-witness", "witness"):
                yield dict(coin=coin, start=start)

    def execute(self, unit):
        for ln in range(1, self.depth + 1):
            for seq in itertools.product(range(len(self.OPS)), repeat=ln):
                case = dict(coin=unit["coin"], start=unit["start"], ops=[self.OPS[i] for i in seq])
                yield case, self.run(case)

    def run(self, case):
        T = tx_class(case["coin"])
        desc = simple_tx_desc(n_in=2, n_out=2, witness=("x", "none") if case["start"] == "witness" else ())
        model = ref_tx(desc)
        try:
            tx = build_tx(T, model)
        except Exception as e:
            return BAD("build-raises", "transaction can be built", exc(e), clause="history-build")
        switched = 0
        ncalls = 0
        for step, op in enumerate(["observe"] + list(case["ops"]) + ["observe"]):
            before = wire.has_witness(model)
            try:
                if op == "w0=x":
                    tx.txs_in[0].witness = [b"\x01\x02\x03"]
                    model["ins"][0]["witness"] = [b"\x01\x02\x03"]
                elif op == "w0=none":
                    tx.txs_in[0].witness = []
                    model["ins"][0]["witness"] = []
                elif op == "w1=ex:set_witness":
                    tx.set_witness(1, [b"", b"\x07"])
                    model["ins"][1]["witness"] = [b"", b"\x07"]
                elif op == "w1=none:set_witness":
                    tx.set_witness(1, [])
                    model["ins"][1]["witness"] = []
                elif op == "w1.append-in-place":
                    w = tx.txs_in[1].witness
                    if isinstance(w, list):
                        w.append(b"\x09")                      # mutate the stack object itself
                    else:
                        tx.txs_in[1].witness = list(w) + [b"\x09"]
                    model["ins"][1]["witness"] = list(model["ins"][1]["witness"]) + [b"\x09"]
                elif op == "lock+1":
                    tx.lock_time += 1
                    model["lock_time"] += 1
                elif op == "add-output":
                    tx.txs_out.append(T.TxOut(5, b"\x51"))
                    model["outs"].append({"value": 5, "script": b"\x51"})
                if before != wire.has_witness(model):
                    switched += 1
                want = (wire.ser_tx(model), tx_id_hash(case["coin"], wire.ser_tx_legacy(model))[::-1].hex(),
                        tx_id_hash(case["coin"], wire.ser_tx(model))[::-1].hex())
                got = (tx.as_bin(), tx.id(), tx.w_id())
                hexform = tx.as_hex()
                ncalls += 4
            except Exception as e:
                return BAD("history-raises", "operation %r works" % op, "step %d: %s" % (step, exc(e)), clause="history-raises", n=ncalls)
            # an unrelated transaction built afterwards must not have picked anything up (state shared between objects)
            try:
                other_model = ref_tx(simple_tx_desc(n_in=1, n_out=1, salt=9))
                other = build_tx(T, other_model).as_bin()
                reparsed = T.from_bin(wire.ser_tx(other_model)).as_bin()
            except Exception as e:
                return BAD("history-raises", "a fresh transaction can be built", exc(e), clause="history-raises", n=ncalls)
            if other != wire.ser_tx(other_model) or reparsed != wire.ser_tx(other_model):
                return BAD("history-leaks", "a fresh legacy transaction serialises as %s" % short(wire.ser_tx(other_model)),
                           "built: %s parsed+reserialised: %s (after %r on another object)" % (short(other), short(reparsed), op), clause="history-leak", n=ncalls, step=step)
            if got != want or hexform != want[0].hex():
                what = "bytes" if got[0] != want[0] else ("id" if got[1] != want[1] else ("w_id" if got[2] != want[2] else "hex"))
                return BAD("history-differs", "after %r: %s follows the current fields (%s)" % (op, what, short(want[0])),
                           "%s" % (short(got[0]) if what == "bytes" else got[1:],), clause="history-" + what, n=ncalls, step=step)
        return OK("switches-%d" % min(switched, 2), n=ncalls)

    def nontrivial(self, cls):
        return cls != "switches-0"


def CONFIGURATIONS():
    return {"tx_classes": {c: "%s.%s" % (tx_class(c).__module__, tx_class(c).__name__) for c in COINS}}


DRIVERS = [Transactions, Spendables, History]
