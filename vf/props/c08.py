"""C08 - addresses and output scripts are in one-to-one correspondence on every network (Mode I).

Drivers
  C08.params    registry contents and every prefix / HRP of every network against the pinned table
  C08.roundtrip network x kind x payload: script -> address -> script, per-kind parsers, Contract views
  C08.keys      network x key x compression: key.address() == address of the P2PKH script of its hash160;
                BIP32 / BIP49 / BIP84 node addresses
  C08.grid      acceptance grids: every Base58 prefix a network defines (and near misses) x payload length
                0..40 x content; every HRP x witness version x program length x {bech32, bech32m} x variants
  C08.cross     every address produced by network A offered to every network B (all ordered pairs)
  C08.classify  template mutations and all scripts of <= k tokens: info_for_script / for_info faithfulness

The reference (vf.ref.addr) is independent of pycoin; the per-network prefixes come from its pinned table."""
import contextlib
import io
import itertools

from ..engine import Driver, OK, BAD, seed_bytes, seed_int
from ..ref import addr as R

NETS = sorted(R.NETWORK_PARAMS)
KINDS = ("p2pkh", "p2sh", "p2wpkh", "p2wsh", "p2tr")
PYCOIN_TYPE = dict(p2pkh="p2pkh", p2sh="p2sh", p2wpkh="p2pkh_wit", p2wsh="p2sh_wit", p2tr="p2tr")
KIND_PARSER = dict(p2pkh="p2pkh", p2sh="p2sh", p2wpkh="p2pkh_segwit", p2wsh="p2sh_segwit", p2tr="p2tr")
ATTR = dict(address="_address_prefix", p2sh="_pay_to_script_prefix", wif="_wif_prefix", hrp="_bech32_hrp",
            bip32_prv="_bip32_prv_prefix", bip32_pub="_bip32_pub_prefix", bip49_prv="_bip49_prv_prefix",
            bip49_pub="_bip49_pub_prefix", bip84_prv="_bip84_prv_prefix", bip84_pub="_bip84_pub_prefix")

_nets = {}


def have_groestl():
    try:
        import groestlcoin_hash  # noqa
        return True
    except ImportError:
        return False


def grs_absent(code):
    return code in R.GRS_FAMILY and not have_groestl()


def net(code):
    if code not in _nets:
        from pycoin.networks.registry import network_for_netcode
        with contextlib.redirect_stdout(io.StringIO()):
            _nets[code] = network_for_netcode(code)
    return _nets[code]


def call(f, *a, **kw):
    """(True, value) or (False, 'EXC Type: msg'); stdout noise (GRS import message) swallowed"""
    try:
        with contextlib.redirect_stdout(io.StringIO()):
            return True, f(*a, **kw)
    except Exception as e:
        return False, "EXC %s: %s" % (type(e).__name__, str(e)[:120])


def show(v):
    if isinstance(v, (bytes, bytearray)):
        return v.hex()
    return repr(v)[:200]


def payloads(seed, n):
    """label -> n bytes"""
    look = (bytes([0x76, 0xa9, 0x14]) + bytes(range(0x14, 0x40)))[:n]      # looks like the start of a template
    return [("zeros", bytes(n)), ("ff", b"\xff" * n), ("ramp", bytes(range(1, n + 1))),
            ("lookalike", look), ("lead0", b"\0\0" + bytes(range(7, 5 + n))),
            ("seedA", seed_bytes(seed, "c08.A.%d" % n, n)), ("seedB", seed_bytes(seed, "c08.B.%d" % n, n)),
            # hashes whose hex spelling is a decimal numeral / an opcode-like word (script text is assembled from hex tokens)
            ("decimal-hex", bytes.fromhex(("1234567890" * 8)[:2 * n])), ("decimal-hex-9", b"\x99" * n),
            ("hex-letters", bytes.fromhex(("deadbeef" * 10)[:2 * n]))]


def fill(label, n):
    if label == "zeros":
        return bytes(n)
    if label == "ff":
        return b"\xff" * n
    return bytes((i + 1) & 0xff for i in range(n))


def same_text(a, b):
    """address strings equal; bech32 is case-insensitive by BIP173"""
    if a == b:
        return True
    if isinstance(a, str) and isinstance(b, str) and R.bech32_decode(a) is not None and R.bech32_decode(b) is not None:
        return a.lower() == b.lower()
    return False


# ------------------------------------------------------------------------------------------ params

class Params(Driver):
    id = "C08.params"
    rule = ("one case per network (plus one for the registry listing): every prefix/HRP attribute of parse and address "
            "API against the pinned table; non-trivial = network with a two-byte prefix, an HRP or BIP49/84 prefixes")

    def __init__(self, tier, seed):
        Driver.__init__(self, tier, seed)
        self.bound = dict(networks=len(NETS), fields=list(R.FIELDS))

    def units(self):
        yield dict(net="*registry*")
        for code in NETS:
            yield dict(net=code)

    def run(self, case):
        code = case["net"]
        if code == "*registry*":
            from pycoin.networks.registry import network_codes
            ok, v = call(network_codes)
            if not ok:
                return BAD("exception", "network_codes() lists the networks", v, clause="registry")
            if sorted(v) != NETS:
                return BAD("registry-differs", "registered = pinned list %r" % (NETS,), "registered %r" % (sorted(v),), clause="registry")
            return OK("registry")
        ok, n = call(net, code)
        if not ok:
            return BAD("exception", "network loads", n, clause="registry")
        want = R.NETWORK_PARAMS[code]
        for f in R.FIELDS:
            got = getattr(n.parse, ATTR[f], "missing")
            if got != want[f]:
                return BAD("prefix-differs", "%s %s = %s" % (code, f, show(want[f])), "parse API has %s" % show(got),
                           clause="prefix-table", g_field=f)
        for f in ("address", "p2sh", "hrp"):
            got = getattr(n.address, ATTR[f], "missing")
            if got != want[f]:
                return BAD("prefix-differs", "%s %s = %s" % (code, f, show(want[f])), "address API has %s" % show(got),
                           clause="prefix-table", g_field=f)
        if str(n.symbol).upper() != code:
            return BAD("prefix-differs", "symbol %s" % code, n.symbol, clause="prefix-table", g_field="symbol")
        rich = want["hrp"] is not None or want["bip49_prv"] is not None or any(
            want[f] is not None and len(want[f]) > 1 for f in ("address", "p2sh", "wif"))
        return OK("rich" if rich else "trivial-plain", n=len(R.FIELDS) + 4)

    def selfcheck(self):
        return R.selfcheck()


# ------------------------------------------------------------------------------------------ roundtrip

def scribble(info):
    """what a caller may do to a dictionary it was handed: overwrite every entry, empty the lists"""
    for k in list(info):
        if isinstance(info[k], list):
            del info[k][:]
        info[k] = "caller-edit"
    info["type"] = "nulldata"


class RoundTrip(Driver):
    id = "C08.roundtrip"
    rule = ("network x kind x payload; the reference builds script and address, pycoin must produce the same address "
            "for the script, parse it back to the same script through parse.address, the per-kind parser, "
            "contract.for_address and Contract.address(); non-trivial = the network defines the prefix")

    def __init__(self, tier, seed):
        Driver.__init__(self, tier, seed)
        self.bound = dict(networks=len(NETS), kinds=list(KINDS), payloads=[l for l, b in payloads(seed, 20)])

    def units(self):
        for code in NETS:
            for kind in KINDS:
                yield dict(net=code, kind=kind)

    def execute(self, unit):
        for label, p in payloads(self.seed, R.KIND_LEN[unit["kind"]]):
            case = dict(axes=dict(net=unit["net"], kind=unit["kind"], payload=label), data=dict(payload=p.hex()))
            yield case, self.run(case)

    def run(self, case):
        code, kind = case["axes"]["net"], case["axes"]["kind"]
        payload = bytes.fromhex(case["data"]["payload"])
        params = R.NETWORK_PARAMS[code]
        script = R.script_for(kind, payload)
        want = R.produce(params, kind, payload)
        n = net(code)
        calls = 0
        b58 = kind in ("p2pkh", "p2sh")
        if grs_absent(code):
            # Base58 production needs the groestl hash; parse.address is stubbed to None by pycoin itself
            ok, v = call(n.parse.address, want or "x")
            if not ok or v is not None:
                return BAD("absent-config", "GRS parser disabled (returns None)", show(v), clause="grs-stub")
            if not b58 and want is not None:
                ok, v = call(n.address.for_script, script)
                if not ok or v != want:
                    return BAD("address-differs", want, show(v), clause="address-string", kind=kind)
                return OK("absent-grs:bech32-production-only", n=2)
            return OK("trivial-absent-grs", n=1)
        # a caller that edits the description it was handed (to derive a sibling script) must not change what the network
        # says about this script afterwards (Mode S, depth 2 on every case)
        ok, info0 = call(n.contract.info_for_script, script)
        if ok and isinstance(info0, dict):
            scribble(info0)
        ok, info = call(n.contract.info_for_script, script)
        calls += 1
        if not ok or not isinstance(info, dict) or info.get("type") != PYCOIN_TYPE[kind]:
            return BAD("misclassified", "type %s" % PYCOIN_TYPE[kind], show(info), clause="classify-standard", kind=kind)
        ok, got = call(n.address.for_script, script)
        calls += 1
        if want is None:
            if ok and got is None:
                return OK("trivial-no-prefix", n=calls)
            return BAD("address-without-prefix", "None (network defines no prefix for %s)" % kind, show(got),
                       clause="address-string", kind=kind)
        if not ok or got != want:
            return BAD("address-differs", want, show(got), clause="address-string", kind=kind)
        for label, f in (("parse.address", n.parse.address), ("parse." + KIND_PARSER[kind], getattr(n.parse, KIND_PARSER[kind], None)),
                         ("parse.payable", n.parse.payable), ("parse()", n.parse)):
            ok, c = call(f, want)
            calls += 1
            if not ok or c is None:
                return BAD("own-address-refused", "%s(%s) parses" % (label, want), show(c), clause="address-roundtrip", kind=kind)
            ok, s = call(c.script)
            if not ok or s != script:
                return BAD("roundtrip-differs", "%s -> script %s" % (label, script.hex()), show(s), clause="address-roundtrip", kind=kind)
            ok, a = call(c.address)
            if not ok or a != want:
                return BAD("roundtrip-differs", "Contract.address() %s" % want, show(a), clause="address-roundtrip", kind=kind)
            ok, ci = call(c.info)
            if ok and isinstance(ci, dict):
                scribble(ci)              # the next parser (and for_address) must be unaffected
        ok, s = call(n.contract.for_address, want)
        calls += 1
        if not ok or s != script:
            return BAD("roundtrip-differs", "contract.for_address -> %s" % script.hex(), show(s), clause="address-roundtrip", kind=kind)
        # the other per-kind parsers refuse it, unless the reference says the string is ambiguous on this network
        amb = [k for k, p in R.decode_address(params, want)]
        for other in KINDS:
            if other == kind:
                continue
            ok, c = call(getattr(n.parse, KIND_PARSER[other]), want)
            calls += 1
            if not ok:
                return BAD("exception", "parse.%s returns" % KIND_PARSER[other], c, clause="raises:" + KIND_PARSER[other], kind=kind)
            if c is not None and other not in amb:
                return BAD("kind-confusion", "parse.%s(%s) is None" % (KIND_PARSER[other], want), show(c),
                           clause="address-kind-confusion", kind=kind)
        return OK("roundtrip:" + kind, n=calls)

    def selfcheck(self):
        return 0


# ------------------------------------------------------------------------------------------ keys

class Keys(Driver):
    id = "C08.keys"
    rule = ("network x secret {1,2,n-1,seed} x compression: Key.address() = reference address of the P2PKH script of the "
            "reference hash160 of the reference public key; public-only keys; BIP32/49/84 node addresses; "
            "non-trivial = an address string was compared")

    def __init__(self, tier, seed):
        Driver.__init__(self, tier, seed)
        self.secrets = [1, 2, R.N - 1, seed_int(seed, "c08.key", 3, R.N - 2)]
        self.bound = dict(networks=len(NETS), secrets=["1", "2", "n-1", "seed"], compression=[True, False],
                          nodes=["BIP32", "BIP49", "BIP84"], node_paths=["m", "m/0H/1"])

    def units(self):
        for code in NETS:
            yield dict(net=code)

    def execute(self, unit):
        code = unit["net"]
        for k in self.secrets:
            for comp in (True, False):
                case = dict(axes=dict(net=code, what="key", compressed=comp), data=dict(secret=str(k)))
                yield case, self.run(case)
        for cls in ("bip32", "bip49", "bip84"):
            for path in ("", "0H/1"):
                case = dict(axes=dict(net=code, what=cls, path=path), data=dict(master=seed_bytes(self.seed, "c08.master", 16).hex()))
                yield case, self.run(case)

    def run(self, case):
        ax = case["axes"]
        code = ax["net"]
        params = R.NETWORK_PARAMS[code]
        n = net(code)
        absent = grs_absent(code)
        if ax["what"] == "key":
            k = int(case["data"]["secret"])
            comp = ax["compressed"]
            pt = R.ec_mul(k)
            calls = 0
            for keyf, label in ((lambda: n.keys.private(k, is_compressed=comp), "private"),
                                (lambda: n.keys.public(R.sec(pt, comp)), "public-sec"),
                                (lambda: n.keys.public(pt, is_compressed=comp), "public-pair")):
                ok, key = call(keyf)
                calls += 1
                if not ok:
                    return BAD("exception", "%s key constructed" % label, key, clause="key-construct")
                for c in (comp, not comp):
                    h = R.hash160(R.sec(pt, c))
                    want = R.produce(params, "p2pkh", h)
                    ok, got = call(key.hash160, is_compressed=c)
                    if not ok or got != h:
                        return BAD("hash160-differs", h.hex(), show(got), clause="key-hash160")
                    if absent:
                        continue
                    ok, got = (call(key.address) if c == comp else call(key.address, is_compressed=c))
                    calls += 1
                    if not ok or got != want:
                        return BAD("key-address-differs", "%s key.address(compressed=%s) = %s" % (label, c, want), show(got),
                                   clause="key-address")
                    ok, got2 = call(n.address.for_script, R.p2pkh(h))
                    calls += 1
                    if not ok or got2 != want:
                        return BAD("key-address-differs", "for_script(p2pkh(hash160)) = %s" % want, show(got2), clause="address-string")
            return OK("trivial-absent-grs" if absent else "key:" + ("compressed" if comp else "uncompressed"), n=calls)
        # hierarchical nodes
        what = ax["what"]
        master = bytes.fromhex(case["data"]["master"])
        try:
            des = getattr(n.keys, what + "_deserialize")
            cls = des.__self__
        except Exception as e:
            return BAD("exception", "node class available", "EXC %s %s" % (type(e).__name__, e), clause="key-construct")
        ok, node = call(lambda: cls.from_master_secret(master).subkey_for_path(ax["path"]))
        if not ok:
            return BAD("exception", "node derived", node, clause="key-construct")
        outs = []
        for nd, lab in ((node, "private"), (node.public_copy(), "public")):
            ok, secb = call(nd.sec)
            if not ok or not R.sec_valid(secb) or len(secb) != 33:
                return BAD("exception", "node.sec() is a compressed key", show(secb), clause="key-construct")
            h = R.hash160(secb)
            if what == "bip32":
                want = R.produce(params, "p2pkh", h)
            elif what == "bip49":
                want = R.produce(params, "p2sh", R.hash160(R.p2wpkh(h)))
            else:
                want = R.produce(params, "p2wpkh", h)
            if absent and what != "bip84":
                return OK("trivial-absent-grs")
            ok, got = call(nd.address)
            if not ok or got != want:
                return BAD("node-address-differs", "%s %s node.address() = %s" % (what, lab, want), show(got),
                           clause="node-address", kind=what)
            outs.append(want)
        return OK("trivial-no-prefix:" + what if outs[0] is None else "node:" + what, n=2)


# ------------------------------------------------------------------------------------------ acceptance grid

def near_misses(pre):
    out = [("exact", pre)]
    out.append(("last+1", pre[:-1] + bytes([(pre[-1] + 1) & 0xff])))
    out.append(("last-1", pre[:-1] + bytes([(pre[-1] - 1) & 0xff])))
    if len(pre) > 1:
        out.append(("first-byte-only", pre[:1]))
    return out


def check_acceptance(code, text, n):
    """shared oracle: offer `text` to network `code`; reference = decode_address with the pinned parameters.
    Returns Outcome."""
    params = R.NETWORK_PARAMS[code]
    ref = R.decode_address(params, text)
    ok, c = call(n.parse.address, text)
    if not ok:
        return BAD("exception", "parse.address returns", c, clause="raises:address")
    if grs_absent(code):
        if c is not None:
            return BAD("absent-config", "GRS parser disabled (returns None)", show(c), clause="grs-stub")
        return OK("trivial-absent-grs")
    if c is None:
        if ref:
            return BAD("refuses-valid", "accepted as %s" % ref[0][0], "None", clause="address-refused", kind=ref[0][0])
        return None     # refused, as the reference says: caller names the class
    ok, s = call(c.script)
    ok2, re = call(lambda: n.address.for_script(s)) if ok else (False, None)
    if not ref:
        # which prefix matched?  classify the root cause
        data = R.b58check_decode(text)
        clause = "address-accepts-foreign"
        kind = "?"
        if data is not None:
            for k, f in (("p2pkh", "address"), ("p2sh", "p2sh")):
                pre = params[f]
                if pre is not None and data[:len(pre)] == pre:
                    clause, kind = "b58-address-length", k
                    break
        elif R.bech32_decode(text) is not None:
            clause, kind = "bech32-address-rule", "segwit"
        return BAD("accepts-invalid", "refused (no kind of %s produces this string; decoded length incl. prefix %s)"
                   % (code, "n/a" if data is None else len(data)),
                   "accepted: script %s, re-encodes as %s" % (show(s), show(re)), clause=clause, kind=kind)
    if not ok or all(s != R.script_for(k, p) for k, p in ref):
        return BAD("wrong-script", "script %s" % R.script_for(*ref[0]).hex(), show(s), clause="address-script", kind=ref[0][0])
    if not ok2 or not same_text(re, text):
        return BAD("reencode-differs", text, show(re), clause="address-reencode", kind=ref[0][0])
    return OK("accepted:" + ref[0][0] + ("" if re == text else ":case-folded"), n=3)


class Grid(Driver):
    id = "C08.grid"
    rule = ("per network: every Base58 prefix it defines (address, p2sh, wif, bip32/49/84) and near misses x payload "
            "length 0..40 x content; every HRP (own, near miss, foreign) x witness version 0..17,31 x program length "
            "0..41 x {bech32,bech32m} x {plain, non-zero padding, extra group, upper, mixed case}; offered to "
            "parse.address; non-trivial = accepted, or refused although prefix/HRP matched")

    def __init__(self, tier, seed):
        Driver.__init__(self, tier, seed)
        self.lengths = list(range(0, 41))
        self.contents = ["zeros", "ff", "ramp"]
        self.versions = list(range(0, 18)) + [31]
        self.proglens = list(range(0, 42))
        self.variants = ["plain", "padbits", "extragroup", "upper", "mixed"]
        self.bound = dict(networks=len(NETS), b58_payload_lengths="0..40", contents=self.contents,
                          near_misses=["exact", "last+1", "last-1", "first-byte-only"], witness_versions=self.versions,
                          program_lengths="0..41", encodings=["bech32", "bech32m"], variants=self.variants)

    def hrps(self, code):
        own = R.NETWORK_PARAMS[code]["hrp"]
        if own is None:
            return [("foreign", "bc")]
        miss = own[:-1] + ("d" if own[-1] != "d" else "e")
        foreign = "bc" if own != "bc" else "tb"
        return [("own", own), ("near-miss", miss), ("foreign", foreign)]

    def units(self):
        for code in NETS:
            p = R.NETWORK_PARAMS[code]
            for f in R.B58_FIELDS:
                if p[f] is not None:
                    yield dict(net=code, part="b58", field=f)
            for role, hrp in self.hrps(code):
                for ver in self.versions:
                    if role != "own" and ver not in (0, 1, 2, 16):
                        continue
                    yield dict(net=code, part="bech32", role=role, hrp=hrp, ver=ver)

    def execute(self, unit):
        code = unit["net"]
        if unit["part"] == "b58":
            pre0 = R.NETWORK_PARAMS[code][unit["field"]]
            for miss, pre in near_misses(pre0):
                for L in self.lengths:
                    for content in self.contents:
                        text = R.b58check_encode(pre + fill(content, L))
                        case = dict(axes=dict(net=code, part="b58", field=unit["field"], prefix=miss, length=L, content=content),
                                    data=dict(text=text))
                        yield case, self.run(case)
        else:
            own = unit["role"] == "own"
            for L in self.proglens:
                if not own and L not in (2, 19, 20, 21, 32, 33, 40):
                    continue
                for enc in ("bech32", "bech32m"):
                    for content in ("zeros", "ff"):
                        for variant in self.variants:
                            if variant != "plain" and (content != "ff" or not own):
                                continue
                            base = "plain" if variant in ("upper", "mixed") else variant
                            text = R.segwit_encode_raw(unit["hrp"], unit["ver"], fill(content, L),
                                                       R.BECH32 if enc == "bech32" else R.BECH32M, base)
                            if text is None:
                                continue
                            if variant == "upper":
                                text = text.upper()
                            elif variant == "mixed":
                                text = text[:-1] + text[-1].upper() if text[-1].isalpha() else text.upper()[:3] + text[3:]
                            case = dict(axes=dict(net=code, part="bech32", hrp=unit["role"], ver=unit["ver"], length=L, enc=enc,
                                                  content=content, variant=variant), data=dict(text=text))
                            yield case, self.run(case)

    def run(self, case):
        ax = case["axes"]
        code = ax["net"]
        text = case["data"]["text"]
        out = check_acceptance(code, text, net(code))
        if out is not None:
            return out
        # refused in agreement with the reference: name why it matters
        if ax["part"] == "b58":
            if ax["prefix"] == "exact" and ax["field"] in ("address", "p2sh"):
                return OK("refused:own-prefix-wrong-length")
            if ax["prefix"] == "exact":
                return OK("refused:other-kind-prefix")
            return OK("trivial-refused:near-miss-prefix")
        t = R.segwit_decode(text)
        if ax["hrp"] == "own" and t is not None:
            return OK("refused:valid-future-witness-program")      # BIP350-valid v2..v16 / v1 with len != 32: no script kind
        if ax["hrp"] == "own":
            return OK("refused:own-hrp-invalid-segwit")
        return OK("trivial-refused:other-hrp")


# ------------------------------------------------------------------------------------------ cross acceptance

class Cross(Driver):
    id = "C08.cross"
    rule = ("every address the reference produces for network A (5 kinds x 3 payloads) is offered to every network B "
            "(all ordered pairs incl. A=B); B may accept only a string it would itself produce for the script it "
            "reports; non-trivial = accepted by B, or B != A shares the leading prefix byte / HRP")

    def __init__(self, tier, seed):
        Driver.__init__(self, tier, seed)
        self.labels = ["zeros", "ramp", "seedA", "decimal-hex"] if tier == "quick" else [l for l, b in payloads(seed, 20)]
        self.bound = dict(networks=len(NETS), ordered_pairs=len(NETS) ** 2, kinds=list(KINDS), payloads=self.labels)

    def units(self):
        for a in NETS:
            for kind in KINDS:
                yield dict(a=a, kind=kind)

    def execute(self, unit):
        a, kind = unit["a"], unit["kind"]
        for label, p in payloads(self.seed, R.KIND_LEN[kind]):
            if label not in self.labels:
                continue
            text = R.produce(R.NETWORK_PARAMS[a], kind, p)
            if text is None:
                continue
            for b in NETS:
                case = dict(axes=dict(a=a, b=b, kind=kind, payload=label), data=dict(text=text))
                yield case, self.run(case)

    def run(self, case):
        ax = case["axes"]
        a, b = ax["a"], ax["b"]
        text = case["data"]["text"]
        # history variant: the SAME parseable_str instance is first offered to A and then to B (what command-line tools do when
        # they guess the network): B's answer must be what it gives for a fresh str
        try:
            ps = net(a).parseable_str_type(text)
            with contextlib.redirect_stdout(io.StringIO()):
                ra = net(a).parse.address(ps)
                rb = net(b).parse.address(ps)
                rf = net(b).parse.address(str(text))
            kb = None if rb is None else bytes(rb.script())
            kf = None if rf is None else bytes(rf.script())
        except Exception as e:
            return BAD("shared-str-raises", "parse.address on a shared parseable_str returns", "EXC %s: %s" % (type(e).__name__, e),
                       clause="shared-parseable-str")
        if kb != kf:
            return BAD("shared-str-differs", "%s.parse.address(fresh str) -> %s" % (b, kf.hex() if kf else None),
                       "after %s.parse.address on the same parseable_str -> %s" % (a, kb.hex() if kb else None), clause="shared-parseable-str",
                       g_pair="%s->%s" % (a, b))
        out = check_acceptance(b, text, net(b))
        if out is not None:
            if out.ok and out.cls.startswith("accepted"):
                out.cls = ("own:" if a == b else "shared-string:") + out.cls
            elif not out.ok:
                if out.tags.get("clause") != "b58-address-length":      # one root cause whatever the pair
                    out.tags["g_pair"] = "%s->%s" % (a, b)
            return out
        pa, pb = R.NETWORK_PARAMS[a], R.NETWORK_PARAMS[b]
        if ax["kind"] in ("p2pkh", "p2sh"):
            fa = pa["address" if ax["kind"] == "p2pkh" else "p2sh"]
            near = any(pb[f] is not None and pb[f][:1] == fa[:1] for f in ("address", "p2sh"))
        else:
            near = pb["hrp"] is not None
        return OK("refused:shares-first-byte-or-has-hrp" if near else "trivial-refused")


# ------------------------------------------------------------------------------------------ classification

OPS = [("OP_DUP", R.OP_DUP), ("OP_HASH160", R.OP_HASH160), ("OP_EQUALVERIFY", R.OP_EQUALVERIFY), ("OP_CHECKSIG", R.OP_CHECKSIG),
       ("OP_EQUAL", R.OP_EQUAL), ("OP_CHECKMULTISIG", R.OP_CHECKMULTISIG), ("OP_RETURN", R.OP_RETURN), ("OP_0", R.OP_0),
       ("OP_1", R.OP_1), ("OP_2", R.OP_2), ("OP_16", R.OP_16), ("OP_1NEGATE", R.OP_1NEGATE)]
PUSH_LENS = [0, 1, 19, 20, 21, 32, 33, 65, 120, 121]


def push_data(n, flavour=0):
    if flavour == 0 and n in (33, 65):
        return R.sec((R.GX, R.GY), n == 33)
    if flavour == 1 and n in (33, 65):
        return R.sec(R.ec_mul(2), n == 33)
    return bytes((7 * i + n + 13 * flavour) & 0xff for i in range(n))


def token_alphabet(tier):
    toks = [(name, bytes([op])) for name, op in OPS]
    for n in PUSH_LENS:
        if 1 <= n <= 75:
            toks.append(("push%d" % n, R.push(push_data(n), "direct")))
    forms = ("pd1", "pd2", "pd4")
    for form in forms:
        for n in PUSH_LENS:
            toks.append(("%s:%d" % (form, n), R.push(push_data(n), form)))
    toks.append(("trunc:push20of19", bytes([20]) + push_data(19)))
    toks.append(("trunc:pd1-nolen", bytes([R.OP_PUSHDATA1])))
    toks.append(("trunc:pd1-33of5", bytes([R.OP_PUSHDATA1, 33]) + push_data(5)))
    toks.append(("trunc:pd2-1lenbyte", bytes([R.OP_PUSHDATA2, 20])))
    toks.append(("trunc:pd4-3lenbytes", bytes([R.OP_PUSHDATA4, 20, 0, 0])))
    return toks


def templates():
    h20, h32 = push_data(20), push_data(32)
    k = [push_data(33, 0), push_data(33, 1), push_data(65, 0)]
    d = lambda name, b: (name, b)    # noqa: E731
    op = lambda name: d(name, bytes([dict(OPS)[name]]))   # noqa: E731
    return {
        "p2pkh": [op("OP_DUP"), op("OP_HASH160"), d("push20", R.push(h20)), op("OP_EQUALVERIFY"), op("OP_CHECKSIG")],
        "p2sh": [op("OP_HASH160"), d("push20", R.push(h20)), op("OP_EQUAL")],
        "p2wpkh": [op("OP_0"), d("push20", R.push(h20))],
        "p2wsh": [op("OP_0"), d("push32", R.push(h32))],
        "p2tr": [op("OP_1"), d("push32", R.push(h32))],
        "p2pk-c": [d("push33", R.push(k[0])), op("OP_CHECKSIG")],
        "p2pk-u": [d("push65", R.push(k[2])), op("OP_CHECKSIG")],
        "multisig-1of1": [op("OP_1"), d("push33", R.push(k[0])), op("OP_1"), op("OP_CHECKMULTISIG")],
        "multisig-1of2": [op("OP_1"), d("push33", R.push(k[0])), d("push65", R.push(k[2])), op("OP_2"), op("OP_CHECKMULTISIG")],
        "multisig-2of3": [op("OP_2"), d("push33", R.push(k[0])), d("push33", R.push(k[1])), d("push65", R.push(k[2])),
                          d("OP_3", b"\x53"), op("OP_CHECKMULTISIG")],
        "multisig-16of16": [op("OP_16")] + [d("push33", R.push(k[i % 2])) for i in range(16)] + [op("OP_16"), op("OP_CHECKMULTISIG")],
        "nulldata": [op("OP_RETURN"), d("push20", R.push(h20))],
        # key counts beyond OP_16: the count opcode byte just after OP_16 (0x61 = OP_NOP) and the explicit number push
        "multisig-1of17-byte61": [op("OP_1")] + [d("push33", R.push(k[i % 2])) for i in range(17)] + [d("byte61", b"\x61"), op("OP_CHECKMULTISIG")],
        "multisig-1of17-push11": [op("OP_1")] + [d("push33", R.push(k[i % 2])) for i in range(17)] + [d("push-0x11", b"\x01\x11"), op("OP_CHECKMULTISIG")],
        "multisig-17of17-byte61": [d("byte61", b"\x61")] + [d("push33", R.push(k[i % 2])) for i in range(17)] + [d("byte61", b"\x61"), op("OP_CHECKMULTISIG")],
        "multisig-1of20-byte64": [op("OP_1")] + [d("push33", R.push(k[i % 2])) for i in range(20)] + [d("byte64", b"\x64"), op("OP_CHECKMULTISIG")],
    }


def push_form_only(a, b):
    """True when scripts a and b tokenise to the same (non-push opcodes, pushed data) and differ only in push form"""
    ta, tb = R.tokens(a), R.tokens(b)
    if ta is None or tb is None or len(ta) != len(tb):
        return False
    for (o1, d1), (o2, d2) in zip(ta, tb):
        if (d1 is None) != (d2 is None):
            # OP_0 vs an explicit empty push, OP_N vs one-byte push: still "form"
            e1 = b"" if o1 == 0 else d1
            e2 = b"" if o2 == 0 else d2
            if e1 is None or e2 is None or e1 != e2:
                return False
            continue
        if d1 is None and o1 != o2:
            return False
        if d1 is not None and d1 != d2:
            return False
    return True


class Classify(Driver):
    id = "C08.classify"
    rule = ("scripts = every single-token substitution / insertion / deletion of 12 standard templates over the token "
            "alphabet, plus every script of <= k tokens over it; info_for_script type != unknown => for_info(info) == "
            "script; the 5 address templates must be recognised with the right parameters; non-trivial = classified "
            "as a standard kind, or a mutation at distance 1 of a template")

    def __init__(self, tier, seed):
        Driver.__init__(self, tier, seed)
        self.toks = token_alphabet(tier)
        if tier == "quick":
            # <=3 tokens over the alphabet without the PUSHDATA2/4 forms of the less interesting lengths
            keep = lambda name: not (name.startswith(("pd2:", "pd4:")) and name.split(":")[1] not in ("20", "32", "33"))  # noqa
            self.enum = [(n, b) for n, b in self.toks if keep(n)]
            self.k = 3
            self.core = []
        else:
            self.enum = self.toks
            self.k = 3
            # thorough: additionally every 4-token script over the core alphabet (template opcodes + direct pushes)
            self.core = [(n, b) for n, b in self.toks if not n.startswith(("pd2", "pd4", "trunc")) or n in ("trunc:push20of19",)]
        self.bound = dict(token_alphabet=[n for n, b in self.toks], enum_alphabet_size=len(self.enum), max_tokens=self.k,
                          four_token_core_alphabet=[n for n, b in self.core],
                          templates=sorted(templates()), mutations=["substitute", "insert", "delete"], script_tools="BTC (all 51 networks share one ScriptTools object; checked in C08.params configurations)")

    def units(self):
        for name in sorted(templates()):
            yield dict(part="mut", template=name)
        yield dict(part="enum", head=[])
        for i in range(len(self.enum)):
            yield dict(part="enum", head=[i])
        for i in range(len(self.core)):
            for j in range(len(self.core)):
                yield dict(part="enum4", head=[i, j])

    def execute(self, unit):
        if unit["part"] == "mut":
            tpl = templates()[unit["template"]]
            seen = set()

            def emit(toks, how):
                s = b"".join(b for n, b in toks)
                if s in seen:
                    return None
                seen.add(s)
                case = dict(axes=dict(part="mut", template=unit["template"], how=how), data=dict(script=s.hex()))
                return case, self.run(case)
            r = emit(tpl, "identity")
            if r:
                yield r
            for pos in range(len(tpl)):
                r = emit(tpl[:pos] + tpl[pos + 1:], "delete@%d" % pos)
                if r:
                    yield r
                for tn, tb in self.toks:
                    r = emit(tpl[:pos] + [(tn, tb)] + tpl[pos + 1:], "subst@%d:%s" % (pos, tn))
                    if r:
                        yield r
            for pos in range(len(tpl) + 1):
                for tn, tb in self.toks:
                    r = emit(tpl[:pos] + [(tn, tb)] + tpl[pos:], "insert@%d:%s" % (pos, tn))
                    if r:
                        yield r
            return
        head = unit["head"]
        if unit["part"] == "enum4":
            for tail in itertools.product(range(len(self.core)), repeat=2):
                idx = head + list(tail)
                s = b"".join(self.core[i][1] for i in idx)
                case = dict(axes=dict(part="enum4", tokens=[self.core[i][0] for i in idx]), data=dict(script=s.hex()))
                yield case, self.run(case)
            return
        if not head:
            case = dict(axes=dict(part="enum", tokens=[]), data=dict(script=""))
            yield case, self.run(case)
            return
        for extra in range(0, self.k):
            for tail in itertools.product(range(len(self.enum)), repeat=extra):
                idx = head + list(tail)
                s = b"".join(self.enum[i][1] for i in idx)
                case = dict(axes=dict(part="enum", tokens=[self.enum[i][0] for i in idx]), data=dict(script=s.hex()))
                yield case, self.run(case)

    def run(self, case):
        s = bytes.fromhex(case["data"]["script"])
        c = net("BTC").contract
        rk, rp = R.classify(s)
        ok, info = call(c.info_for_script, s)
        if not ok or not isinstance(info, dict) or "type" not in info:
            return BAD("exception", "info_for_script returns a dict", show(info), clause="raises:info_for_script")
        ty = info["type"]
        if rk in PYCOIN_TYPE:
            want = {"p2pkh": dict(type="p2pkh", hash160=rp.get("h")), "p2sh": dict(type="p2sh", hash160=rp.get("h")),
                    "p2wpkh": dict(type="p2pkh_wit", hash160=rp.get("h")), "p2wsh": dict(type="p2sh_wit", hash256=rp.get("h")),
                    "p2tr": dict(type="p2tr", synthetic_key=rp.get("x"))}[rk]
            if {k: (bytes(v) if isinstance(v, bytes) else v) for k, v in info.items()} != want:
                return BAD("misclassified", repr(want), show(info), clause="classify-standard", kind=rk)
        if ty == "unknown":
            if info.get("script") != s:
                return BAD("rebuild-differs", s.hex(), show(info.get("script")), clause="classify-unknown", kind="unknown")
            mut = case.get("axes", {}).get("part") == "mut"
            return OK(("unknown:template-mutation" if mut else "trivial-unknown") if rk == "nonstandard" else "unknown:ref-says-" + rk)
        ok, back = call(c.for_info, info)
        if not ok or back != s:
            form = ok and isinstance(back, bytes) and push_form_only(s, back)
            return BAD("rebuild-differs", "for_info(info_for_script(s)) == s = %s" % s.hex(),
                       "type %s rebuilds as %s" % (ty, show(back)),
                       clause="classify-push-form" if form else "classify-rebuild",
                       kind="multisig" if ty == "multisig" else "template", type=ty)   # two code paths: _info_from_multisig_script / match
        same = (rk == ty) or (rk, ty) in (("p2wpkh", "p2pkh_wit"), ("p2wsh", "p2sh_wit"))
        return OK("faithful:%s%s" % (ty, "" if same else ":wider-than-template"), n=2)

    def nontrivial(self, cls):
        return not cls.startswith("trivial")


DRIVERS = [Params, RoundTrip, Keys, Grid, Cross, Classify]

ASSUMPTIONS = [
    "the numeric prefixes / HRPs of the 51 networks are those of the pinned table vf/ref/addr.py (snapshot of "
    "pycoin/symbols, bound to published BTC/XTN/LTC/DOGE strings); the property text itself does not fix them",
    "payload contents from the stated alphabets (zeros, ff, ramp, template look-alike, leading zeros, two seed-selected); "
    "Base58 acceptance grid payload lengths 0..40; bech32 program lengths 0..41",
    "script classification space: <=3 tokens over the token alphabet and distance-1 mutations of 12 templates; "
    "m-of-n lists: 1-of-1, 1-of-2, 2-of-3, 16-of-16",
    "GRS-family Base58 (groestl checksum) is outside the reference model",
]


def CONFIGURATIONS():
    absent = {}
    if not have_groestl():
        absent["groestlcoin_hash"] = "not installed: %s Base58 production raises ImportError and parse.address is stubbed to None by " \
                                     "pycoin/symbols itself; only their bech32 production is checked" % ", ".join(R.GRS_FAMILY)
    tools = {}
    for code in NETS:
        try:
            tools.setdefault(id(net(code).script), []).append(code)
        except Exception:
            pass
    return dict(networks=len(NETS), absent=absent, distinct_script_tools=len(tools))
