"""C09 - BIP32 / BIP49 / BIP84 / Electrum derivation (Mode I + Mode S for the sub-key cache).

Drivers
  C09.paths     seeds x all paths of depth <= D over the index alphabet {0,1,2^24-1,2^24,2^31-1} x {normal,hardened}
                x hardening spellings: every field of the derived node, both text forms, the .pub suffix, public-parent
                commutation from the last hardened ancestor, refusal of hardened-from-public, parse round trip
  C09.ranges    the range grammar through subkeys(): all strings of <= 2 components over a 7-symbol alphabet
  C09.text      every network x bip32/49/84 x depth {0,1,127,128,255} (and the depth-256 child of every depth-255 node, whose text form cannot exist) x child number {0,2^31,2^32-1} x private/public:
                deserialize -> fields, hwif -> reference text, parse -> same fields and class
  C09.cache     Mode S: every history of <= 3 subkey(i, is_hardened, as_private) calls on one node
  C09.electrum  Electrum v1 wallets: private/public commutation and reference equality
"""
import contextlib
import io
import itertools
import re

from ..engine import Driver, OK, BAD, ModelInvalid, seed_bytes
from ..ref import bip32 as ref

INDEX = (0, 1, 2 ** 24 - 1, 2 ** 24, 2 ** 31 - 1)
SYMBOLS = [(i, h) for i in INDEX for h in (False, True)]
SPELLINGS = ("H", "p", "'")

SEEDS = {
    "v1": "000102030405060708090a0b0c0d0e0f",
    "v2": ref.VECTORS[1][0],
    "v3": ref.VECTORS[2][0],
    "zero16": "00" * 16,
    "ff64": "ff" * 64,
}


def network(code):
    from pycoin.networks.registry import network_for_netcode
    with contextlib.redirect_stdout(io.StringIO()):
        return network_for_netcode(code)


def path_text(path, ch):
    return "/".join("%d%s" % (i, ch if h else "") for i, h in path)


def fields_of(node):
    """observable fields of a pycoin node (calls into pycoin: use inside try)"""
    se = node.secret_exponent()
    d = dict(k=se, K=tuple(node.public_pair()), chain=bytes(node.chain_code()), depth=node.tree_depth(),
             fpr=bytes(node.parent_fingerprint()), index=node.child_index(), fp=bytes(node.fingerprint()),
             pub=node.hwif(), ser_pub=bytes(node.serialize(as_private=False)))
    if se is not None:
        d["prv"] = node.hwif(as_private=True)
        d["ser_prv"] = bytes(node.serialize(as_private=True))
        d["ser_default"] = bytes(node.serialize())
    return d


def fields_of_ref(nd, ver):
    d = dict(k=nd["k"], K=nd["K"], chain=nd["chain"], depth=nd["depth"], fpr=nd["fpr"], index=nd["index"],
             fp=ref.fingerprint(nd), pub=ref.text(nd, ver["pub"], False), ser_pub=ref.serialize(nd, False))
    if nd["k"] is not None:
        d["prv"] = ref.text(nd, ver["prv"], True)
        d["ser_prv"] = ref.serialize(nd, True)
        d["ser_default"] = d["ser_prv"]
    return d


def diff(want, got):
    """first differing field name or None"""
    for k in ("k", "K", "chain", "depth", "index", "fpr", "fp", "ser_pub", "pub", "ser_prv", "prv", "ser_default"):
        if want.get(k) != got.get(k):
            return k
    return None


def show(d, k):
    v = d.get(k)
    return "%s=%s" % (k, v.hex() if isinstance(v, bytes) else v)


class Mismatch(Exception):
    def __init__(self, cls, ref_, impl, **tags):
        self.cls, self.ref, self.impl, self.tags = cls, ref_, impl, tags


def expect_node(label, node, nd, ver, clause, detail=""):
    got = fields_of(node)
    want = fields_of_ref(nd, ver)
    k = diff(want, got)
    if k is not None:
        raise Mismatch("field-differs:%s" % label, "%s%s: %s" % (label, detail, show(want, k)), show(got, k), clause=clause, field=k)


class Paths(Driver):
    id = "C09.paths"
    rule = ("seeds x every path of depth <= D over 5 boundary indices x {normal, hardened} x hardening spelling; per case all "
            "fields/text forms of the node, .pub, public commutation, hardened-from-public refusal, parse round trip; "
            "non-trivial = path of depth >= 1")

    def __init__(self, tier, seed):
        Driver.__init__(self, tier, seed)
        self.seeds = dict(SEEDS, generic=seed_bytes(seed, "c09.seed", 32).hex())
        self.depth = 2 if tier == "quick" else 3
        self.bound = dict(seeds=list(self.seeds), index_alphabet=list(INDEX), full_depth=self.depth,
                          extra_depth3=40 if tier == "quick" else 0, spellings=list(SPELLINGS))

    def paths(self):
        yield []
        for d in range(1, self.depth + 1):
            for p in itertools.product(SYMBOLS, repeat=d):
                yield [list(x) for x in p]
        if self.depth < 3:
            # 40 depth-3 boundary paths: one index repeated, all 8 hardening patterns
            for i in INDEX:
                for hs in itertools.product((False, True), repeat=3):
                    yield [[i, h] for h in hs]

    def units(self):
        for p in self.paths():
            for name in self.seeds:
                yield dict(seed=self.seeds[name], path=p)

    def execute(self, unit):
        hard = any(h for _, h in unit["path"])
        for ch in (SPELLINGS if hard else SPELLINGS[:1]):
            case = dict(seed=unit["seed"], path=unit["path"], spelling=ch)
            yield case, self.run(case)

    def run(self, case):
        path = [(int(i), bool(h)) for i, h in case["path"]]
        ch = case["spelling"]
        seed = bytes.fromhex(case["seed"])
        try:
            rm = ref.master(seed)
            rn = ref.derive(rm, path)
        except ref.InvalidChild:
            return OK("trivial-invalid-child")
        cut = max([i + 1 for i, (_, h) in enumerate(path) if h] + [0])
        rbase = ref.derive(rm, path[:cut])
        rpub = ref.derive(ref.neuter(rbase), path[cut:])
        ver = ref.MAINNET
        n = 0
        try:
            net = network("BTC")
            m = net.keys.bip32_seed(seed)
            s = path_text(path, ch)
            node = m.subkey_for_path(s)
            n += 1
            expect_node("private-derivation", node, rn, ver, "ckd-priv")
            forced = m.subkey_for_path(s + ".pub")
            n += 1
            expect_node(".pub", forced, ref.neuter(rn), ver, "pub-suffix")
            base = m.subkey_for_path(path_text(path[:cut], ch)) if cut else m
            pubbase = base.public_copy()
            expect_node("public_copy", pubbase, ref.neuter(rbase), ver, "public-copy")
            pubnode = pubbase.subkey_for_path(path_text(path[cut:], ch))
            n += 1
            expect_node("public-derivation", pubnode, rpub, ver, "ckd-pub")
            if rpub["K"] != rn["K"] or fields_of(pubnode)["pub"] != fields_of(node)["pub"]:
                raise Mismatch("commutation", "public derivation = public half of private derivation",
                               "%s vs %s" % (fields_of(pubnode)["pub"], fields_of(node)["pub"]), clause="commutation")
            if cut:
                # the last hardened step asked from the public-only parent must be refused
                parent = m.subkey_for_path(path_text(path[:cut - 1], ch)) if cut > 1 else m
                ppub = parent.public_copy()
                step = path_text(path[cut - 1:cut], ch)
                n += 1
                try:
                    r = ppub.subkey_for_path(step)
                except Exception:
                    r = None
                else:
                    raise Mismatch("hardened-from-public", "refused", "returned %r" % (r,), clause="hardened-from-public")
                n += 1
                try:
                    r = ppub.subkey(path[cut - 1][0], is_hardened=True)
                except Exception:
                    r = None
                else:
                    raise Mismatch("hardened-from-public", "refused", "subkey() returned %r" % (r,), clause="hardened-from-public")
            # text round trip on BTC
            want = fields_of_ref(rn, ver)
            for txt, nd in ((want["prv"], rn), (want["pub"], ref.neuter(rn))):
                back = net.parse.bip32(txt)
                n += 1
                if back is None:
                    raise Mismatch("parse-none", "parses", "parse.bip32(%s) is None" % txt, clause="parse")
                expect_node("parse", back, nd, ver, "parse")
        except Mismatch as mm:
            return BAD(mm.cls, mm.ref, mm.impl, n=n, **mm.tags)
        except Exception as e:
            return BAD("exception", "derivation succeeds", "EXC %s: %s" % (type(e).__name__, e), n=n, clause="exception")
        big = any(i >= 2 ** 24 for i, _ in path)
        return OK("depth=%d hardened=%d %s" % (len(path), sum(1 for _, h in path if h), "idx>=2^24" if big else "idx<2^24"), n=n)

    def nontrivial(self, cls):
        return not cls.startswith("depth=0") and not cls.startswith("trivial")

    def selfcheck(self):
        n, bad = ref.selfcheck()
        if bad:
            raise ModelInvalid("ref bip32: %s" % bad[:3])
        # cross-read the repository's own transcription of vectors 1 and 2
        try:
            src = open("/repo/tests/btc/bip32_test.py").read()
            infile = set(re.findall(r"x(?:pub|prv)[1-9A-HJ-NP-Za-km-z]{107}", re.sub(r'"\s*\n\s*"', "", src)))
        except OSError:
            infile = set()
        if infile:
            mine = set()
            for seed_hex, chain in ref.VECTORS[:2]:
                for _, xpub, xprv in chain:
                    mine.update((xpub, xprv))
            missing = [t for t in mine if t not in infile]
            if missing:
                raise ModelInvalid("BIP32 vector strings not found in tests/btc/bip32_test.py: %s" % missing[:2])
            n += len(mine)
        return n


# ---------------------------------------------------------------- range grammar
COMPONENTS = ("0", "1H", "0-2", "3,5", "7-8p,15", "2-3'", "15,7-8p")


class Ranges(Driver):
    id = "C09.ranges"
    rule = ("subkeys(range) for every string of <= 2 components over a 7-symbol component alphabet (single, hardened, a-b, "
            "a,b, mixed with per-item marks) on a private and on a public parent: yielded nodes = nodes of the documented "
            "expansion, in order; non-trivial = more than one expanded path")

    def __init__(self, tier, seed):
        Driver.__init__(self, tier, seed)
        self.seeds = [SEEDS["v1"], seed_bytes(seed, "c09.seed", 32).hex()]
        self.bound = dict(components=list(COMPONENTS), max_components=2 if tier == "quick" else 3, seeds=2, parents=["private", "public"])
        self.maxc = 2 if tier == "quick" else 3

    def units(self):
        for sd in self.seeds:
            for parent in ("private", "public"):
                yield dict(seed=sd, parent=parent, range="")
                for ncomp in range(1, self.maxc + 1):
                    for comps in itertools.product(COMPONENTS, repeat=ncomp):
                        yield dict(seed=sd, parent=parent, range="/".join(comps))

    def run(self, case):
        seed = bytes.fromhex(case["seed"])
        rng = case["range"]
        rm = ref.master(seed)
        rparent = rm if case["parent"] == "private" else ref.neuter(rm)
        expanded = ref.expand_ranges(rng)
        want = []
        refused = False
        for p in expanded:
            try:
                nd = ref.derive(rparent, ref.parse_path(p.replace("p", "H")))
            except ref.Refused:
                refused = True
                break
            want.append(ref.text(nd, ref.MAINNET["prv" if nd["k"] is not None else "pub"], nd["k"] is not None))
        got = []
        err = None
        try:
            net = network("BTC")
            m = net.keys.bip32_seed(seed)
            parent = m if case["parent"] == "private" else m.public_copy()
            for k in parent.subkeys(rng):
                got.append(k.hwif(as_private=k.secret_exponent() is not None))
        except Exception as e:
            err = "EXC %s: %s" % (type(e).__name__, e)
        n = len(expanded)
        if refused:
            if err is None:
                return BAD("hardened-from-public", "refused after %d keys" % len(want), "yielded %d keys" % len(got), n=n,
                           clause="hardened-from-public")
            if got != want:
                return BAD("range-prefix", "%r then refusal" % (want,), "%r then %s" % (got, err), n=n, clause="range-expansion")
            return OK("refused-after-%s" % ("0" if not want else "some"), n=n)
        if err is not None:
            return BAD("exception", "%d keys" % len(want), "%r then %s" % (got, err), n=n, clause="exception")
        if got != want:
            return BAD("range-expansion", "%r -> %r" % (expanded, want), "%r" % (got,), n=n, clause="range-expansion")
        return OK("expanded=1" if len(expanded) == 1 else "expanded>1", n=n)

    def nontrivial(self, cls):
        return cls != "expanded=1"


# ---------------------------------------------------------------- text forms on every network
KINDS = ("bip32", "bip49", "bip84")
CLASSNAME = dict(bip32="BIP32Node", bip49="BIP49Node", bip84="BIP84Node")
_NETCODES = []


FALLBACK_CODES = ["BTC", "DOGE", "LTC", "XTN"]
_REGISTRY_ERROR = []


def netcodes():
    """all registered network symbols; if pycoin's registry itself fails, a short fixed list (the per-network cases
    then report the failure as disagreements instead of stopping the harness)"""
    if not _NETCODES:
        try:
            from pycoin.networks.registry import network_codes
            with contextlib.redirect_stdout(io.StringIO()):
                _NETCODES.extend(sorted(network_codes()))
        except Exception as e:
            _NETCODES.extend(FALLBACK_CODES)
            _REGISTRY_ERROR.append("EXC %s: %s" % (type(e).__name__, e))
    return _NETCODES


def groestl_missing():
    try:
        import groestlcoin_hash  # noqa: F401
        return False
    except ImportError:
        return True


class Text(Driver):
    id = "C09.text"
    rule = ("every network x every extended-key kind it defines x depth {0,1,127,128,255} (and the depth-256 child of every depth-255 node, whose text form cannot exist) x child number {0,2^31,2^32-1} x two key "
            "materials x private/public: deserialize, hwif = reference Base58Check text, parse.<kind>/_prv/_pub reproduce "
            "every field and the node class; non-trivial = every case on a network whose hash function is installed")

    def __init__(self, tier, seed):
        Driver.__init__(self, tier, seed)
        self.depths = (0, 1, 127, 128, 255)
        self.children = (0, 2 ** 31, 2 ** 32 - 1)
        self.bound = dict(networks="all registered (%s)" % "see configurations", kinds=list(KINDS), depths=list(self.depths),
                          child_numbers=list(self.children), key_materials=["k=1, chain 00*32", "seed-selected"])

    def materials(self):
        g = int.from_bytes(seed_bytes(self.seed, "c09.text.k", 32), "big") % (ref.N - 1) + 1
        return [dict(k=1, chain="00" * 32, fpr="00000000"),
                dict(k=g, chain=seed_bytes(self.seed, "c09.text.chain", 32).hex(), fpr="ffffffff")]

    def units(self):
        for code in netcodes():
            yield dict(net=code)

    def execute(self, unit):
        code = unit["net"]
        if _REGISTRY_ERROR and code == netcodes()[0]:
            yield dict(net=code, registry=True), BAD("network-registry", "network_codes() lists the networks", _REGISTRY_ERROR[0],
                                                     clause="network-registry")
        try:
            net = network(code)
            prefixes = {kind: (getattr(net.parse, "_%s_prv_prefix" % kind, None), getattr(net.parse, "_%s_pub_prefix" % kind, None))
                        for kind in KINDS}
            grs = type(net.parse).__name__ != "ParseAPI"
        except Exception as e:
            yield dict(net=code), BAD("network-load", "loads", "EXC %s: %s" % (type(e).__name__, e), clause="network-load")
            return
        for kind in KINDS:
            prv, pub = prefixes[kind]
            if prv is None or pub is None:
                continue
            for mi, mat in enumerate(self.materials()):
                for depth in self.depths:
                    for child in self.children:
                        for private in (True, False):
                            case = dict(net=code, kind=kind, prv=prv.hex(), pub=pub.hex(), k=str(mat["k"]), chain=mat["chain"],
                                        fpr=mat["fpr"], depth=depth, child=child, private=private)
                            if grs and groestl_missing():
                                yield case, OK("trivial-absent-groestl-hash")
                            else:
                                yield case, self.run(case)

    def run(self, case):
        if case.get("registry"):
            netcodes()
            if _REGISTRY_ERROR:
                return BAD("network-registry", "network_codes() lists the networks", _REGISTRY_ERROR[0], clause="network-registry")
            return OK("trivial-registry-ok")
        ver = dict(prv=bytes.fromhex(case["prv"]), pub=bytes.fromhex(case["pub"]))
        k = int(case["k"])
        nd = ref.node(int(case["depth"]), bytes.fromhex(case["fpr"]), int(case["child"]), bytes.fromhex(case["chain"]), k=k)
        if not case["private"]:
            nd = ref.neuter(nd)
        kind = case["kind"]
        n = 0
        try:
            net = network(case["net"])
            node = getattr(net.keys, "%s_deserialize" % kind)(b"\0\0\0\0" + ref.serialize(nd, case["private"]))
            n += 1
            expect_fields(kind, "deserialize", node, nd, ver)
            want = ref.text(nd, ver["prv" if case["private"] else "pub"], case["private"])
            txt = node.hwif(as_private=case["private"])
            if txt != want or node.as_text(as_private=case["private"]) != want:
                raise Mismatch("text-differs", want, txt, clause="hwif")
            for entry, should in ((kind, True), (kind + "_prv", case["private"]), (kind + "_pub", not case["private"])):
                with contextlib.redirect_stdout(io.StringIO()):
                    back = getattr(net.parse, entry)(want)
                n += 1
                if not should:
                    if back is not None:
                        raise Mismatch("wrong-kind-parsed", "parse.%s refuses" % entry, repr(back), clause="parse-kind")
                    continue
                if back is None:
                    raise Mismatch("parse-none", "parse.%s(%s) returns a node" % (entry, want), "None", clause="parse")
                expect_fields(kind, "parse.%s" % entry, back, nd, ver)
                if back.hwif(as_private=case["private"]) != want:
                    raise Mismatch("reserialize", want, back.hwif(as_private=case["private"]), clause="parse")
            if int(case["depth"]) == 255:
                # one level deeper there is no one-byte depth: the text form must be refused, never wrap around
                deeper = node.subkey(1)
                n += 1
                if deeper.tree_depth() != 256:
                    raise Mismatch("depth-differs", "child of a depth-255 node has depth 256", repr(deeper.tree_depth()), clause="depth-overflow")
                try:
                    t256 = deeper.hwif(as_private=case["private"])
                except Exception:
                    t256 = None
                if t256 is not None:
                    with contextlib.redirect_stdout(io.StringIO()):
                        back = getattr(net.parse, kind)(t256)
                    got = None if back is None else back.tree_depth()
                    raise Mismatch("depth-wraps", "text form of a depth-256 node is refused (or keeps depth 256)",
                                   "hwif() = %s, which parses to depth %r" % (t256, got), clause="depth-overflow")
        except Mismatch as mm:
            return BAD(mm.cls, mm.ref, mm.impl, n=n, **mm.tags)
        except Exception as e:
            return BAD("exception", "round trip succeeds", "EXC %s: %s" % (type(e).__name__, e), n=n, clause="exception")
        return OK("%s %s depth=%d" % (kind, "prv" if case["private"] else "pub", case["depth"]), n=n)

    def selfcheck(self):
        # version bytes of BTC / XTN are the published ones (pycoin's per-network prefixes are otherwise input data)
        want = {"BTC": (ref.MAINNET, ref.BIP49_MAINNET, ref.BIP84_MAINNET), "XTN": (ref.TESTNET, ref.BIP49_TESTNET, ref.BIP84_TESTNET)}
        n = 0
        for code, vers in want.items():
            net = network(code)
            for kind, v in zip(KINDS, vers):
                n += 1
                if (getattr(net.parse, "_%s_prv_prefix" % kind), getattr(net.parse, "_%s_pub_prefix" % kind)) != (v["prv"], v["pub"]):
                    raise ModelInvalid("%s %s version bytes differ from the published ones" % (code, kind))
        return n


def expect_fields(kind, label, node, nd, ver):
    """like expect_node, but the text form goes through the node's own kind (ypub/zpub...), and the class is checked"""
    if not type(node).__name__.endswith("_" + CLASSNAME[kind]):
        raise Mismatch("wrong-class", CLASSNAME[kind], type(node).__name__, clause="node-class")
    got = fields_of(node)
    want = fields_of_ref(nd, ver)
    k = diff(want, got)
    if k is not None:
        raise Mismatch("field-differs:%s" % label, "%s: %s" % (label, show(want, k)), show(got, k), clause="fields", field=k)


# ---------------------------------------------------------------- sub-key cache histories
OPS = [(i, h, a) for i in (0, 1) for h in (False, True) for a in (None, True, False)]


class Cache(Driver):
    id = "C09.cache"
    rule = ("state = one BIP32 node after a history of subkey(i, is_hardened, as_private) calls, i in {0,1}, hardened in "
            "{F,T}, as_private in {None,T,F}; every history of <= 3 calls on a private and on a public parent; each result "
            "must equal the reference child of the right privacy (cache transparency), the parent must be unchanged; "
            "non-trivial = history repeating an (i, hardened) pair with a different as_private, or of length 3")

    def __init__(self, tier, seed):
        Driver.__init__(self, tier, seed)
        self.seedhex = SEEDS["v1"] if seed == 0 else seed_bytes(seed, "c09.cache", 16).hex()
        self.bound = dict(ops=len(OPS), max_history=3, parents=["private", "public"], histories=2 * (12 + 144 + 1728))

    def units(self):
        for parent in ("private", "public"):
            for first in range(len(OPS)):
                yield dict(parent=parent, first=first)

    def execute(self, unit):
        rest = [()] + [(a,) for a in range(len(OPS))] + [(a, b) for a in range(len(OPS)) for b in range(len(OPS))]
        for r in rest:
            hist = [list(OPS[x]) for x in (unit["first"],) + r]
            case = dict(seed=self.seedhex, parent=unit["parent"], history=hist)
            yield case, self.run(case)

    def run(self, case):
        seed = bytes.fromhex(case["seed"])
        rparent = ref.derive(ref.master(seed), [(0, True)])          # a depth-1 node, so metadata is not all zeros
        private_parent = case["parent"] == "private"
        if not private_parent:
            rparent = ref.neuter(rparent)
        hist = [(int(i), bool(h), a) for i, h, a in case["history"]]
        ver = ref.MAINNET
        step = -1
        flags = set()
        try:
            net = network("BTC")
            parent = net.keys.bip32_deserialize(b"\0\0\0\0" + ref.serialize(rparent, private_parent))
            seen = {}
            for step, (i, h, a) in enumerate(hist):
                if (i, h) in seen and seen[(i, h)] != a:
                    flags.add("privacy-switch")
                elif (i, h) in seen:
                    flags.add("repeat")
                seen[(i, h)] = a
                err = None
                try:
                    child = parent.subkey(i, is_hardened=h, as_private=a)
                except Exception as e:
                    err = "EXC %s: %s" % (type(e).__name__, e)
                if not private_parent and h:
                    if err is None:
                        raise Mismatch("hardened-from-public", "refused", "returned %r" % (child,), clause="hardened-from-public")
                    flags.add("refusal")
                    continue
                if err is not None:
                    if not private_parent and a is True:
                        flags.add("private-of-public-refused")         # property is silent
                        continue
                    raise Mismatch("exception", "child %d%s" % (i, "H" if h else ""), err, clause="exception")
                rchild = ref.derive(rparent, [(i, h)])
                want_private = private_parent and a is not False
                if not private_parent and a is True:
                    flags.add("private-of-public-gives-public")
                expect_node("subkey-call", child, rchild if want_private else ref.neuter(rchild), ver,
                            "cache-privacy" if "privacy-switch" in flags else "subkey",
                            detail=" %d subkey(%d, is_hardened=%s, as_private=%s)" % (step, i, h, a))
            expect_node("parent-after-history", parent, rparent, ver, "parent-mutated")
            if private_parent:
                # the public copy taken AFTER the history must behave like a fresh public node: what the private node
                # derived (and memoised) must not become available through it
                pub = parent.public_copy()
                rpub = ref.neuter(rparent)
                for (i, h, a) in OPS:
                    i, h = int(i), bool(h)
                    err = None
                    try:
                        child = pub.subkey(i, is_hardened=h, as_private=a)
                    except Exception as e:
                        err = "EXC %s" % type(e).__name__
                    if h:
                        if err is None:
                            raise Mismatch("hardened-from-public", "public_copy() refuses hardened child %dH" % i, "returned %r" % (child,),
                                           clause="hardened-from-public-copy")
                        continue
                    if err is not None:
                        if a is True:
                            continue
                        raise Mismatch("exception", "public_copy().subkey(%d)" % i, err, clause="exception")
                    expect_node("public-copy-subkey", child, ref.neuter(ref.derive(rparent, [(i, False)])), ver, "public-copy-leaks-private",
                                detail=" public_copy().subkey(%d, as_private=%s)" % (i, a))
                expect_node("public-copy", pub, rpub, ver, "public-copy")
        except Mismatch as mm:
            return BAD(mm.cls, mm.ref, "after call %d: %s" % (step, mm.impl), n=step + 1, **mm.tags)
        except Exception as e:
            return BAD("exception", "history runs", "after call %d: EXC %s: %s" % (step, type(e).__name__, e), n=step + 1,
                       clause="exception")
        return OK("len=%d %s" % (len(hist), "+".join(sorted(flags)) or "plain"), n=len(hist))

    def nontrivial(self, cls):
        return "privacy-switch" in cls or cls.startswith("len=3")


# ---------------------------------------------------------------- Electrum
class Electrum(Driver):
    id = "C09.electrum"
    rule = ("Electrum v1 wallets from 2 seeds x paths {k, k/0, k/1 : k <= 3}: private child = reference, public child derived "
            "from the public-only wallet = public half of the private child = reference; non-trivial = every path")

    def __init__(self, tier, seed):
        Driver.__init__(self, tier, seed)
        self.seeds = ["00112233445566778899aabbccddeeff", seed_bytes(seed, "c09.electrum", 16).hex()]
        self.kmax = 3 if tier == "quick" else 12
        self.bound = dict(seeds=2, paths="k, k/0, k/1 for k <= %d" % self.kmax)

    def units(self):
        for s in self.seeds:
            yield dict(seed=s)

    def execute(self, unit):
        for k in range(0, self.kmax + 1):
            for p in ("%d" % k, "%d/0" % k, "%d/1" % k):
                case = dict(seed=unit["seed"], path=p)
                yield case, self.run(case)

    def run(self, case):
        t = case["path"].split("/")
        k, c = int(t[0]), int(t[1]) if len(t) > 1 else 0
        mk = ref.electrum_stretch(case["seed"])
        mpoint = ref.pt_mul(mk, ref.G)
        want_k = ref.electrum_priv(mk, k, c)
        want_K = ref.electrum_pub(mpoint, k, c)
        n = 0
        try:
            net = network("BTC")
            w = net.keys.electrum_seed(case["seed"])
            if w.secret_exponent() != mk or bytes(w.master_public_key()) != ref.electrum_mpk(mpoint):
                return BAD("master", "master key %x" % mk, "%r" % (w.secret_exponent(),), clause="electrum-ref")
            prv = w.subkey(case["path"])
            pubw = w.public_copy()
            if pubw.secret_exponent() is not None:
                return BAD("public-copy-private", "public_copy has no secret", "has one", clause="electrum-commutation")
            pub = pubw.subkey(case["path"])
            n = 2
            if pub.secret_exponent() is not None:
                return BAD("public-child-private", "no secret", "secret present", clause="electrum-commutation")
            if tuple(pub.public_pair()) != tuple(prv.public_pair()) or pub.address() != prv.address():
                return BAD("commutation", "public derivation = public half of private derivation %r" % (tuple(prv.public_pair()),),
                           "%r" % (tuple(pub.public_pair()),), n=n, clause="electrum-commutation")
            if prv.secret_exponent() != want_k or tuple(prv.public_pair()) != want_K:
                return BAD("reference", "child secret %x" % want_k, "%r" % (prv.secret_exponent(),), n=n, clause="electrum-ref")
            via = w.subkey_for_path(case["path"])
            if via.secret_exponent() != want_k:
                return BAD("subkey_for_path", "%x" % want_k, "%r" % (via.secret_exponent(),), n=n, clause="electrum-ref")
        except Exception as e:
            return BAD("exception", "derivation succeeds", "EXC %s: %s" % (type(e).__name__, e), n=n, clause="exception")
        return OK("for_change=%d%s" % (c, "" if len(t) > 1 else "-implicit"), n=3)


DRIVERS = [Paths, Ranges, Text, Cache, Electrum]
ASSUMPTIONS = [
    "indices come from the boundary alphabet {0,1,2^24-1,2^24,2^31-1}; depth <= 3 (quick: depth <= 2 plus 40 depth-3 paths)",
    "the I_L >= n / zero-key branches of CKD (probability 2^-127 on secp256k1) are unreachable and not exercised (DESIGN.md section 6)",
    "per-network version bytes are taken from pycoin's network definitions (bound to the published ones for BTC and XTN)",
    "Groestlcoin-family networks need the groestlcoin_hash package, which is not installed: reported under configurations.absent",
    "depth 256 cannot be serialised in BIP32's one-byte depth field and is excluded",
]


def CONFIGURATIONS():
    return dict(networks=len(netcodes()), absent=["groestlcoin_hash (GRS, GRSRT, TGRS text forms)"] if groestl_missing() else [],
                ec_backend="pycoin default (OpenSSL-accelerated secp256k1 when libcrypto loads)")
