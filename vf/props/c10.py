"""C10 - key and signature encodings (WIF, SEC, DER) are lossless and strict (Mode I).

WIF: boundary exponents x {compressed, uncompressed} x every network.  SEC: blob length 0..70 x
all 256 prefix bytes x x-class x y-class through network.keys.public / Key.from_sec (the decision)
and sec_to_public_pair strict / lax (consistency, recorded).  DER: boundary (r, s) grid, every
one-byte deletion / prefix truncation / insertion of each encoding, trailing bytes inside and after
the sequence, long-form length variants.  Oracles: vf.ref.sec (a blob is accepted iff it is THE
canonical encoding of a curve point), vf.ref.der (strict DER), reference hash160."""
import contextlib
import hashlib
import io

from ..engine import Driver, OK, BAD, ModelInvalid, seed_int
from ..ref import ec, sec as refsec, der as refder

C = ec.SECP256K1
P, N = C["p"], C["n"]
TWO256 = 2 ** 256
B58 = "123456789ABCDEFGHJKLMNPQRSTUVWXYZabcdefghijkmnopqrstuvwxyz"


def _try(f, *a):
    try:
        return True, f(*a)
    except Exception as e:
        return False, e


def exc_name(e):
    return type(e).__name__


def b58check(payload):
    """Base58Check text of payload (double SHA-256 checksum) - the standard WIF/address armour"""
    raw = payload + hashlib.sha256(hashlib.sha256(payload).digest()).digest()[:4]
    v = int.from_bytes(raw, "big")
    s = ""
    while v:
        v, r = divmod(v, 58)
        s = B58[r] + s
    return "1" * (len(raw) - len(raw.lstrip(b"\0"))) + s


def hash160(b):
    return hashlib.new("ripemd160", hashlib.sha256(b).digest()).digest()


def quiet(f, *a):
    """call f with stdout swallowed (some networks print import hints)"""
    with contextlib.redirect_stdout(io.StringIO()):
        return f(*a)


def all_networks():
    from pycoin.networks.registry import network_codes
    return sorted(network_codes())


_NET = {}


def net(code):
    if code not in _NET:
        from pycoin.networks.registry import network_for_netcode
        _NET[code] = network_for_netcode(code)
    return _NET[code]


def seed_exponent(seed):
    return 0x0C28FCA386C7A227600B2FE50B7CAE11EC86D3BF1FBE471BE89827E19D72AA1D if seed == 0 else seed_int(seed, "C10.exponent", 3, N - 3)


# ------------------------------------------------------------------ WIF and key round trips
class Wif(Driver):
    id = "C10.wif"
    rule = ("case = (network, secret exponent e, compression flag): valid e: key.wif() is the Base58Check text of prefix||e32||[01], parse.wif returns the same "
            "exponent, flag, hash160, address; key.sec() -> keys.public() returns the same point, flag, hash160, address; e outside [1,n-1]: keys.private "
            "raises InvalidSecretExponentError and a hand-made WIF of e is refused; non-trivial = boundary exponents (all but the seed one)")

    def __init__(self, tier, seed):
        Driver.__init__(self, tier, seed)
        self.E = [0, 1, 2, 2 ** 255, N - 1, N, N + 1, TWO256 - 1, seed_exponent(seed)] + ([3, N - 2, (N - 1) // 2, 2 ** 128] if tier == "thorough" else [])
        self.bound = dict(networks=len(all_networks()), exponents=[str(e) for e in self.E], flags=["compressed", "uncompressed"])

    def units(self):
        for code in all_networks():
            for e in self.E:
                for comp in (True, False):
                    yield dict(network=code, e=str(e), compressed=comp)

    def run(self, case):
        e, comp, code = int(case["e"]), case["compressed"], case["network"]
        ok, nw = _try(net, code)
        if not ok:
            return BAD("exception", "network loads", repr(nw), clause="network")
        prefix = nw.parse._wif_prefix
        wif_ref = b58check(prefix + e.to_bytes(32, "big") + (b"\x01" if comp else b""))
        if not (1 <= e < N):
            ok, k = _try(nw.keys.private, e, comp)
            if ok or not isinstance(k, nw.keys.InvalidSecretExponentError):
                return BAD("bad-exponent-accepted" if ok else "wrong-error", "InvalidSecretExponentError", repr(k), clause="exponent-range")
            ok, k2 = _try(quiet, nw.parse.wif, wif_ref)
            if ok and k2 is not None:
                return BAD("bad-exponent-accepted", "WIF of e outside [1,n-1] refused", "parse.wif -> %r" % (k2,), n=2, clause="wif-exponent-range")
            how = "None" if ok else exc_name(k2)
            if not ok and isinstance(k2, ImportError):
                return OK("trivial-outside:hash-package-absent", n=2)
            return OK("refused:e=%s:parse.wif->%s" % ("0" if e == 0 else ">=n", how), n=2)
        Q = ec.mul(e, C["G"], P, C["a"])
        sec_ref = refsec.encode(Q, comp)
        h_ref = hash160(sec_ref)
        ok, key = _try(nw.keys.private, e, comp)
        if not ok:
            return BAD("exception", "key for valid exponent", repr(key), clause="key-construct")
        ok, facts = _try(lambda: (key.secret_exponent(), key.is_compressed(), tuple(key.public_pair()), key.sec(), key.hash160(), key.sec(is_compressed=not comp), key.hash160(is_compressed=not comp)))
        exp = (e, comp, Q, sec_ref, h_ref, refsec.encode(Q, not comp), hash160(refsec.encode(Q, not comp)))
        if not ok or facts != exp:
            return BAD("key-facts", repr(exp), repr(facts), clause="key-facts")
        calls = 1
        # SEC round trip through the network API
        ok, pk = _try(nw.keys.public, sec_ref)
        calls += 1
        if not ok:
            return BAD("exception", "keys.public(key.sec())", repr(pk), n=calls, clause="sec-roundtrip")
        ok, f2 = _try(lambda: (pk.secret_exponent(), pk.is_compressed(), tuple(pk.public_pair()), pk.sec(), pk.hash160()))
        if not ok or f2 != (None, comp, Q, sec_ref, h_ref):
            return BAD("sec-roundtrip", repr((None, comp, Q, sec_ref.hex(), h_ref.hex())), repr(f2), n=calls, clause="sec-roundtrip")
        # WIF text and round trip
        ok, w = _try(quiet, key.wif)
        calls += 1
        if not ok and isinstance(w, ImportError):
            return OK("trivial-outside:hash-package-absent", n=calls)
        if not ok or w != wif_ref:
            return BAD("wif-text", wif_ref, repr(w), n=calls, clause="wif-text")
        ok, k2 = _try(quiet, nw.parse.wif, w)
        calls += 1
        if not ok or k2 is None:
            return BAD("wif-roundtrip", "parse.wif(key.wif()) is a key", repr(k2), n=calls, clause="wif-roundtrip")
        # history variant: one parseable_str instance first shown to two OTHER networks (one sharing the WIF version byte when
        # there is one, one not), then to this one: the answer must be the same key
        def shared_history():
            ps = nw.parseable_str_type(w)
            for oc in ("BTC", "BCH", "XTN", "LTC"):
                if oc != case["network"]:
                    quiet(net(oc).parse.wif, ps)
            return quiet(nw.parse.wif, ps)
        ok, k3 = _try(shared_history)
        calls += 1
        if not ok or k3 is None or _try(lambda: (k3.secret_exponent(), k3.is_compressed(), quiet(k3.address), quiet(k3.wif)))[1] != \
                (e, comp, _try(quiet, k2.address)[1], w):
            return BAD("wif-shared-str", "parse.wif on a parseable_str other networks have seen gives the same key as on a fresh str",
                       repr(k3) if not ok or k3 is None else repr((k3.secret_exponent(), k3.is_compressed(), quiet(k3.address), quiet(k3.wif))),
                       n=calls, clause="wif-shared-parseable-str")
        ok, f3 = _try(lambda: (k2.secret_exponent(), k2.is_compressed(), tuple(k2.public_pair()), k2.hash160(), quiet(k2.address), quiet(key.address), quiet(pk.address),
                               quiet(key.wif, not comp)))
        if not ok:
            return BAD("exception", "facts of the re-parsed key", repr(f3), n=calls, clause="wif-roundtrip")
        if f3[:4] != (e, comp, Q, h_ref) or not (f3[4] == f3[5] == f3[6]):
            return BAD("wif-roundtrip", repr((e, comp, Q, h_ref.hex(), "same address x3")), repr(f3), n=calls, clause="wif-roundtrip")
        if f3[7] != b58check(prefix + e.to_bytes(32, "big") + (b"" if comp else b"\x01")):
            return BAD("wif-text", "wif(is_compressed=%r) text" % (not comp), repr(f3[7]), n=calls, clause="wif-text")
        # the address commits to the hash160 of this very encoding: the other compression gives another address
        ok, other = _try(quiet, key.address, not comp)
        if not ok or other == f3[4]:
            return BAD("address-compression", "address differs between compressed and uncompressed", repr(other), n=calls, clause="address-compression")
        # the public-only copy of the key and of the re-parsed key keeps point, flag, hash160 and address (round 6, C10-x1)
        for name, src in (("key", key), ("parse.wif(key.wif())", k2)):
            ok, f4 = _try(lambda: (lambda c: (c.secret_exponent(), c.is_compressed(), tuple(c.public_pair()), c.sec(), c.hash160(), quiet(c.address)))(src.public_copy()))
            calls += 1
            if not ok or f4 != (None, comp, Q, sec_ref, h_ref, f3[4]):
                return BAD("public-copy", repr((None, comp, Q, sec_ref.hex(), h_ref.hex(), f3[4])), repr(f4), n=calls, clause="public-copy:" + name)
        # a checksummed text with this network's WIF prefix whose payload is not e32 or e32||01 is no WIF (round 6, C10-x2):
        # refused = None or an exception (C18 decides totality), never a key
        if not comp:
            e32 = e.to_bytes(32, "big")
            for tail_name, payload in (("tail-00", e32 + b"\x00"), ("tail-02", e32 + b"\x02"), ("tail-ff", e32 + b"\xff"), ("tail-0101", e32 + b"\x01\x01"),
                                       ("tail-0100", e32 + b"\x01\x00"), ("tail-junk5", e32 + b"junk!"), ("short-31", e32[1:]), ("short-30+01", e32[2:] + b"\x01"),
                                       ("empty", b"")):
                ok, k5 = _try(quiet, nw.parse.wif, b58check(prefix + payload))
                calls += 1
                if ok and k5 is not None:
                    return BAD("malformed-wif-accepted", "payload %s (%d bytes after the prefix) refused" % (tail_name, len(payload)),
                               "parse.wif -> %r" % (k5,), n=calls, clause="wif-malformed:" + tail_name)
        lab = "seed" if e == seed_exponent(self.seed) else "boundary"
        return OK("roundtrip:%s:%s" % (lab, "compressed" if comp else "uncompressed"), n=calls + 1)

    def nontrivial(self, cls):
        return not cls.startswith("roundtrip:seed") and not cls.startswith("trivial")

    def selfcheck(self):
        # Base58Check helper and hash160 against the classic published example (Bitcoin wiki "Wallet import format",
        # also used in /repo/tests: exponent 0C28FCA3..., WIF 5HueCGU8..., compressed KwdMAjGm...)
        e = 0x0C28FCA386C7A227600B2FE50B7CAE11EC86D3BF1FBE471BE89827E19D72AA1D
        if b58check(b"\x80" + e.to_bytes(32, "big")) != "5HueCGU8rMjxEXxiPuD5BDku4MkFqeZyd4dZ1jvhTVqvbTLvyTJ":
            raise ModelInvalid("b58check/WIF example")
        if b58check(b"\x80" + e.to_bytes(32, "big") + b"\x01") != "KwdMAjGmerYanjeui5SHS7JkmpZvVipYvB2LJGU1ZxJwYvP98617":
            raise ModelInvalid("b58check/WIF compressed example")
        Q = ec.mul(1, C["G"], P, 0)
        if b58check(b"\x00" + hash160(refsec.encode(Q, True))) != "1BgGZ9tcN4rm9KBzDn7KprQz87SZ26SAMH" or \
                b58check(b"\x00" + hash160(refsec.encode(Q, False))) != "1EHNa6Q4Jz2uvNExL497mE43ikXhwF6kZm":
            raise ModelInvalid("hash160/address of key 1")
        try:
            return 4 + refsec.selfcheck() + refder.selfcheck()
        except ValueError as e:
            raise ModelInvalid(str(e))


# ------------------------------------------------------------------ public pairs given directly
class PublicPair(Driver):
    id = "C10.public-pair"
    rule = ("case = (x, y) handed to keys.public as a tuple: on-curve canonical pairs accepted, off-curve pairs (incl. (0,0), (x,y+1), swapped) raise "
            "InvalidPublicPairError; pairs with a coordinate >= p are recorded only; non-trivial = all")

    def __init__(self, tier, seed):
        Driver.__init__(self, tier, seed)
        self.bound = dict(points="G, 2G, seed point, small-x point, small-y point", variants="exact, y+1, y negated, swapped, (0,0), (x,0), (0,y), x+p, y+p, (None,None), (x,None)")

    def units(self):
        pts = [C["G"], ec.add(C["G"], C["G"], P, 0), ec.mul(seed_exponent(self.seed), C["G"], P, 0), small_x_point(), small_y_point()]
        for Q in pts:
            x, y = Q
            for name, pair in (("exact", (x, y)), ("y+1", (x, y + 1)), ("negated", (x, P - y)), ("swapped", (y, x)), ("zero", (0, 0)), ("y=0", (x, 0)), ("x=0", (0, y)),
                               ("x+p", (x + P, y)), ("y+p", (x, y + P)), ("none", (None, None)), ("y-none", (x, None))):
                yield dict(variant=name, pair=[None if v is None else str(v) for v in pair])

    def run(self, case):
        pair = tuple(None if v is None else int(v) for v in case["pair"])
        nw = net("BTC")
        canonical = None not in pair and 0 <= pair[0] < P and 0 <= pair[1] < P
        oncurve = canonical and ec.on_curve(pair, P, 0, 7)
        ok, k = _try(nw.keys.public, pair)
        if None in pair:
            return OK("recorded:%s:%s" % (case["variant"], "accepted" if ok else exc_name(k)))
        if not canonical:
            # a coordinate >= p: refusing is fine; if a key is made of it, that key must still round-trip through SEC
            if not ok:
                return OK("refused:%s:%s" % (case["variant"], exc_name(k)))
            for comp in (True, False):
                ok2, k2 = _try(lambda: nw.keys.public(k.sec(is_compressed=comp)))
                if not ok2 or tuple(k2.public_pair()) != tuple(k.public_pair()) or k2.address(is_compressed=comp) != k.address(is_compressed=comp):
                    return BAD("unreduced-pair-accepted", "a key that round-trips through its own SEC encoding (or InvalidPublicPairError)",
                               "key with public pair %r; keys.public(key.sec(compressed=%s)) -> %s" % (tuple(k.public_pair()), comp,
                               k2 if not ok2 else tuple(k2.public_pair())), clause="public-pair-unreduced")
            return OK("accepted-roundtrips:%s" % case["variant"])
        if oncurve:
            if not ok or tuple(k.public_pair()) != pair or k.sec() != refsec.encode(pair, True):
                return BAD("reject-vs-accept", "key for on-curve pair", repr(k), clause="public-pair")
            return OK("accepted:%s" % case["variant"])
        if ok or not isinstance(k, nw.keys.InvalidPublicPairError):
            return BAD("accept-vs-reject" if ok else "wrong-error", "InvalidPublicPairError", repr(k), clause="public-pair-off-curve")
        return OK("refused:%s" % case["variant"])


# ------------------------------------------------------------------ SEC blobs
def cube_root(v):
    """cube root modulo the secp256k1 prime (p = 7 mod 9): v^((p+2)/9), or None"""
    if P % 9 != 7:
        raise ModelInvalid("cube root shortcut needs p = 7 mod 9")
    r = pow(v, (P + 2) // 9, P)
    return r if pow(r, 3, P) == v % P else None


def small_x_point():
    """the curve point with the smallest x > 0 (even y)"""
    for x in range(1, 1000):
        l = ec.lift_x(x, P, 0, 7)
        if l:
            return l[0]


def small_y_point():
    """a curve point with the smallest y >= 1 for which y^2 - 7 is a cube"""
    for y in range(1, 1000):
        x = cube_root(y * y - 7)
        if x is not None and ec.on_curve((x, y), P, 0, 7):
            return (x, y)


def no_point_x():
    for x in range(1, 1000):
        if not ec.lift_x(x, P, 0, 7):
            return x


def x_classes(seed):
    """label -> (x value placed in the blob, y of a matching point or None)"""
    k = seed_exponent(seed)
    A = ec.mul(k, C["G"], P, 0)
    if A[1] & 1:
        A = ec.neg(A, P)
    B = ec.mul(k + 1, C["G"], P, 0)
    if not B[1] & 1:
        B = ec.neg(B, P)
    sx = small_x_point()
    sy = small_y_point()
    out = [("even-y", A[0], A[1]), ("odd-y", B[0], B[1]), ("no-point", no_point_x(), None), ("small-x", sx[0], sx[1]), ("small-x+p", sx[0] + P, sx[1]),
           ("small-y-point", sy[0], sy[1]), ("p-1", P - 1, None), ("p", P, None), ("zeros", 0, None), ("ones", TWO256 - 1, None)]
    res = []
    for lab, x, y in out:
        if y is None:
            l = ec.lift_x(x % P, P, 0, 7)
            y = l[0][1] if l else None
        res.append((lab, x, y))
    return res


def y_classes(y):
    """label -> y value placed in an uncompressed blob, given the matching point's y (or None when x has no point)"""
    if y is None:
        return [("arbitrary", 0x1234567)]
    out = [("correct", y), ("negated", P - y), ("off-curve", y ^ 2)]
    if y + P < TWO256:
        out.append(("y+p", y + P))
    if P - y + P < TWO256:
        out.append(("negated+p", 2 * P - y))
    return out


class Sec(Driver):
    id = "C10.sec"
    rule = ("case = SEC candidate blob: length 0..70 x all 256 prefix bytes x x-class (valid even/odd y, no point, small x, small x + p, p-1, p, 00.., ff..) x "
            "y-class (correct, negated, off-curve, +p aliases); keys.public / Key.from_sec accept iff the reference canonical decoder accepts, then same "
            "point, flag, and key.sec() == blob; sec_to_public_pair strict/lax recorded and checked for value; non-trivial = length 33 or 65, or accepted")

    def __init__(self, tier, seed):
        Driver.__init__(self, tier, seed)
        self.lengths = list(range(0, 71)) + ([97, 129] if tier == "thorough" else [])
        self.bound = dict(lengths="0..70" + (",97,129" if tier == "thorough" else ""), prefixes="all 256", x_classes=[x[0] for x in x_classes(seed)],
                          y_classes="correct, negated, off-curve, y+p, negated+p (when < 2^256)", entry_points=["BTC network.keys.public", "Key.from_sec", "sec_to_public_pair strict", "lax"])

    def units(self):
        xs = x_classes(self.seed)
        for L in self.lengths:
            for lab, x, y in xs:
                ys = y_classes(y) if L > 33 else [("n/a", 0)]
                for ylab, yv in ys:
                    yield dict(length=L, xclass=lab, yclass=ylab, x=str(x), y=str(yv))

    def execute(self, unit):
        body = int(unit["x"]).to_bytes(32, "big") + int(unit["y"]).to_bytes(32, "big") + b"\xa5" * 64
        L = unit["length"]
        if L == 0:
            case = dict(axes=dict(length=0, xclass=unit["xclass"], yclass=unit["yclass"], prefix=None), blob="")
            yield case, self.run(case)
            return
        for prefix in range(256):
            blob = bytes([prefix]) + body[:L - 1]
            case = dict(axes=dict(length=L, xclass=unit["xclass"], yclass=unit["yclass"], prefix=prefix), blob=blob.hex())
            yield case, self.run(case)

    def run(self, case):
        from pycoin.encoding.sec import sec_to_public_pair
        blob = bytes.fromhex(case["blob"])
        try:
            pair, comp = refsec.decode(blob, C)
            reason = None
        except refsec.SECError as e:
            pair, comp, reason = None, None, str(e)
        nw = net("BTC")
        gen = nw.generator
        res = {}
        for name, f in (("keys.public", lambda: nw.keys.public(blob)), ("from_sec", lambda: nw.keys.private(1).__class__.from_sec(blob))):
            ok, k = _try(f)
            if ok:
                ok2, facts = _try(lambda: (tuple(k.public_pair()), k.is_compressed(), k.sec(), k.hash160()))
                if not ok2:
                    return BAD("exception", "facts of accepted key", repr(facts), clause="sec-accepted-key-broken", entry=name)
                res[name] = ("key", facts)
            else:
                res[name] = ("exc", exc_name(k))
        if res["keys.public"] != res["from_sec"]:
            return BAD("entry-points-differ", "keys.public == Key.from_sec", repr(res), clause="sec-entry-points")
        kind, facts = res["keys.public"]
        calls = 4
        # strict / lax low-level decoder: recorded; a returned pair for a canonical blob must be the right one
        low = {}
        for strict in (True, False):
            ok, v = _try(sec_to_public_pair, blob, gen, strict)
            low[strict] = ("pair", tuple(v)) if ok else ("exc", exc_name(v))
            if ok and reason is None and tuple(v) != pair:
                return BAD("wrong-point", "sec_to_public_pair(strict=%r) = %r" % (strict, pair), repr(v), n=calls, clause="sec-wrong-point")
        if reason is None:
            if kind != "key":
                return BAD("reject-vs-accept", "canonical encoding of %r accepted" % (pair,), facts, n=calls, clause="sec-canonical-refused")
            if facts != (pair, comp, blob, hash160(blob)):
                return BAD("wrong-key", repr((pair, comp, blob.hex())), repr(facts), n=calls, clause="sec-wrong-point")
            if low[True][0] != "pair":
                return BAD("reject-vs-accept", "strict sec_to_public_pair accepts the canonical encoding", repr(low[True]), n=calls, clause="sec-canonical-refused")
            # the same blob handed over in a buffer the caller reuses afterwards (a bytearray): the key must not follow the buffer
            buf = bytearray(blob)
            ok, kb = _try(lambda: nw.keys.public(buf))
            if ok:
                for i in range(len(buf)):
                    buf[i] ^= 0xff
                ok2, f2 = _try(lambda: (tuple(kb.public_pair()), kb.is_compressed(), bytes(kb.sec()), kb.hash160(), kb.address()))
                calls += 2
                want2 = (pair, comp, blob, hash160(blob), k.address())
                if not ok2 or f2 != want2:
                    return BAD("argument-aliased", "key built from a bytearray keeps %r after the caller overwrote its buffer" % (want2[2].hex(),),
                               repr(f2), n=calls, clause="sec-argument-aliased")
            return OK("accepted:%s" % ("compressed" if comp else "uncompressed"), n=calls)
        if kind == "key":
            canon_pt = ec.canon(facts[0], P)
            same_point_as = None
            if ec.on_curve(canon_pt, P, 0, 7):
                same_point_as = refsec.encode(canon_pt, facts[1]).hex()
            clause = {"x>=p": "sec-x-ge-p", "coord>=p": "sec-coord-ge-p-uncompressed", "prefix": "sec-prefix", "length": "sec-length", "off-curve": "sec-off-curve",
                      "no-point": "sec-no-point"}[reason]
            return BAD("accept-vs-reject", "refused (%s)" % reason,
                       "accepted as key with public pair %r; key.sec() = %s; canonical encoding of the same point: %s" % (facts[0], facts[2].hex(), same_point_as),
                       n=calls, clause=clause, reason=reason)
        if reason in ("x>=p", "coord>=p", "prefix", "length") and low[True][0] == "pair":
            # length, prefix and coordinate range are decided by the strict low-level decoder itself (curve membership of an
            # uncompressed point is not: that is left to the key level, see ASSUMPTIONS)
            return BAD("strict-decoder-accepts", "sec_to_public_pair(strict=True) refuses (%s)" % reason, "returned %r" % (low[True][1],), n=calls,
                       clause="sec-strict-decoder:" + reason, reason=reason)
        lax_reason = None
        if len(blob) not in (33, 65):
            lax_reason = "length"
        elif len(blob) == 33 and blob[0] in (2, 3) and int.from_bytes(blob[1:], "big") >= P:
            lax_reason = "x>=p"
        elif len(blob) == 65 and blob[0] in (4, 6, 7) and (int.from_bytes(blob[1:33], "big") >= P or int.from_bytes(blob[33:], "big") >= P):
            lax_reason = "coord>=p"
        if lax_reason and low[False][0] == "pair":
            reason = lax_reason
            # the lax decoder (hybrid prefixes allowed, as in consensus) must still refuse wrong lengths and unreduced coordinates
            return BAD("lax-decoder-accepts", "sec_to_public_pair(strict=False) refuses (%s)" % reason, "returned %r" % (low[False][1],), n=calls,
                       clause="sec-lax-decoder:" + reason, reason=reason)
        L = len(blob)
        shape = "len33" if L == 33 else "len65" if L == 65 else "other-length"
        return OK("refused:%s:%s:%s%s" % (reason, shape, facts, "" if low[False][0] == "exc" else ":lax-accepts"), n=calls)

    def nontrivial(self, cls):
        return "other-length" not in cls


# ------------------------------------------------------------------ DER
DER_V = [0, 1, 127, 128, 255, 256, 2 ** 255 - 1, 2 ** 255, N - 1, N, TWO256 - 1, 2 ** 264]


def ref_strict(blob):
    try:
        return ("ok", refder.decode(blob))
    except refder.DERError as e:
        return ("err", str(e))


class Der(Driver):
    id = "C10.der"
    rule = ("case = (r, s) from the boundary grid and one mutation of its DER encoding (none, delete byte i, cut to i bytes, insert byte b at i for b in "
            "{00,01,7f,80,ff}, trailing bytes after and inside the sequence, long-form length variants): encoder == reference DER, both decoders invert it, "
            "strict decoder refuses trailing bytes, and returns the right pair whenever the mutant is itself a canonical encoding; other acceptances of "
            "non-DER input are recorded; non-trivial = every mutation class")

    def __init__(self, tier, seed):
        Driver.__init__(self, tier, seed)
        self.V = DER_V + ([2, 2 ** 63, 2 ** 64 - 1, 2 ** 1023] if tier == "thorough" else [])
        self.bound = dict(values=[str(v) for v in self.V], pairs=len(self.V) ** 2, mutations="identity, delete@i, cut@i, insert{00,01,7f,80,ff}@i, trailing x4 (after), "
                          "trailing inside (length fixed up), long-form sequence length, long-form integer lengths")

    def units(self):
        for r in self.V:
            for s in self.V:
                yield dict(r=str(r), s=str(s))

    def mutants(self, enc):
        yield "identity", enc
        for i in range(len(enc)):
            yield "delete", enc[:i] + enc[i + 1:]
        for i in range(len(enc)):
            yield "cut", enc[:i]
        for i in range(len(enc) + 1):
            for b in (0x00, 0x01, 0x7F, 0x80, 0xFF):
                yield ("trailing-after" if i == len(enc) else "insert"), enc[:i] + bytes([b]) + enc[i:]
        for tail in (b"\x00\x00", b"\x02\x01\x01", enc):
            yield "trailing-after", enc + tail
        # trailing bytes INSIDE the sequence: content extended, sequence length fixed up
        hdr = 2 if enc[1] < 0x80 else 2 + (enc[1] & 0x7F)
        content = enc[hdr:]
        for tail in (b"\x00", b"\xff", b"\x02\x01\x01", b"\x05\x00"):
            yield "trailing-inside", b"\x30" + refder.enc_len(len(content) + len(tail)) + content + tail
        # non-minimal (long-form) lengths
        if len(content) < 256:
            yield "longform-seq", b"\x30\x81" + bytes([len(content)]) + content
        yield "longform-seq2", b"\x30\x82" + len(content).to_bytes(2, "big") + content

    def execute(self, unit):
        from pycoin.satoshi.der import sigencode_der
        r, s = int(unit["r"]), int(unit["s"])
        ok, enc = _try(sigencode_der, r, s)
        exp = refder.encode(r, s)
        if not ok or enc != exp:
            case = dict(r=unit["r"], s=unit["s"], mutation="encode", blob="")
            yield case, self.run(case)
            return
        seen = set()
        for name, blob in self.mutants(exp):
            if (name, blob) in seen:
                continue
            seen.add((name, blob))
            case = dict(r=unit["r"], s=unit["s"], mutation=name, blob=blob.hex())
            yield case, self.run(case)

    def run(self, case):
        from pycoin.satoshi.der import sigdecode_der, sigencode_der
        r, s = int(case["r"]), int(case["s"])
        name = case["mutation"]
        if name == "encode":
            ok, enc = _try(sigencode_der, r, s)
            exp = refder.encode(r, s)
            if not ok or enc != exp:
                if max(r, s) >= 2 ** 1015:
                    # integers whose content needs 128+ bytes (long-form length) are no signatures of any supported curve: recorded
                    return OK("outside:integer>=2^1015:encoder-differs-from-DER")
                return BAD("encoder", exp.hex(), enc.hex() if ok else repr(enc), clause="der-encode")
            return OK("encode")
        blob = bytes.fromhex(case["blob"])
        rv = ref_strict(blob)
        ok, strict = _try(sigdecode_der, blob, False)
        ok2, lax = _try(sigdecode_der, blob)
        if name == "identity":
            if not ok or tuple(strict) != (r, s) or not ok2 or tuple(lax) != (r, s):
                return BAD("roundtrip", "(r, s) = %r from both decoders" % ((r, s),), "strict %r, default %r" % (strict, lax), n=2, clause="der-roundtrip")
            return OK("identity", n=2)
        if rv[0] == "ok":
            # the mutant is itself THE encoding of rv[1] (non-negative ones round-trip by the property; negative integers are outside it)
            if min(rv[1]) >= 0:
                if not ok or tuple(strict) != rv[1]:
                    return BAD("roundtrip", "strict decode = %r" % (rv[1],), repr(strict), n=2, clause="der-roundtrip")
                return OK("%s:canonical-again" % name, n=2)
            return OK("%s:canonical-negative:%s" % (name, "accepted" if ok else exc_name(strict)), n=2)
        why = rv[1]
        if not ok:
            return OK("%s:both-refuse:%s%s" % (name, exc_name(strict), "" if not ok2 else ":default-mode-accepts"), n=2)
        if why.startswith("trailing bytes") or name.startswith("trailing"):
            return BAD("accept-vs-reject", "strict decoder refuses (%s)" % why, "returned %r" % (strict,), n=2, clause="der-trailing", mutation=name)
        return OK("%s:recorded-strict-accepts-non-DER:%s" % (name, why), n=2)


def CONFIGURATIONS():
    out = dict(present=[], absent=[])
    try:
        import importlib.util
        out["networks"] = all_networks()
        (out["present"] if importlib.util.find_spec("groestlcoin_hash") else out["absent"]).append("groestlcoin_hash (GRS, GRSRT, TGRS Base58 armour: WIF text and addresses of these networks cannot be produced; SEC/hash160 round trips still run)")
        from pycoin.ecdsa.native.openssl import OpenSSL
        from pycoin.ecdsa.native.secp256k1 import libsecp256k1
        (out["present"] if OpenSSL else out["absent"]).append("OpenSSL libcrypto mix-in")
        (out["present"] if libsecp256k1 else out["absent"]).append("libsecp256k1 mix-in")
        out["hashlib_ripemd160"] = "ripemd160" in hashlib.algorithms_available
    except Exception as e:
        out["error"] = repr(e)
    return out


DRIVERS = [Wif, PublicPair, Sec, Der]
ASSUMPTIONS = [
    "all shipped networks use secp256k1; SEC candidates are classified for that curve",
    "SEC acceptance is judged at the key level (network.keys.public / Key.from_sec); sec_to_public_pair alone does not promise an on-curve test for "
    "uncompressed blobs and its lax mode is recorded only",
    "a refused input may be refused by any exception; InvalidSecretExponentError / InvalidPublicPairError are demanded only where the property names them "
    "(keys.private with e outside [1,n-1], keys.public with an off-curve pair)",
    "DER: the property demands round trip, and refusal of trailing bytes in strict mode; other non-DER inputs accepted by the strict decoder are recorded, not flagged",
    "byte strings are drawn from the stated grid, not all 2^560 strings",
]
