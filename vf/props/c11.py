"""C11 - Base58, Base58Check and Bech32/Bech32m codecs are exact and detect corruption (Mode I + bound linear model).

  C11.b58      byte strings -> b2a_base58 -> a2b_base58; every short alphabet string decoded and re-encoded; excluded characters
  C11.b58check valid strings, every single-byte checksum corruption, every single-character substitution/deletion, short strings
  C11.grid     (hrp, version, program length, checksum constant, padding, case) grid + structural corruptions, against BIP173/BIP350
  C11.errors   every 1-/2-position (thorough: <= 4 on a short string) substitution of valid strings on the real decoders
  C11.bch      syndrome table extracted from the real bech32_polymod; linearity conformance; exhaustive decision that no error
               pattern of weight 1..4 has zero syndrome; every cross-constant pattern fed to the real decoders

The oracle for every string is the reference decoder (vf.ref.bech32 / vf.ref.base58): a corrupted string that is itself
a valid encoding (possible only across the two checksum constants) must be accepted, everything else rejected."""
import itertools

from ..engine import Driver, OK, BAD, ModelInvalid, seed_bytes
from ..ref import base58 as R58
from ..ref import bech32 as RB

SEQ32 = bytes(range(1, 33)).hex()


class _Api(object):
    _cache = None

    @classmethod
    def get(cls):
        if cls._cache is None:
            from pycoin.encoding import b58
            from pycoin.encoding.exceptions import EncodingError
            from pycoin.contrib import bech32m
            from pycoin.networks import parseable_str
            a = cls()
            a.b58 = b58
            a.EncodingError = EncodingError
            a.bech32m = bech32m
            a.ps = parseable_str
            cls._cache = a
        return cls._cache


def api():
    try:
        return _Api.get(), None
    except Exception as e:
        return None, "EXC %s: %s" % (type(e).__name__, e)


def call(f, *a, **k):
    try:
        return "ok", f(*a, **k)
    except Exception as e:
        return "exc", e


def exc_str(e):
    return "EXC %s: %s" % (type(e).__name__, str(e)[:160])


def show(st, v):
    return exc_str(v) if st == "exc" else repr(v)[:200]


def fill(length, block_hex):
    block = bytes.fromhex(block_hex)
    return (block * (length // len(block) + 1))[:length]


def no_api(err):
    return BAD("import", "pycoin imports", err, clause="import")


# ====================================================================== Base58

EXCLUDED = ["0", "O", "I", "l", " ", "\t", "\n", "\x00", "\x7f", "-", "_", "+", "/", "=", ".", "\xe9", "ı", "１", "K", "\ud800", "\udfff", "\U0001f600"]


class Base58(Driver):
    id = "C11.b58"
    rule = ("byte strings (all of length <= 2; lengths 3..80 x every leading-zero count x 4 tails) encoded and decoded back; "
            "every alphabet string of length <= 3 (thorough 4) decoded and re-encoded; strings with an excluded character at "
            "every position must raise EncodingError; non-trivial = leading zero bytes / leading '1's / rejected strings")

    def __init__(self, tier, seed):
        Driver.__init__(self, tier, seed)
        self.maxstr = 3 if tier == "quick" else 4
        self.maxlen = 80 if tier == "quick" else 130
        self.bound = dict(bytes_all="length <= 2", bytes_long="length 3..%d x zeros 0..len x tails {01 00.., ff.., 01 00ff.., seed}" % self.maxlen,
                          strings="all alphabet strings of length <= %d" % self.maxstr, excluded=[repr(c) for c in EXCLUDED])

    def units(self):
        yield dict(fam="b0")
        for a in range(256):
            yield dict(fam="b2", a=a)
        for n in range(3, self.maxlen + 1):
            yield dict(fam="blong", n=n)
        yield dict(fam="s1")
        for a in R58.ALPHABET:
            yield dict(fam="s3", pre=a)
        if self.maxstr >= 4:
            for a in R58.ALPHABET:
                for b in R58.ALPHABET:
                    yield dict(fam="s3", pre=a + b)
        yield dict(fam="excluded")

    def execute(self, unit):
        fam = unit["fam"]
        if fam == "b0":
            for h in [""] + ["%02x" % x for x in range(256)]:
                yield self._both(dict(b=h))
        elif fam == "b2":
            for b in range(256):
                yield self._both(dict(b="%02x%02x" % (unit["a"], b)))
        elif fam == "blong":
            n = unit["n"]
            sd = seed_bytes(self.seed, "C11.b58.tail", 160)
            for z in range(0, n + 1):
                m = n - z
                tails = [b""] if m == 0 else [b"\x01" + b"\x00" * (m - 1), b"\xff" * m, (b"\x01" + b"\x00\xff" * m)[:m],
                                             bytes([sd[0] | 1]) + sd[1:m]]
                for t in tails:
                    yield self._both(dict(b=(b"\x00" * z + t).hex()))
        elif fam == "s1":
            yield self._both(dict(s=""))
            for a in R58.ALPHABET:
                yield self._both(dict(s=a))
                for b in R58.ALPHABET:
                    yield self._both(dict(s=a + b))
        elif fam == "s3":
            for b in R58.ALPHABET:
                for c in R58.ALPHABET:
                    yield self._both(dict(s=unit["pre"] + b + c))
        else:
            bases = ["2g", "1111", "1BvBMSEYstWetqTFn5Au4m4GFg7xJaNVN2", "z"]
            for base in bases:
                for ch in EXCLUDED:
                    for pos in range(len(base) + 1):
                        yield self._both(dict(s=base[:pos] + ch + base[pos:]))
                        if pos < len(base):
                            yield self._both(dict(s=base[:pos] + ch + base[pos + 1:]))

    def _both(self, case):
        return case, self.run(case)

    def run(self, case):
        A, err = api()
        if A is None:
            return no_api(err)
        if "b" in case:
            b = bytes.fromhex(case["b"])
            want = R58.encode(b)
            st, text = call(A.b58.b2a_base58, b)
            if st == "exc" or text != want:
                return BAD("b58-encode", "b2a_base58(%s) = %r" % (b.hex()[:80], want), show(st, text), clause="b58-encode")
            st, back = call(A.b58.a2b_base58, want)
            if st == "exc" or back != b:
                return BAD("b58-decode", "a2b_base58(%r) = %s" % (want, b.hex()[:80]), show(st, back.hex() if st == "ok" and isinstance(back, bytes) else back),
                           n=2, clause="b58-decode")
            z = len(b) - len(b.lstrip(b"\x00"))
            return OK("bytes:%s" % ("empty" if not b else "all-zero" if z == len(b) else "zeros+tail" if z else "no-leading-zero"), n=2)
        s = case["s"]
        want = R58.decode(s)
        st, got = call(A.b58.a2b_base58, s)
        if want is None:
            if st == "ok":
                return BAD("b58-invalid-accepted", "%r is not Base58: EncodingError" % s, "returned %r" % (got,), clause="b58-invalid-accepted")
            if not isinstance(got, A.EncodingError):
                return BAD("b58-wrong-exception", "%r is not Base58: EncodingError" % s, exc_str(got), clause="b58-exception-type")
            return OK("string:rejected")
        if st == "exc" or got != want:
            return BAD("b58-decode", "a2b_base58(%r) = %s" % (s, want.hex()), show(st, got), clause="b58-decode")
        st, back = call(A.b58.b2a_base58, want)
        if st == "exc" or back != s:
            return BAD("b58-encode", "b2a_base58(%s) = %r" % (want.hex(), s), show(st, back), n=2, clause="b58-encode")
        return OK("string:%s" % ("empty" if not s else "all-ones" if s.strip("1") == "" else "ones+digits" if s[0] == "1" else "digits"), n=2)

    def nontrivial(self, cls):
        return cls not in ("bytes:no-leading-zero", "string:digits")

    def selfcheck(self):
        try:
            return R58.selfcheck() + RB.selfcheck()
        except (R58.Invalid, RB.Invalid) as e:
            raise ModelInvalid(str(e))


class Base58Check(Driver):
    id = "C11.b58check"
    rule = ("payload lengths of the bound x contents x leading-zero classes: the valid string (4 entry points), all 4x255 "
            "single-byte corruptions of the checksum, every single-character substitution and deletion of the text, and all "
            "alphabet strings of length <= 2; accept iff the reference recomputed checksum matches; non-trivial = rejected strings")

    def __init__(self, tier, seed):
        Driver.__init__(self, tier, seed)
        self.maxlen = 40 if tier == "quick" else 80
        self.contents = ["seq", "seed"] if tier == "quick" else ["seq", "seed", "ff"]
        self.bound = dict(payload_lengths="0..%d" % self.maxlen, contents=self.contents, zero_classes=["none", "one", "all"],
                          checksum_leading_zero="all-zero and zero-prefixed payloads of length <= %d whose checksum starts with 00" % (2500 if tier == "quick" else 20000),
                          corruptions="4x255 checksum bytes; every position x 57 other characters; every deletion")

    def payload(self, n, content, zeros):
        if zeros == "all":
            return b"\x00" * n
        body = {"seq": fill(n, SEQ32), "ff": b"\xff" * n, "seed": seed_bytes(self.seed, "C11.b58check.%d" % n, max(n, 1))[:n]}[content]
        if n and body[0] == 0:
            body = b"\x01" + body[1:]
        if zeros == "one" and n >= 1:
            body = b"\x00" + body[1:]
            if n >= 2 and body[1] == 0:
                body = body[:1] + b"\x01" + body[2:]
        return body

    def units(self):
        yield dict(fam="short")
        # payloads whose CHECKSUM starts with a zero byte (found with the reference): the leading-zero rule then spans the
        # payload/checksum boundary.  All-zero payloads and payloads with a non-zero body.
        nmax = 2500 if self.tier == "quick" else 20000
        for n in range(0, nmax + 1):
            for p in (b"\x00" * n, b"\x00" * (n % 7) + fill(n // 4 + 1, SEQ32)):
                if R58.checksum(p)[0] == 0:
                    yield dict(fam="chk0", p=p.hex())
        for n in range(0, self.maxlen + 1):
            seen = []
            for zeros in ("none", "one", "all"):
                for content in self.contents:
                    p = self.payload(n, content, zeros).hex()
                    if p in seen:
                        continue
                    seen.append(p)
                    yield dict(fam="payload", p=p)

    def execute(self, unit):
        if unit["fam"] == "short":
            for s in [""] + list(R58.ALPHABET) + [a + b for a in R58.ALPHABET for b in R58.ALPHABET] + ["1111", "11111", "3QJmnh"]:
                case = dict(s=s)
                yield case, self.run(case)
            return
        p = bytes.fromhex(unit["p"])
        case = dict(p=unit["p"], kind="valid")
        yield case, self.run(case)
        if unit["fam"] == "chk0":
            text = R58.encode_check(p)
            for s2 in (text[1:], "1" + text, text[:-1], text + "1", text[2:], "11" + text):
                case = dict(s=s2, kind="chk0-neighbour")
                yield case, self.run(case)
            return
        for i in range(4):
            for x in range(1, 256):
                case = dict(p=unit["p"], kind="chk", i=i, x=x)
                yield case, self.run(case)
        text = R58.encode_check(p)
        for pos in range(len(text)):
            for ch in R58.ALPHABET:
                if ch != text[pos]:
                    case = dict(s=text[:pos] + ch + text[pos + 1:], kind="subst")
                    yield case, self.run(case)
            case = dict(s=text[:pos] + text[pos + 1:], kind="delete")
            yield case, self.run(case)
        for ch in EXCLUDED:
            for pos in sorted(set((0, 1, len(text) // 2, len(text)))):
                case = dict(s=text[:pos] + ch + text[pos:], kind="insert-excluded")
                yield case, self.run(case)

    def run(self, case):
        A, err = api()
        if A is None:
            return no_api(err)
        kind = case.get("kind", "string")
        if kind == "valid":
            p = bytes.fromhex(case["p"])
            s = R58.encode_check(p)
            st, text = call(A.b58.b2a_hashed_base58, p)
            if st == "exc" or text != s:
                return BAD("b58check-encode", "b2a_hashed_base58(%s) = %r" % (p.hex()[:80], s), show(st, text), clause="b58check-encode")
            extra = 1
        elif kind == "chk":
            p = bytes.fromhex(case["p"])
            chk = bytearray(R58.checksum(p))
            chk[case["i"]] ^= case["x"]
            s = R58.encode(p + bytes(chk))
            extra = 0
        else:
            s = case["s"]
            extra = 0
        want = R58.decode_check(s)
        if kind == "valid" and want != bytes.fromhex(case["p"]):
            raise ModelInvalid("reference Base58Check does not round trip %s" % case["p"])
        if kind == "chk" and want is not None:
            raise ModelInvalid("reference accepts a corrupted checksum")
        A_ps = A.ps
        obs = []
        st, got = call(A.b58.a2b_hashed_base58, s)
        obs.append(("a2b_hashed_base58", st, got))
        st, v = call(A.b58.is_hashed_base58_valid, s)
        obs.append(("is_hashed_base58_valid", st, v))
        st, v = call(lambda: A_ps.parse_b58_double_sha256(s))
        obs.append(("parse_b58_double_sha256", st, v))
        st2, v2 = call(lambda: (lambda q: (A_ps.parse_b58_double_sha256(q), A_ps.parse_b58_double_sha256(q)))(A_ps.parseable_str(s)))
        obs.append(("parse_b58_double_sha256(cached twice)", st2, v2))

        # history: the same parseable_str is first offered to a network that uses ANOTHER checksum function (Groestlcoin) and to
        # its address parser; the double-SHA256 verdict must be what a fresh str gives
        def after_other_checksum(q):
            import contextlib, io
            from pycoin.networks.registry import network_for_netcode
            with contextlib.redirect_stdout(io.StringIO()):
                for oc in ("GRS", "BTC"):
                    for ep in ("p2pkh", "p2sh", "wif", "address"):
                        try:
                            getattr(network_for_netcode(oc).parse, ep)(q)
                        except Exception:
                            pass
            return A_ps.parse_b58_double_sha256(q)
        st3, v3 = call(lambda: after_other_checksum(A_ps.parseable_str(s)))
        if (st3, v3) != obs[2][1:]:
            return BAD("b58check-shared-str", "parse_b58_double_sha256(fresh str) = %s" % show(*obs[2][1:]),
                       "after GRS/BTC address parsers saw the same parseable_str: %s" % show(st3, v3), n=6 + extra, clause="b58check-shared-parseable-str", kind=kind)
        n = 5 + extra
        ref = "%r: %s" % (s[:100], "payload " + want.hex()[:60] if want is not None else "not valid Base58Check")
        if want is None:
            name, st, got = obs[0]
            if st == "ok":
                return BAD("b58check-invalid-accepted", ref, "%s returned %r" % (name, got), n=n, clause="b58check-invalid-accepted", kind=kind)
            if not isinstance(got, A.EncodingError):
                return BAD("b58check-wrong-exception", ref + " (EncodingError)", "%s: %s" % (name, exc_str(got)), n=n, clause="b58check-exception-type", kind=kind)
            if obs[1][1:] != ("ok", False):
                return BAD("b58check-invalid-accepted", ref, "is_hashed_base58_valid: %s" % show(*obs[1][1:]), n=n, clause="b58check-invalid-accepted", kind=kind)
            if obs[2][1:] != ("ok", None) or obs[3][1:] != ("ok", (None, None)):
                return BAD("b58check-invalid-accepted", ref, "parse_b58_double_sha256: %s / %s" % (show(*obs[2][1:]), show(*obs[3][1:])), n=n,
                           clause="b58check-helper", kind=kind)
            raw = R58.decode(s)
            return OK("rejected:%s:%s" % (kind, "not-base58" if raw is None else "short" if len(raw) < 4 else "bad-checksum"), n=n)
        if obs[0][1:] != ("ok", want):
            return BAD("b58check-valid-rejected", ref, "a2b_hashed_base58: %s" % show(*obs[0][1:]), n=n, clause="b58check-valid-rejected", kind=kind)
        if obs[1][1:] != ("ok", True):
            return BAD("b58check-valid-rejected", ref, "is_hashed_base58_valid: %s" % show(*obs[1][1:]), n=n, clause="b58check-valid-rejected", kind=kind)
        if obs[2][1:] != ("ok", want) or obs[3][1:] != ("ok", (want, want)):
            return BAD("b58check-valid-rejected", ref, "parse_b58_double_sha256: %s / %s" % (show(*obs[2][1:]), show(*obs[3][1:])), n=n,
                       clause="b58check-helper", kind=kind)
        return OK("accepted:%s" % kind, n=n)

    def nontrivial(self, cls):
        return cls.startswith("rejected")

    def selfcheck(self):
        return 0


# ====================================================================== Bech32 helpers shared by the three drivers

def spec_name(A, spec):
    if spec == A.bech32m.Encoding.BECH32:
        return RB.BECH32
    if spec == A.bech32m.Encoding.BECH32M:
        return RB.BECH32M
    return repr(spec)


def compare_string(A, hrp, s, with_helper=True, with_encode=True):
    """run every pycoin Bech32 entry point on ``s`` and compare with the reference.
    Returns (BAD outcome or None, outcome class, number of calls, reference bech32_check result)."""
    checked = RB.bech32_check(s)
    reason, r_hrp, r_data, r_spec = checked
    sreason, r_ver, r_prog = RB.segwit_rule(hrp, checked)
    n = 0
    # --- bech32_decode
    st, got = call(A.bech32m.bech32_decode, s)
    n += 1
    ref = "%r: %s" % (s[:120], "not Bech32/Bech32m (%s)" % reason if reason else "(%r, %d symbols, %s)" % (r_hrp, len(r_data), r_spec))
    if st == "exc":
        return BAD("bech32-decode-raises", ref, exc_str(got), n=n, clause="bech32-decode-exception"), None, n, checked
    try:
        g_hrp, g_data, g_spec = got
    except Exception:
        return BAD("bech32-decode", ref, "returned %r" % (got,), n=n, clause="bech32-decode"), None, n, checked
    if reason is not None:
        if (g_hrp, g_data, g_spec) != (None, None, None):
            return BAD("bech32-invalid-accepted", ref, "bech32_decode returned %r" % ((g_hrp, g_data, g_spec),), n=n,
                       clause="bech32-invalid-accepted", reason=reason), None, n, checked
    else:
        if g_hrp != r_hrp or g_data is None or list(g_data) != r_data or spec_name(A, g_spec) != r_spec:
            return BAD("bech32-valid-rejected" if g_hrp is None else "bech32-decode", ref, "bech32_decode returned %r" % ((g_hrp, g_data, g_spec),),
                       n=n, clause="bech32-valid-rejected" if g_hrp is None else "bech32-decode"), None, n, checked
        if with_encode:
            st, back = call(A.bech32m.bech32_encode, g_hrp, g_data, g_spec)
            n += 1
            if st == "exc" or back != s.lower():
                return BAD("bech32-encode", "bech32_encode(decode(s)) == %r" % s.lower()[:120], show(st, back), n=n, clause="bech32-encode"), None, n, checked
    # --- segwit decode
    st, got = call(A.bech32m.decode, hrp, s)
    n += 1
    sref = "%r: %s" % (s[:120], "not a segwit address for %r (%s)" % (hrp, sreason) if sreason else "version %d program %s" % (r_ver, r_prog.hex()))
    if st == "exc":
        return BAD("segwit-decode-raises", sref, exc_str(got), n=n, clause="segwit-decode-exception"), None, n, checked
    try:
        g_ver, g_prog = got
    except Exception:
        return BAD("segwit-decode", sref, "returned %r" % (got,), n=n, clause="segwit-decode"), None, n, checked
    if sreason is not None:
        if (g_ver, g_prog) != (None, None):
            return BAD("segwit-invalid-accepted", sref, "decode returned %r" % ((g_ver, g_prog),), n=n, clause="segwit-invalid-accepted", reason=sreason), None, n, checked
    else:
        if g_ver != r_ver or g_prog is None or bytes(g_prog) != r_prog:
            return BAD("segwit-valid-rejected" if g_ver is None else "segwit-decode", sref, "decode returned %r" % ((g_ver, g_prog),), n=n,
                       clause="segwit-valid-rejected" if g_ver is None else "segwit-decode"), None, n, checked
        if with_encode:
            st, back = call(A.bech32m.encode, hrp, r_ver, r_prog)
            n += 1
            if st == "exc" or back != s.lower():
                return BAD("segwit-encode", "encode(%r, %d, %s) == %r" % (hrp, r_ver, r_prog.hex(), s.lower()), show(st, back), n=n, clause="segwit-encode"), None, n, checked
        # the same valid address asked for under RELATED human-readable parts (a prefix, a suffix, the part before an inner '1',
        # one character more): it is an address of its own hrp only
        alts = set([r_hrp + "1", r_hrp + "x", r_hrp[:-1], r_hrp[1:]])
        if "1" in r_hrp:
            alts.update([r_hrp.split("1")[0], r_hrp.rsplit("1", 1)[0]])
        for other in sorted(alts):
            if other and other != r_hrp:
                st, got = call(A.bech32m.decode, other, s)
                n += 1
                if st == "exc" or tuple(got) != (None, None):
                    return BAD("segwit-invalid-accepted", "%r is an address of hrp %r: decode(%r, .) = (None, None)" % (s[:80], r_hrp, other),
                               show(st, got), n=n, clause="segwit-foreign-hrp-accepted"), None, n, checked
    # --- cached helper used by address parsing
    if with_helper:
        def helper():
            q = A.ps.parseable_str(s)
            return A.ps.parse_bech32(q), A.ps.parse_bech32(q), A.ps.parse_bech32(s)
        st, got = call(helper)
        n += 1
        if st == "exc":
            return BAD("helper-raises", sref, exc_str(got), n=n, clause="parse-bech32-helper"), None, n, checked
        if not (got[0] == got[1] == got[2]):
            return BAD("helper-cache", "the same result on every call", repr(got)[:300], n=n, clause="parse-bech32-helper"), None, n, checked
        h = got[0]
        if reason is not None:
            if h is not None:
                return BAD("helper-invalid-accepted", ref, "parse_bech32 returned %r" % (h,), n=n, clause="parse-bech32-helper", reason=reason), None, n, checked
        elif h is not None:
            try:
                h_hrp, h_ver, h_prog, h_spec = h
                bad = h_hrp != r_hrp or h_ver != r_data[0] or spec_name(A, h_spec) != r_spec
                looks_valid = RB.program_rule(h_ver, bytes(h_prog), spec_name(A, h_spec)) is None
            except Exception as e:
                return BAD("helper-shape", ref, "parse_bech32 returned %r (%s)" % (h, e), n=n, clause="parse-bech32-helper"), None, n, checked
            if bad:
                return BAD("helper-decode", ref, "parse_bech32 returned %r" % (h,), n=n, clause="parse-bech32-helper"), None, n, checked
            full_reason, _, full_prog = RB.segwit_rule(r_hrp, checked)
            if full_reason is None:
                if bytes(h_prog) != full_prog:
                    return BAD("helper-decode", sref, "parse_bech32 returned %r" % (h,), n=n, clause="parse-bech32-helper"), None, n, checked
            elif looks_valid:
                return BAD("helper-invalid-accepted", "%r is not a segwit address (%s)" % (s[:120], full_reason),
                           "parse_bech32 returned a well-formed (version, program, spec): %r" % (h,), n=n, clause="parse-bech32-helper", reason=full_reason), None, n, checked
        else:
            if RB.segwit_rule(r_hrp, checked)[0] is None:
                return BAD("helper-valid-rejected", sref, "parse_bech32 returned None", n=n, clause="parse-bech32-helper"), None, n, checked
    if sreason is None:
        cls = "valid:v%s:%s" % ("0" if r_ver == 0 else "1-16", r_spec)
    elif reason is None:
        cls = "bech32-ok:%s" % sreason
    else:
        cls = "rejected:%s" % reason
    return None, cls, n, checked


def apply_case(s, mode):
    if mode == "lower":
        return s
    if mode == "upper":
        return s.upper()
    k = int(mode.split(":")[1])
    return s[:k] + s[k].upper() + s[k + 1:]


def grid_string(hrp, ver, prog, spec, pad):
    """string built by the reference encoder for one grid point; pad in zero / nonzero / extra"""
    syms = RB.to5(prog)
    padbits = (5 - (8 * len(prog)) % 5) % 5
    if pad == "nonzero":
        if padbits == 0:
            return None
        syms = syms[:-1] + [syms[-1] | 1]
    elif pad == "extra":
        syms = syms + [0]
    return RB.bech32_encode(hrp, [ver] + syms, spec)


CASELESS = [("?5", 15, "f14ea7f951"), ("-)", 5, "2bdfa517c5"), ("-8#", 5, "3c6bad")]


class Grid(Driver):
    id = "C11.grid"
    rule = ("(hrp, version 0..16,17,31, program length 0..42, checksum constant, padding, letter case incl. every single-character "
            "flip) grid built by the reference encoder, plus structural corruptions (every character 0..127 and some non-ASCII at "
            "every position, deletions, insertions, overall length 89..92, missing/empty parts): bech32_decode, decode, encode, "
            "bech32_encode, parse_bech32 against BIP173/BIP350; non-trivial = everything but plain valid lower-case strings")

    def __init__(self, tier, seed):
        Driver.__init__(self, tier, seed)
        # BIP173 allows every character 33..126 in the human-readable part: punctuation next to the upper-case band
        # (@ [ \\ ] ^ _) and next to the lower-case band (` { | } ~), digits, '!' and '~' (the ends of the range)
        self.hrps = ["bc", "tb", "a", "t1est2", "bcrt", "x" * 18, "h" * 50, "?", "y" * 83,
                     "a_b", "x[y", "x{y", "@", "`", "~", "!", "^z|", "\\]}"]
        self.versions = list(range(17)) + [17, 31]
        self.fills = ["seed"] if tier == "quick" else ["seed", "00", "ff"]
        self.flip_hrps = ["bc"] if tier == "quick" else ["bc", "tb", "t1est2", "x" * 18]
        self.flip_versions = [0, 1, 16] if tier == "quick" else list(range(17))
        self.bad_hrps = ["", "BC", "Bc", "b c", "b\x7f", "\xe9", "z" * 84]
        self.bound = dict(hrps=self.hrps, versions=self.versions, program_lengths="0..42", constants=["bech32", "bech32m"],
                          padding=["zero", "nonzero", "extra symbol"], contents=self.fills,
                          case="lower, UPPER; single flips for hrps %s x versions %s" % (self.flip_hrps, self.flip_versions),
                          encoder_only_hrps=[repr(h) for h in self.bad_hrps],
                          structural="2 addresses + 4 BIP strings x (position x 136 characters, deletion, 3 insertions), lengths 89..92, missing parts")

    def prog(self, n, f):
        if f == "seed":
            return seed_bytes(self.seed, "C11.grid.prog", 48)[:n]
        return bytes.fromhex(f) * n

    def units(self):
        for hrp in self.hrps:
            for ver in self.versions:
                for f in self.fills:
                    yield dict(fam="grid", hrp=hrp, ver=ver, fill=f)
        for hrp in self.bad_hrps:
            yield dict(fam="enc", hrp=hrp)
        for i in range(len(self.struct_bases())):
            yield dict(fam="struct", i=i)
        yield dict(fam="shape")
        yield dict(fam="caseless")

    def struct_bases(self):
        p20 = self.prog(20, "seed")
        p32 = self.prog(32, "seed")
        return [("bc", RB.segwit_encode("bc", 0, p20)), ("tb", RB.segwit_encode("tb", 1, p32)), ("a", "a12uel5l"), ("a", "a1lqfn3a"),
                ("abcdef", "abcdef1qpzry9x8gf2tvdw0s3jn54khce6mua7lmqqqxw"), ("split", "split1checkupstagehandshakeupstreamerranterredcaperredlc445v"),
                # all upper-case strings containing K (U+212A KELVIN SIGN lower-cases to the ASCII letter k)
                ("bc", "BC1QW508D6QEJXTDG4Y5R3ZARVARY0C5XW7KV8F3T4"), ("abcdef", "abcdef1qpzry9x8gf2tvdw0s3jn54khce6mua7lmqqqxw".upper())]

    def execute(self, unit):
        fam = unit["fam"]
        if fam == "grid":
            hrp, ver = unit["hrp"], unit["ver"]
            flips = hrp in self.flip_hrps and ver in self.flip_versions
            for n in range(0, 43):
                prog = self.prog(n, unit["fill"]).hex()
                for spec in (RB.BECH32, RB.BECH32M):
                    for pad in ("zero", "nonzero", "extra"):
                        s = grid_string(hrp, ver, bytes.fromhex(prog), spec, pad)
                        if s is None:
                            continue
                        modes = ["lower", "upper"]
                        if flips:
                            modes += ["flip:%d" % k for k in range(len(s)) if s[k].upper() != s[k]]
                        for mode in modes:
                            case = dict(kind="grid", hrp=hrp, ver=ver, prog=prog, spec=spec, pad=pad, mode=mode)
                            yield case, self.run(case)
        elif fam == "caseless":
            # valid addresses without a single cased character (letter-free human-readable part, data part made of the digit
            # characters of the alphabet): "lower" and "upper" are the same string, and it is not mixed case
            for hrp, ver, prog in CASELESS:
                s = grid_string(hrp, ver, bytes.fromhex(prog), RB.BECH32M, "zero")
                if s is None or s.lower() != s.upper():
                    raise ModelInvalid("caseless vector %r has a cased character: %r" % ((hrp, ver, prog), s))
                for mode in ("lower", "upper"):
                    case = dict(kind="grid", hrp=hrp, ver=ver, prog=prog, spec=RB.BECH32M, pad="zero", mode=mode)
                    yield case, self.run(case)
        elif fam == "enc":
            for ver in (0, 1, 16):
                for n in (20, 32):
                    case = dict(kind="enc", hrp=unit["hrp"], ver=ver, prog=self.prog(n, "seed").hex())
                    yield case, self.run(case)
        elif fam == "struct":
            hrp, base = self.struct_bases()[unit["i"]]
            chars = [chr(c) for c in range(0, 128)] + ["\x80", "\xe9", "\xff", "ı", "İ", "K", "１", "\U0001d552"]
            for pos in range(len(base)):
                for ch in chars:
                    if ch != base[pos]:
                        case = dict(kind="str", hrp=hrp, s=base[:pos] + ch + base[pos + 1:], how="subst")
                        yield case, self.run(case)
                case = dict(kind="str", hrp=hrp, s=base[:pos] + base[pos + 1:], how="delete")
                yield case, self.run(case)
            for pos in range(len(base) + 1):
                for ch in ("q", "1", "b", "Q", " "):
                    case = dict(kind="str", hrp=hrp, s=base[:pos] + ch + base[pos:], how="insert")
                    yield case, self.run(case)
        else:
            strings = []
            for spec in (RB.BECH32, RB.BECH32M):
                for total in (88, 89, 90, 91, 92, 100):
                    for hl in (1, 2, 40, 83, 84):
                        nd = total - hl - 1 - 6
                        if nd < 0:
                            continue
                        h = "k" * hl
                        strings.append((h, RB.bech32_encode(h, [0] * nd, spec)))
                        strings.append((h, RB.bech32_encode(h, [0] * nd, spec).upper()))
                strings.append(("", RB.bech32_encode("", [0, 1, 2], spec)))                    # empty hrp
                full = RB.bech32_encode("bc", [1, 2, 3], spec)
                strings.append(("bc", full.replace("1", "", 1)))                                # no separator
                strings.append(("bc", "bc" + full[3:]))
                for k in range(0, 7):                                                           # data part shorter than a checksum
                    strings.append(("bc", "bc1" + full[-6:][:k]))
                strings.append(("bc", RB.bech32_encode("bc", [], spec)))                        # checksum only: valid Bech32, no version
                strings.append(("bc", RB.bech32_encode("bc", [0], spec)))                       # version only
                strings.append(("b1c", RB.bech32_encode("b1c", [0] + RB.to5(self.prog(20, "seed")), spec)))
                strings.append(("bc", RB.bech32_encode("BC", [0] + RB.to5(self.prog(20, "seed")), spec)))   # checksum over upper-case hrp
                strings.append(("bc", RB.bech32_encode("BC", [0] + RB.to5(self.prog(20, "seed")), spec).upper()))
            for spec_ver in (0, 1):                                                             # a valid address offered under another hrp
                for mine, other in (("bc", "tb"), ("tb", "bc"), ("bc", "b"), ("bc", "bcr"), ("bc", "BC")):
                    addr = RB.segwit_encode(mine, spec_ver, self.prog(32, "seed"))
                    strings.append((other, addr))
                    strings.append((other, addr.upper()))
            for h, s in strings + [("bc", ""), ("bc", "1"), ("bc", "bc1"), ("bc", "111111111")]:
                case = dict(kind="str", hrp=h, s=s, how="shape")
                yield case, self.run(case)

    def run(self, case):
        A, err = api()
        if A is None:
            return no_api(err)
        if case["kind"] == "enc":
            prog = bytes.fromhex(case["prog"])
            want = RB.segwit_encode(case["hrp"], case["ver"], prog)
            st, got = call(A.bech32m.encode, case["hrp"], case["ver"], prog)
            if want is None:
                # outside the property's quantifier (no valid address exists): behaviour recorded only
                return OK("encode-impossible:%s" % ("raises" if st == "exc" else "none" if got is None else "string"))
            if st == "exc" or got != want:
                return BAD("segwit-encode", "encode(%r, %d, %s) = %r" % (case["hrp"], case["ver"], prog.hex(), want), show(st, got), clause="segwit-encode")
            return OK("encode-ok")
        if case["kind"] == "grid":
            prog = bytes.fromhex(case["prog"])
            s0 = grid_string(case["hrp"], case["ver"], prog, case["spec"], case["pad"])
            s = apply_case(s0, case["mode"])
            hrp = case["hrp"]
        else:
            s = case["s"]
            hrp = case["hrp"]
        bad, cls, n, _ = compare_string(A, hrp, s, with_encode=True)
        if bad is not None:
            return bad
        if case["kind"] == "grid" and case["mode"] == "lower" and case["pad"] == "zero":
            # encoder over the whole (hrp, version, program) grid
            want = RB.segwit_encode(hrp, case["ver"], prog)
            expected_spec = RB.BECH32 if case["ver"] == 0 else RB.BECH32M
            if case["spec"] == expected_spec:
                st, got = call(A.bech32m.encode, hrp, case["ver"], prog)
                n += 1
                if want is not None:
                    if st == "exc" or got != want:
                        return BAD("segwit-encode", "encode(%r, %d, %s) = %r" % (hrp, case["ver"], prog.hex(), want), show(st, got), n=n, clause="segwit-encode")
                    if want != s:
                        raise ModelInvalid("reference encoder disagrees with its own grid string")
                else:
                    cls += ":encode-%s" % ("raises" if st == "exc" else "none" if got is None else "string")
        tag = case.get("mode", case.get("how", ""))
        if tag.startswith("flip"):
            tag = "flip"
        return OK("%s|%s" % (cls, tag), n=n)

    def nontrivial(self, cls):
        return not (cls.startswith("valid") and cls.endswith("|lower"))

    def selfcheck(self):
        return 0


# ====================================================================== error detection on the real decoders

HRP_ALT = "abcdefghijklmnopqrstuvwxyz0123456789!?@[\\]^_`{|}~"


class Errors(Driver):
    id = "C11.errors"
    rule = ("every substitution of 1 and 2 positions (data symbols: 31 alternatives; hrp characters: 48 alternatives incl. punctuation) of valid "
            "addresses, and of <= 4 positions of the data part of a 10-character string (thorough): bech32_decode and decode must "
            "give the reference decoder's verdict - rejected, unless the corrupted string is itself a valid encoding under the other "
            "checksum constant; a same-constant acceptance would be flagged; non-trivial = all (every case is a corrupted string)")

    def __init__(self, tier, seed):
        Driver.__init__(self, tier, seed)
        p20 = seed_bytes(seed, "C11.err.p20", 20)
        p32 = seed_bytes(seed, "C11.err.p32", 32)
        self.addrs = [("bc", RB.segwit_encode("bc", 16, b"\x75\x1e")), ("bc", RB.segwit_encode("bc", 0, p20)), ("tb", RB.segwit_encode("tb", 1, p32)),
                      ("bc", RB.segwit_encode("bc", 0, p32)), ("x{y_", RB.segwit_encode("x{y_", 0, p20))]
        # (address index, max weight)
        self.plan = [(0, 2), (1, 2), (2, 1), (3, 1), (4, 1)] if tier == "quick" else [(0, 2), (1, 2), (2, 2), (3, 2), (4, 2)]
        self.shorts = [("a", RB.bech32_encode("a", [3, 14], RB.BECH32), 2 if tier == "quick" else 4),
                       ("a", RB.bech32_encode("a", [3, 14], RB.BECH32M), 2 if tier == "quick" else 3)]
        self.bound = dict(addresses=[a for _, a in self.addrs], weights={self.addrs[i][1]: w for i, w in self.plan},
                          short_strings={s: w for _, s, w in self.shorts}, alternatives="data symbol: 31, hrp character: 48 (letters, digits, punctuation)")

    _base_spec = {}

    def targets(self):
        out = []
        for i, w in self.plan:
            hrp, a = self.addrs[i]
            out.append((hrp, a, w, True))
        for hrp, s, w in self.shorts:
            out.append((hrp, s, w, False))
        return out

    def units(self):
        for ti, (hrp, s, maxw, with_hrp) in enumerate(self.targets()):
            sep = s.rfind("1")
            positions = [k for k in range(len(s)) if k != sep and (with_hrp or k > sep)]
            for w in range(1, maxw + 1):
                for combo in itertools.combinations(positions, w):
                    if w >= 3:
                        # split the value space of the first position to keep units small
                        for first in self.alts(s, sep, combo[0]):
                            yield dict(t=ti, pos=list(combo), first=first)
                    else:
                        yield dict(t=ti, pos=list(combo))

    @staticmethod
    def alts(s, sep, k):
        if k > sep:
            return [c for c in RB.CHARSET if c != s[k]]
        return [c for c in HRP_ALT if c != s[k]]

    def execute(self, unit):
        hrp, s, maxw, with_hrp = self.targets()[unit["t"]]
        sep = s.rfind("1")
        pos = unit["pos"]
        choices = [self.alts(s, sep, k) for k in pos]
        if "first" in unit:
            choices[0] = [unit["first"]]
        A, err = api()
        for combo in itertools.product(*choices):
            case = dict(hrp=hrp, base=s, subs=[[k, c] for k, c in zip(pos, combo)])
            yield case, self._check(A, err, case)

    def run(self, case):
        A, err = api()
        return self._check(A, err, case)

    def _check(self, A, err, case):
        if A is None:
            return no_api(err)
        base = case["base"]
        t = list(base)
        for k, c in case["subs"]:
            t[k] = c
        s = "".join(t)
        w = len(case["subs"])
        base_spec = self._base_spec.get(base)
        if base_spec is None:
            base_spec = self._base_spec[base] = RB.bech32_check(base)[3]      # memo of the harness, recomputed from the case on a miss
        if base_spec is None or s == base:
            raise ModelInvalid("bad error case %r" % (case,))
        bad, cls, n, checked = compare_string(A, case["hrp"], s, with_helper=False, with_encode=False)
        if bad is not None:
            bad.tags["weight"] = w
            return bad
        reason, r_spec = checked[0], checked[3]
        in_hrp = any(k < base.rfind("1") for k, c in case["subs"])
        if reason is None:
            if r_spec == base_spec and not in_hrp:
                # impossible by the BCH design: would be a finding about the code itself
                return BAD("same-constant-collision", "a %d-symbol error is detected" % w, "%r is valid %s" % (s, r_spec), n=n, clause="bch-guarantee", weight=w)
            return OK("w%d:valid-other-constant:%s" % (w, cls), n=n)
        return OK("w%d:%s:%s" % (w, "hrp" if in_hrp else "data", cls), n=n)

    def selfcheck(self):
        return 0


# ====================================================================== linear model bound to the real bech32_polymod

M_DELTA = RB.CONST[RB.BECH32] ^ RB.CONST[RB.BECH32M]


def code(p1, v1, p2, v2):
    return ((p1 * 32 + v1) * 128 + p2) * 32 + v2


def uncode(c):
    v2 = c % 32
    c //= 32
    p2 = c % 128
    c //= 128
    return [(c // 32, c % 32), (p2, v2)]


class Bch(Driver):
    id = "C11.bch"
    rule = ("per data-part length L: the per-(position, symbol) syndrome table is read off the real bech32_polymod (31 L calls), "
            "checked for symbol linearity, base independence (affine), equality with the reference polymod and - at the listed "
            "lengths - additivity on every weight-2 input; on the table, every error pattern of weight 1..4 is decided by "
            "distinctness of {0} + singles + pairs (meet in the middle); every cross-constant pattern of weight <= 4 is turned "
            "into a string pair and fed to the real decoders; non-trivial = all")

    HRP = "bc"

    def __init__(self, tier, seed):
        Driver.__init__(self, tier, seed)
        if tier == "quick":
            self.lengths = [6, 7, 8, 11, 39, 59, 87]
            self.additive = [8, 39]
        else:
            self.lengths = list(range(6, 88))
            self.additive = [8, 20, 39, 59, 74, 87]
        self.bound = dict(hrp=self.HRP, data_part_lengths=self.lengths if tier == "quick" else "6..87 (every string length 9..90)",
                          weight2_additivity_on_real_polymod=self.additive, max_weight=4,
                          cross_constant="all patterns of weight <= 4 with syndrome 1^0x2bc830a3, both directions")

    def units(self):
        for L in self.lengths:
            yield dict(kind="table", L=L)
        for L in self.additive:
            for p1 in range(L - 1):
                yield dict(kind="additive", L=L, p1=p1)

    # ---- extraction from the real function
    def table(self, A, L, base_syms=None):
        pre = A.bech32m.bech32_hrp_expand(self.HRP)
        base = list(base_syms) if base_syms is not None else [0] * L
        b0 = A.bech32m.bech32_polymod(pre + base)
        S = []
        for pos in range(L):
            row = [0] * 32
            for v in range(1, 32):
                e = list(base)
                e[pos] ^= v
                row[v] = A.bech32m.bech32_polymod(pre + e) ^ b0
            S.append(row)
        return S, b0

    def base_string(self, L, spec):
        """a valid string with L data-part symbols (a v0 address when L is 39 or 59)"""
        body = [0] + [(7 * i + 3) % 32 for i in range(L - 7)] if L >= 7 else []
        if L in (39, 59):
            body = [0] + RB.to5(seed_bytes(0, "C11.bch.prog", 32)[:20 if L == 39 else 32])
        return RB.bech32_encode(self.HRP, body, spec)

    def execute(self, unit):
        A, err = api()
        if unit["kind"] == "additive":
            case = dict(unit)
            yield case, self.run(case)
            return
        case = dict(kind="table", L=unit["L"])
        out, cross = self._table_case(A, err, unit["L"])
        yield case, out
        if cross:
            for pattern in cross:
                for direction in ("bech32->bech32m", "bech32m->bech32"):
                    c = dict(kind="cross", L=unit["L"], pattern=[list(x) for x in pattern], dir=direction)
                    yield c, self._cross_case(A, err, c)

    def run(self, case):
        A, err = api()
        if A is None:
            return no_api(err)
        if case["kind"] == "table":
            return self._table_case(A, err, case["L"])[0]
        if case["kind"] == "cross":
            return self._cross_case(A, err, case)
        return self._additive_case(A, case["L"], case["p1"])

    def _additive_case(self, A, L, p1):
        if A is None:
            return no_api("import")
        st, r = call(self.table, A, L)
        if st == "exc":
            return BAD("polymod-raises", "bech32_polymod returns an int", exc_str(r), clause="polymod-exception")
        S, b0 = r
        pre = A.bech32m.bech32_hrp_expand(self.HRP)
        n = 0
        for p2 in range(p1 + 1, L):
            for v1 in range(1, 32):
                for v2 in range(1, 32):
                    e = [0] * L
                    e[p1] = v1
                    e[p2] = v2
                    st, got = call(A.bech32m.bech32_polymod, pre + e)
                    n += 1
                    if st == "exc" or got ^ b0 != S[p1][v1] ^ S[p2][v2]:
                        return BAD("polymod-not-additive", "polymod(e1+e2)^base == S[e1]^S[e2] at L=%d e=%r" % (L, [(p1, v1), (p2, v2)]),
                                   show(st, got), n=n, clause="polymod-nonlinear", L=L)
        return OK("additive-weight2", n=n)

    def _table_case(self, A, err, L):
        if A is None:
            return no_api(err), None
        st, r = call(self.table, A, L)
        if st == "exc":
            return BAD("polymod-raises", "bech32_polymod returns an int", exc_str(r), clause="polymod-exception"), None
        S, b0 = r
        n = 31 * L + 1
        pre_ref = RB.hrp_expand(self.HRP)
        # conformance 1: the real function equals the reference function on every weight-<=1 input
        if b0 != RB.polymod(pre_ref + [0] * L):
            return BAD("polymod-differs", "reference polymod on zeros(%d)" % L, hex(b0), n=n, clause="polymod-differs", L=L), None
        for pos in range(L):
            for v in range(1, 32):
                e = [0] * L
                e[pos] = v
                if S[pos][v] ^ b0 != RB.polymod(pre_ref + e):
                    return BAD("polymod-differs", "reference polymod, L=%d position %d symbol %d" % (L, pos, v), hex(S[pos][v] ^ b0), n=n,
                               clause="polymod-differs", L=L), None
        # conformance 2: symbol linearity at each position
        for pos in range(L):
            for a in range(1, 32):
                for b in range(a + 1, 32):
                    if S[pos][a] ^ S[pos][b] != S[pos][a ^ b]:
                        return BAD("polymod-not-additive", "S[p][a]^S[p][b]==S[p][a^b] at L=%d p=%d a=%d b=%d" % (L, pos, a, b),
                                   "%x ^ %x != %x" % (S[pos][a], S[pos][b], S[pos][a ^ b]), n=n, clause="polymod-nonlinear", L=L), None
        # conformance 3: the same table around a valid string (affine, independent of the base point)
        for spec in (RB.BECH32, RB.BECH32M):
            bs = self.base_string(L, spec)
            syms = [RB.CHARSET.find(c) for c in bs[len(self.HRP) + 1:]]
            if len(syms) != L:
                raise ModelInvalid("base string has %d symbols, want %d" % (len(syms), L))
            st, r2 = call(self.table, A, L, syms)
            n += 31 * L + 1
            if st == "exc":
                return BAD("polymod-raises", "int", exc_str(r2), clause="polymod-exception"), None
            if r2[1] != RB.CONST[spec]:
                return BAD("polymod-differs", "polymod of the valid string %r = %#x" % (bs, RB.CONST[spec]), hex(r2[1]), n=n, clause="polymod-differs", L=L), None
            if r2[0] != S:
                return BAD("polymod-not-additive", "syndrome table independent of the base string (L=%d)" % L, "differs around %r" % bs, n=n,
                           clause="polymod-nonlinear", L=L), None
        # decision: 0, singles, pairs all distinct  <=>  no pattern of weight 1..4 with syndrome 0 (given linearity)
        seen = {0: None}
        dup = None
        for pos in range(L):
            for v in range(1, 32):
                s = S[pos][v]
                if s in seen:
                    dup = (seen[s], [(pos, v)])
                seen[s] = code(pos, v, 127, 0)
        pairs = {}
        for p1 in range(L):
            for p2 in range(p1 + 1, L):
                r1, r2_ = S[p1], S[p2]
                for v1 in range(1, 32):
                    s1 = r1[v1]
                    for v2 in range(1, 32):
                        s = s1 ^ r2_[v2]
                        if s in seen or s in pairs:
                            dup = (seen.get(s, pairs.get(s)), [(p1, v1), (p2, v2)])
                        pairs[s] = code(p1, v1, p2, v2)
        if dup is not None:
            return BAD("undetected-error-pattern", "no error of weight <= 4 has syndrome 0 (L=%d)" % L,
                       "patterns %r and %r have the same syndrome" % dup, n=n, clause="bch-guarantee", L=L), None
        # cross-constant patterns: syndrome == 1 ^ 0x2bc830a3 (positions pairwise distinct)
        t = M_DELTA
        found = set()
        for pos in range(L):
            for v in range(1, 32):
                s = S[pos][v]
                if s == t:
                    found.add(((pos, v),))
                c = pairs.get(s ^ t)
                if c is not None:
                    pr = uncode(c)
                    if pos not in (pr[0][0], pr[1][0]):
                        found.add(tuple(sorted([(pos, v)] + pr)))
        if t in pairs:
            found.add(tuple(sorted(uncode(pairs[t]))))
        for s, c in pairs.items():
            c2 = pairs.get(s ^ t)
            if c2 is None:
                continue
            a, b = uncode(c), uncode(c2)
            if len({a[0][0], a[1][0], b[0][0], b[1][0]}) == 4:
                found.add(tuple(sorted(a + b)))
        cross = [list(p) for p in found]
        cross = sorted([sorted(p) for p in cross], key=lambda p: (len(p), p))
        return OK("table:L%d:no-zero-syndrome:cross-constant-%s" % (L, "none" if not cross else "some"), n=n), cross

    def _cross_case(self, A, err, case):
        if A is None:
            return no_api(err)
        L = case["L"]
        src, dst = (RB.BECH32, RB.BECH32M) if case["dir"].startswith("bech32->") else (RB.BECH32M, RB.BECH32)
        base = self.base_string(L, src)
        head = len(self.HRP) + 1
        syms = [RB.CHARSET.find(c) for c in base[head:]]
        for pos, v in case["pattern"]:
            syms[pos] ^= v
        s = base[:head] + "".join(RB.CHARSET[x] for x in syms)
        reason, r_hrp, r_data, r_spec = RB.bech32_check(s)
        if reason is not None or r_spec != dst:
            # the table said this pattern maps src-valid to dst-valid: the table (hence the real polymod) and the reference disagree
            return BAD("cross-pattern-not-valid", "pattern %r turns %r into a valid %s string" % (case["pattern"], base, dst),
                       "reference: %s" % (reason or r_spec), clause="polymod-differs", L=L)
        bad, cls, n, _ = compare_string(A, self.HRP, s, with_helper=True, with_encode=True)
        if bad is not None:
            bad.tags["weight"] = len(case["pattern"])
            return bad
        return OK("cross:w%d:%s" % (len(case["pattern"]), cls), n=n)

    def selfcheck(self):
        return 0


DRIVERS = [Base58, Base58Check, Grid, Errors, Bch]
ASSUMPTIONS = [
    "Base58 is strict: no whitespace skipping; a string with any character outside the 58-letter alphabet is invalid and must raise EncodingError",
    "Base58Check validity is decided by the reference recomputing the double-SHA256 checksum, so accidental 2^-32 matches cannot raise a false alarm",
    "segwit validity = BIP173 + BIP350 + BIP141 length rules; encode() for a triple that has no valid address (bad hrp, version > 16, bad length, "
    "> 90 characters) is outside the property's quantifier and only recorded",
    "parse_bech32 (cached helper) is a string-level decoder: it must return None for a non-Bech32 string, the exact (hrp, version, program, spec) for a "
    "valid address, and for a valid Bech32 string that is not a valid address a tuple that does not satisfy the address rules (it reports an empty "
    "program for bad padding; rejection is completed by ParseAPI, covered by C08)",
    "error detection: the BCH guarantee is per checksum constant and per 5-bit symbol; substitutions inside the hrp are enumerated on the real "
    "decoder (weights 1, 2) but an hrp character change that alters the high bits counts as two symbol errors in the code",
    "linear model: the real bech32_polymod is checked for additivity on every weight-1 input at every length, on every weight-2 input at the listed "
    "lengths, and around valid strings; it is assumed not to be non-linear only on inputs of weight >= 3",
    "a corrupted string that is itself a valid encoding under the other checksum constant is a valid encoding: both decoders must accept it",
]


def CONFIGURATIONS():
    return {"bech32": "pycoin.contrib.bech32m", "base58": "pycoin.encoding.b58", "helpers": "pycoin.networks.parseable_str"}
