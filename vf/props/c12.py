"""C12 - script integers, data pushes and script text encode canonically and losslessly (Mode I).

Six exhaustive enumerations, each comparing the real pycoin codecs with vf.ref.scriptnum
(CScriptNum, shortest push, Core's CheckMinimalPush and GetScriptOp):

  C12.int      integers -> bytes -> integers (plain and require_minimal)
  C12.enc      byte strings as candidate integer encodings (value, minimality verdict, re-encoding)
  C12.push     data -> compile_push_data -> get_opcode, every explicit push form under verify_minimal_data
  C12.trunc    every proper prefix of every push encoding must be reported as malformed
  C12.scripts  every short byte string tokenized by pycoin and by the reference
  C12.asm      compile(disassemble(s)) == s over known opcodes and minimal pushes; alias names
"""
from ..engine import Driver, OK, BAD, ModelInvalid, seed_bytes
from ..ref import scriptnum as R

SEQ32 = bytes(range(32)).hex()


class _Api(object):
    """lazy handle on the pycoin objects under test, so that an import-time failure of a changed
    pycoin is reported per case as a disagreement and not as a harness crash"""
    _cache = None

    @classmethod
    def get(cls):
        if cls._cache is None:
            from pycoin.satoshi.IntStreamer import IntStreamer
            from pycoin.coins.SolutionChecker import ScriptError
            from pycoin.symbols.btc import network
            a = cls()
            a.IntStreamer = IntStreamer
            a.ScriptError = ScriptError
            a.tools = network.script
            a.streamer = network.script.scriptStreamer
            cls._cache = a
        return cls._cache


def api():
    try:
        return _Api.get(), None
    except Exception as e:      # pycoin failed to import / build its tables
        return None, "EXC %s: %s" % (type(e).__name__, e)


def call(f, *a, **k):
    """run one pycoin call; ("ok", value) or ("exc", exception)"""
    try:
        return "ok", f(*a, **k)
    except Exception as e:
        return "exc", e


def exc_str(e):
    return "EXC %s: %s" % (type(e).__name__, str(e)[:200])


def as_int(x):
    return int(x)


def fill_data(length, fill_hex):
    block = bytes.fromhex(fill_hex)
    if length == 0:
        return b""
    reps = length // len(block) + 1
    return (block * reps)[:length]


def short(b, n=24):
    h = bytes(b).hex()
    return h if len(h) <= 2 * n else "%s..(%d bytes)" % (h[:2 * n], len(b))


# ====================================================================== integers

class Ints(Driver):
    id = "C12.int"
    rule = ("every integer of the bound encoded by int_to_script_bytes and decoded back with and without "
            "require_minimal; class = encoded length/sign/padding byte; non-trivial = encoding of >= 2 bytes or with a sign pad")

    def __init__(self, tier, seed):
        Driver.__init__(self, tier, seed)
        self.dense = 1 << 19 if tier == "quick" else 1 << 22
        self.kmax = 80
        self.block = 4096
        self.bound = dict(dense="every v with |v| < 2^%d" % (self.dense.bit_length() - 1), powers="v = +-2^k + d, k <= %d, d in -2..2" % self.kmax)

    def units(self):
        for lo in range(0, self.dense, self.block):
            yield dict(lo=lo, hi=min(self.dense, lo + self.block))
        for k in range(0, self.kmax + 1):
            yield dict(k=k)

    def execute(self, unit):
        if "k" in unit:
            for sign in (1, -1):
                for d in (-2, -1, 0, 1, 2):
                    v = sign * (1 << unit["k"]) + d
                    case = dict(v=str(v))
                    yield case, self.run(case)
        else:
            for a in range(unit["lo"], unit["hi"]):
                for v in ((a,) if a == 0 else (a, -a)):
                    case = dict(v=v)
                    yield case, self.run(case)

    def run(self, case):
        v = as_int(case["v"])
        want = R.encode(v)
        A, err = api()
        if A is None:
            return BAD("import", "pycoin imports", err, clause="import")
        st, enc = call(A.IntStreamer.int_to_script_bytes, v)
        if st == "exc":
            return BAD("encode-raises", want.hex(), exc_str(enc), clause="int-encode")
        if not isinstance(enc, (bytes, bytearray)) or bytes(enc) != want:
            return BAD("encode-mismatch", "encode(%d)=%s" % (v, want.hex()), "%r" % (enc,), clause="int-encode")
        st, dec = call(A.IntStreamer.int_from_script_bytes, want)
        if st == "exc" or dec != v:
            return BAD("decode-own-encoding", "decode(%s)=%d" % (want.hex(), v), exc_str(dec) if st == "exc" else repr(dec),
                       n=2, clause="int-decode")
        st, dec = call(A.IntStreamer.int_from_script_bytes, want, require_minimal=True)
        if st == "exc" or dec != v:
            return BAD("minimal-form-rejected", "decode(%s, require_minimal)=%d" % (want.hex(), v),
                       exc_str(dec) if st == "exc" else repr(dec), n=3, clause="int-minimal-rejected")
        mag = -v if v < 0 else v
        pad = len(want) > (mag.bit_length() + 7) // 8
        return OK("len%d:%s%s" % (len(want), "zero" if v == 0 else "neg" if v < 0 else "pos", ":signpad" if pad else ""), n=3)

    def nontrivial(self, cls):
        return not (cls.startswith("len0") or (cls.startswith("len1:") and "signpad" not in cls))

    def selfcheck(self):
        try:
            return R.selfcheck()
        except R.Invalid as e:
            raise ModelInvalid(str(e))


class Encodings(Driver):
    id = "C12.enc"
    rule = ("byte strings as candidate integer encodings: decoded value, require_minimal verdict (must accept exactly "
            "the reference-minimal forms) and re-encoding; non-trivial = non-minimal forms and minimal forms of >= 2 bytes")

    PREFIXES = ("00", "01", "ff")
    EDGE = (0x00, 0x01, 0x7F, 0x80, 0x81, 0xFF)

    def __init__(self, tier, seed):
        Driver.__init__(self, tier, seed)
        self.four = [a + b for a in self.PREFIXES for b in self.PREFIXES]
        self.three = ["00", "01", "02", "10", "7f", "80", "81", "fe", "ff"] if tier == "quick" else ["%02x" % x for x in range(256)]
        self.bound = dict(all_lengths="every byte string of length <= 2",
                          three="prefix in %s x all 65536 two-byte tails" % (self.three if tier == "quick" else "all 256",),
                          four="prefix in %s x all 65536 two-byte tails" % (self.four,),
                          long="length 5..9: body in {00.., ff.., 0100.., 00..80, seed} x last two bytes in %s^2" % (list(self.EDGE),))

    def units(self):
        yield dict(fam="short")
        for hi in range(256):
            yield dict(fam="two", hi=hi)
        for p in self.three + self.four:
            for hi in range(256):
                yield dict(fam="tail", prefix=p, hi=hi)
        for n in range(5, 10):
            yield dict(fam="long", n=n)

    def execute(self, unit):
        fam = unit["fam"]
        if fam == "short":
            yield dict(b=""), self.run(dict(b=""))
            for x in range(256):
                case = dict(b="%02x" % x)
                yield case, self.run(case)
        elif fam == "two":
            for lo in range(256):
                case = dict(b="%02x%02x" % (lo, unit["hi"]))
                yield case, self.run(case)
        elif fam == "tail":
            for lo in range(256):
                case = dict(b="%s%02x%02x" % (unit["prefix"], lo, unit["hi"]))
                yield case, self.run(case)
        else:
            n = unit["n"] - 2
            seedbody = seed_bytes(self.seed, "C12.enc.body", n).hex()
            bodies = ["00" * n, "ff" * n, "01" + "00" * (n - 1), "00" * (n - 1) + "80", "7f" * n, seedbody]
            for body in bodies:
                for a in self.EDGE:
                    for b in self.EDGE:
                        case = dict(b="%s%02x%02x" % (body, a, b))
                        yield case, self.run(case)

    def run(self, case):
        b = bytes.fromhex(case["b"])
        value = R.decode(b)
        minimal = R.is_minimal(b)
        canon = R.encode(value)
        if minimal != (canon == b):
            raise ModelInvalid("reference: minimal(%s)=%s but encode(decode)=%s" % (b.hex(), minimal, canon.hex()))
        A, err = api()
        if A is None:
            return BAD("import", "pycoin imports", err, clause="import")
        st, dec = call(A.IntStreamer.int_from_script_bytes, b)
        if st == "exc" or dec != value:
            return BAD("decode-value", "decode(%s)=%d" % (b.hex(), value), exc_str(dec) if st == "exc" else repr(dec), clause="int-decode")
        st, dec = call(A.IntStreamer.int_from_script_bytes, b, require_minimal=True)
        if minimal:
            if st == "exc" or dec != value:
                return BAD("minimal-form-rejected", "%s is minimal, value %d" % (b.hex(), value),
                           exc_str(dec) if st == "exc" else repr(dec), n=2, clause="int-minimal-rejected")
        else:
            if st == "ok":
                return BAD("nonminimal-form-accepted", "%s is not minimal (minimal form of %d is %s): refuse" % (b.hex(), value, canon.hex()),
                           "returned %r" % (dec,), n=2, clause="int-nonminimal-accepted")
            if not isinstance(dec, A.ScriptError):
                return BAD("nonminimal-wrong-exception", "ScriptError", exc_str(dec), n=2, clause="int-nonminimal-exception")
        st, enc = call(A.IntStreamer.int_to_script_bytes, value)
        if st == "exc" or bytes(enc) != canon:
            return BAD("reencode", "encode(%d)=%s" % (value, canon.hex()), exc_str(enc) if st == "exc" else repr(enc), n=3, clause="int-encode")
        if minimal:
            return OK("minimal:len%d" % len(b), n=3)
        return OK("nonminimal:%s:len%d" % ("zero" if value == 0 else "padded", len(b)), n=3)

    def nontrivial(self, cls):
        return cls not in ("minimal:len0", "minimal:len1")

    def selfcheck(self):
        return 0


# ====================================================================== pushes

BIG = (65534, 65535, 65536, 65537, 70000)


def forms_for(length):
    return [name for name, f, mx in R.PUSH_FORMS if (name != "direct" or length >= 1) and length <= mx]


def push_class(data, opcode):
    n = len(data)
    if opcode > R.OP_PUSHDATA4 or opcode == 0:
        kind = "const"
    elif opcode < R.OP_PUSHDATA1:
        kind = "direct"
    else:
        kind = "pushdata%d" % (1, 2, 4)[opcode - R.OP_PUSHDATA1]
    if n <= 1:
        band = "len%d" % n
    elif n <= 75:
        band = "len2-75"
    elif n <= 255:
        band = "len76-255"
    elif n <= 65535:
        band = "len256-65535"
    else:
        band = "len65536+"
    return "%s:%s" % (kind, band)


class Pushes(Driver):
    id = "C12.push"
    rule = ("data of every length of the bound (three contents) and all 256 one-byte payloads: compile_push_data = "
            "reference shortest push, read back by get_opcode/get_opcodes, accepted by the reference CheckMinimalPush and by "
            "pycoin's verify_minimal_data; every explicit push form (direct/PUSHDATA1/2/4) read back and its "
            "verify_minimal_data verdict compared with CheckMinimalPush; non-trivial = everything but the 1-byte direct pushes")

    def __init__(self, tier, seed):
        Driver.__init__(self, tier, seed)
        self.lengths = list(range(0, 1101)) + list(range(65000, 65601)) + [70000]
        self.every = []
        if tier == "thorough":
            self.lengths += [100000]
            self.every = [L for L in range(0, 70001) if L not in set(self.lengths)]      # one content only
        # the last three: runs of the byte values that have a one-byte opcode form (1..16, 0x81) - several of them in a row are ordinary data
        self.fills = ["aa", SEQ32, seed_bytes(seed, "C12.push.fill", 32).hex(), "0102030405060708090a0b0c0d0e0f1081", "1081", "0f1081"]
        self.bound = dict(lengths="three contents: 0..1100, 65000..65600, 70000%s" % ("" if tier == "quick" else ", 100000; one content: every length 0..70000"),
                          contents=["aa..", "00 01 02 .. 1f repeated", "seed block repeated"], one_byte_payloads="all 256",
                          forms="compile_push_data + every explicit form that can hold the length")

    def units(self):
        for x in range(256):
            yield dict(len=1, fill="%02x" % x)
        for L in self.lengths:
            for f in self.fills:
                if L <= 1 and f != self.fills[0]:
                    continue
                yield dict(len=L, fill=f)
        for L in self.every:
            yield dict(len=L, fill="aa")

    def execute(self, unit):
        for form in ["compile"] + forms_for(unit["len"]):
            case = dict(len=unit["len"], fill=unit["fill"], form=form)
            yield case, self.run(case)

    def run(self, case):
        d = fill_data(case["len"], case["fill"])
        A, err = api()
        if A is None:
            return BAD("import", "pycoin imports", err, clause="import")
        n = 0
        if case["form"] == "compile":
            want = R.shortest_push(d)
            for name, f, arg in (("compile_push_data", A.streamer.compile_push_data, d),
                                 ("compile_push_data_list", A.tools.compile_push_data_list, [d])):
                st, e = call(f, arg)
                n += 1
                if st == "exc" or not isinstance(e, (bytes, bytearray)) or bytes(e) != want:
                    return BAD("push-encoding", "shortest push of %d bytes starts %s (total %d)" % (len(d), want[:5].hex(), len(want)),
                               "%s: %s" % (name, exc_str(e) if st == "exc" else "%s (total %d)" % (short(e, 8), len(e))),
                               n=n, clause="push-encoding", length=len(d))
            # the list of items in the other shapes a caller may hold it in (a TypeError = shape not supported = outside)
            for name, arg, w in (("tuple", (d,), want), ("iterator", iter([d]), want), ("generator", (x for x in [d]), want),
                                 ("two items", [d, d], want + want), ("iterator of two", iter([d, d]), want + want)):
                st, e = call(A.tools.compile_push_data_list, arg)
                n += 1
                if st == "exc" and isinstance(e, TypeError):
                    continue
                if st == "exc" or not isinstance(e, (bytes, bytearray)) or bytes(e) != w:
                    return BAD("push-encoding", "compile_push_data_list(%s) = %d bytes starting %s" % (name, len(w), w[:5].hex()),
                               exc_str(e) if st == "exc" else "%s (total %d)" % (short(e, 8), len(e)), n=n, clause="push-encoding:argument-shape", length=len(d))
            # the text route: a bracketed hex data token must compile to the same shortest push
            if d:
                st, e = call(A.tools.compile, "[%s]" % d.hex())
                n += 1
                if st == "exc" or not isinstance(e, (bytes, bytearray)) or bytes(e) != want:
                    return BAD("push-encoding", "compile('[<%d bytes hex>]') = shortest push starting %s (total %d)" % (len(d), want[:5].hex(), len(want)),
                               exc_str(e) if st == "exc" else "%s (total %d)" % (short(e, 8), len(e)), n=n, clause="push-encoding:text-route", length=len(d))
            enc = want
        else:
            enc = R.push_form(case["form"], d)
        opcode = enc[0]
        ref_min = R.check_minimal_push(d, opcode) if opcode <= R.OP_PUSHDATA4 else True
        if case["form"] == "compile" and not ref_min:
            raise ModelInvalid("reference: shortest_push not accepted by check_minimal_push for len %d" % len(d))
        # read back, no minimality requested
        st, r = call(A.streamer.get_opcode, enc, 0)
        n += 1
        bad = self._readback(r, st, enc, d)
        if bad:
            return BAD("push-readback", "(opcode %d, data %s, pc %d, ok)" % (opcode, short(d, 8), len(enc)), bad, n=n,
                       clause="push-readback", length=len(d), opcode=opcode)
        st, r = call(lambda: list(A.tools.get_opcodes(enc)))
        n += 1
        if st == "exc" or len(r) != 1 or r[0][0] != opcode or r[0][1] is None or bytes(r[0][1]) != d or tuple(r[0][2:]) != (0, len(enc)):
            return BAD("push-readback", "get_opcodes: one instruction (opcode %d, data, 0, %d)" % (opcode, len(enc)),
                       exc_str(r) if st == "exc" else "%d instructions, first %r" % (len(r), tuple(short(x, 8) if isinstance(x, bytes) else x for x in r[0]) if r else None),
                       n=n, clause="push-readback", length=len(d), opcode=opcode)
        # minimality requested
        st, r = call(A.streamer.get_opcode, enc, 0, verify_minimal_data=True)
        n += 1
        if ref_min:
            if st == "exc":
                return BAD("minimal-push-rejected", "CheckMinimalPush accepts opcode %d for %d bytes" % (opcode, len(d)), exc_str(r),
                           n=n, clause="minimal-push-rejected", length=len(d), opcode=opcode)
            bad = self._readback(r, st, enc, d)
            if bad:
                return BAD("push-readback", "(opcode %d, data, pc %d, ok) under verify_minimal_data" % (opcode, len(enc)), bad, n=n,
                           clause="push-readback", length=len(d), opcode=opcode)
            st, r = call(lambda: list(A.tools.get_opcodes(enc, verify_minimal_data=True)))
            n += 1
            if st == "exc" or len(r) != 1 or r[0][1] is None or bytes(r[0][1]) != d:
                return BAD("minimal-push-rejected", "get_opcodes(verify_minimal_data) yields the push", exc_str(r) if st == "exc" else repr(r)[:200],
                           n=n, clause="minimal-push-rejected", length=len(d), opcode=opcode)
            return OK("minimal:" + push_class(d, opcode), n=n)
        if st == "ok":
            return BAD("nonminimal-push-accepted", "CheckMinimalPush refuses opcode %d for %d bytes" % (opcode, len(d)),
                       "accepted: %r" % ((r[0], short(r[1], 8) if r[1] is not None else None, r[2], r[3]),), n=n,
                       clause="nonminimal-push-accepted", length=len(d), opcode=opcode)
        if not isinstance(r, A.ScriptError):
            return BAD("nonminimal-wrong-exception", "ScriptError", exc_str(r), n=n, clause="nonminimal-push-exception",
                       length=len(d), opcode=opcode)
        # the second route to the same decoder: ScriptTools.get_opcodes must refuse it too (round 6, C12-x2: the keyword was not forwarded)
        st2, r2 = call(lambda: list(A.tools.get_opcodes(enc, verify_minimal_data=True)))
        n += 1
        if st2 == "ok":
            return BAD("nonminimal-push-accepted", "CheckMinimalPush refuses opcode %d for %d bytes" % (opcode, len(d)),
                       "get_opcodes(verify_minimal_data=True) accepted: %r" % (r2,)[:200], n=n,
                       clause="nonminimal-push-accepted:get_opcodes", length=len(d), opcode=opcode)
        if not isinstance(r2, A.ScriptError):
            return BAD("nonminimal-wrong-exception", "ScriptError from get_opcodes", exc_str(r2), n=n, clause="nonminimal-push-exception",
                       length=len(d), opcode=opcode)
        return OK("nonminimal:" + push_class(d, opcode), n=n)

    @staticmethod
    def _readback(r, st, enc, d):
        """None when get_opcode's result is the expected (opcode, data, pc, True); else a description"""
        if st == "exc":
            return exc_str(r)
        try:
            opcode, data, pc, is_ok = r
        except Exception:
            return "returned %r" % (r,)
        if opcode != enc[0] or pc != len(enc) or is_ok is not True or not isinstance(data, (bytes, bytearray)) or bytes(data) != d:
            return "(opcode %r, data %s, pc %r, is_ok %r)" % (opcode, short(data, 8) if isinstance(data, (bytes, bytearray)) else repr(data), pc, is_ok)
        return None

    def nontrivial(self, cls):
        return cls != "minimal:direct:len1"

    def selfcheck(self):
        return 0


class Truncations(Driver):
    id = "C12.trunc"
    rule = ("every proper non-empty prefix of every push encoding (every form, every length of the bound): the reference "
            "GetScriptOp fails, so get_opcode must report is_ok False (plain) and must not return a push under "
            "verify_minimal_data, and get_opcodes must not yield data; class = which part is cut; all non-trivial")

    CHUNK = 8192

    def __init__(self, tier, seed):
        Driver.__init__(self, tier, seed)
        self.small = 600 if tier == "quick" else 1100
        self.big = list(BIG) + ([100000] if tier == "thorough" else [])
        self.bound = dict(lengths="0..%d: every cut of every form; %s: every cut of the minimal form and of PUSHDATA4" % (self.small, self.big))

    def units(self):
        for L in range(0, self.small + 1):
            for form in forms_for(L):
                yield dict(len=L, form=form, lo=1, hi=None)
        for L in self.big:
            for form in sorted(set((forms_for(L)[0], "pushdata4"))):
                total = len(R.push_form(form, b"\x00")) - 1 + L
                for lo in range(1, total, self.CHUNK):
                    yield dict(len=L, form=form, lo=lo, hi=min(total, lo + self.CHUNK))

    def execute(self, unit):
        L, form = unit["len"], unit["form"]
        total = len(R.push_form(form, b"\x00")) - 1 + L
        hi = unit["hi"] if unit["hi"] is not None else total
        enc = R.push_form(form, fill_data(L, "aa"))
        A, err = api()
        for cut in range(unit["lo"], hi):
            case = dict(len=L, form=form, cut=cut)
            yield case, self._check(A, err, enc, form, cut)

    def run(self, case):
        enc = R.push_form(case["form"], fill_data(case["len"], "aa"))
        A, err = api()
        return self._check(A, err, enc, case["form"], case["cut"])

    def _check(self, A, err, enc, form, cut):
        if A is None:
            return BAD("import", "pycoin imports", err, clause="import")
        if not 1 <= cut < len(enc):
            raise ModelInvalid("cut %d outside the encoding" % cut)
        s = enc[:cut]
        if R.get_op(s, 0)[0] is not False:
            raise ModelInvalid("reference tokenizer accepts the proper prefix %s" % short(s))
        hdr = {"direct": 1, "pushdata1": 2, "pushdata2": 3, "pushdata4": 5}[form]
        part = "length-bytes" if cut < hdr else "data"
        clause = "truncated-%s-accepted" % part
        opname = {"direct": "direct", "pushdata1": "PUSHDATA1", "pushdata2": "PUSHDATA2", "pushdata4": "PUSHDATA4"}[form]
        ref = "malformed: %s needs %d bytes, %d present" % (opname, len(enc), cut)
        st, r = call(A.streamer.get_opcode, s, 0)
        if st == "exc":
            return BAD("truncated-raises", ref + " (is_ok False)", exc_str(r), clause="truncated-exception", form=form, part=part)
        try:
            opcode, data, pc, is_ok = r
        except Exception:
            return BAD("truncated-accepted", ref, "returned %r" % (r,), clause=clause, form=form, part=part)
        if is_ok is not False or data is not None:
            return BAD("truncated-accepted", ref + " (is_ok False)", "get_opcode(%s) = (opcode %r, data %r, pc %r, is_ok %r)" % (
                short(s, 8), opcode, bytes(data).hex() if isinstance(data, (bytes, bytearray)) else data, pc, is_ok),
                clause=clause, form=form, part=part)
        # under verify_minimal_data a ScriptError is also a report of a bad script
        st, r = call(A.streamer.get_opcode, s, 0, verify_minimal_data=True)
        if st == "exc":
            if not isinstance(r, A.ScriptError):
                return BAD("truncated-raises", ref, exc_str(r), n=2, clause="truncated-exception", form=form, part=part)
        elif r[3] is not False or r[1] is not None:
            return BAD("truncated-accepted", ref, "verify_minimal_data: %r" % (r,), n=2, clause=clause, form=form, part=part)
        st, r = call(lambda: [next(iter(A.tools.get_opcodes(s)))])     # first instruction only: the generator does not stop at a bad one
        if st == "exc" or len(r) < 1 or r[0][1] is not None:
            return BAD("truncated-accepted", ref + "; get_opcodes yields no data", exc_str(r) if st == "exc" else repr(r)[:200], n=3,
                       clause=clause, form=form, part=part)
        return OK("%s:cut-in-%s" % (form, part), n=3)

    def selfcheck(self):
        return 0


class Scripts(Driver):
    id = "C12.scripts"
    rule = ("every byte string of the bound read as a script: the instruction stream (opcode, data, next pc, well-formed) "
            "of get_opcode equals the reference GetScriptOp stream up to the first malformed instruction; "
            "non-trivial = scripts containing a push instruction or a malformed one")

    def __init__(self, tier, seed):
        Driver.__init__(self, tier, seed)
        self.firsts = list(range(0x00, 0x50)) + [0x61] if tier == "thorough" else [0x01, 0x02, 0x03, 0x4B, 0x4C, 0x4D, 0x4E]
        self.bound = dict(all_lengths="every byte string of length <= 2", three="first byte in %s x all 65536" % ("00..4f, 61" if tier == "thorough" else ["%02x" % x for x in self.firsts],),
                          four="4d/4e/4c + three bytes from {00,01,02,4c,4d,51,ff}")

    def units(self):
        yield dict(fam="short")
        for a in range(256):
            yield dict(fam="two", a=a)
        for f in self.firsts:
            for a in range(256):
                yield dict(fam="three", f=f, a=a)
        for f in (0x4C, 0x4D, 0x4E):
            yield dict(fam="four", f=f)

    def execute(self, unit):
        fam = unit["fam"]
        if fam == "short":
            for x in range(256):
                case = dict(s="%02x" % x)
                yield case, self.run(case)
        elif fam == "two":
            for b in range(256):
                case = dict(s="%02x%02x" % (unit["a"], b))
                yield case, self.run(case)
        elif fam == "three":
            for b in range(256):
                case = dict(s="%02x%02x%02x" % (unit["f"], unit["a"], b))
                yield case, self.run(case)
        else:
            alpha = (0x00, 0x01, 0x02, 0x4C, 0x4D, 0x51, 0xFF)
            for a in alpha:
                for b in alpha:
                    for c in alpha:
                        for tail in ((), (0x51,), (0x51, 0x51)):
                            case = dict(s=bytes((unit["f"], a, b, c) + tail).hex())
                            yield case, self.run(case)

    def run(self, case):
        s = bytes.fromhex(case["s"])
        A, err = api()
        if A is None:
            return BAD("import", "pycoin imports", err, clause="import")
        pc = 0
        n = 0
        npush = 0
        while pc < len(s):
            ok, opcode, data, new_pc = R.get_op(s, pc)
            st, r = call(A.streamer.get_opcode, s, pc)
            n += 1
            where = "script %s pc %d" % (s.hex(), pc)
            if st == "exc":
                return BAD("tokenize-raises", "%s: %s" % (where, "malformed" if not ok else "opcode %d" % opcode), exc_str(r), n=n,
                           clause="tokenize-exception")
            try:
                p_op, p_data, p_pc, p_ok = r
            except Exception:
                return BAD("tokenize", where, "returned %r" % (r,), n=n, clause="tokenize")
            if not ok:
                if p_ok is not False or p_data is not None:
                    missing_len = len(s) - pc - 1 < {R.OP_PUSHDATA1: 1, R.OP_PUSHDATA2: 2, R.OP_PUSHDATA4: 4}.get(opcode, 0)
                    part = "length-bytes" if missing_len else "data"
                    return BAD("truncated-accepted", "%s: malformed push (opcode %d)" % (where, opcode),
                               "(opcode %r, data %r, pc %r, is_ok %r)" % (p_op, bytes(p_data).hex() if isinstance(p_data, (bytes, bytearray)) else p_data, p_pc, p_ok),
                               n=n, clause="truncated-%s-accepted" % part, part=part)
                return OK("malformed@instr%d" % (n - 1), n=n)
            got_data = bytes(p_data) if isinstance(p_data, (bytes, bytearray)) else p_data
            if p_op != opcode or p_ok is not True or p_pc != new_pc or got_data != data:
                return BAD("tokenize", "%s: (opcode %d, data %s, pc %d, ok)" % (where, opcode, None if data is None else data.hex(), new_pc),
                           "(opcode %r, data %r, pc %r, is_ok %r)" % (p_op, got_data.hex() if isinstance(got_data, bytes) else got_data, p_pc, p_ok),
                           n=n, clause="tokenize")
            if data is not None:
                npush += 1
            pc = new_pc
        return OK("wellformed:%d-instr:%s" % (n, "push" if npush else "nopush"), n=max(n, 1))

    def nontrivial(self, cls):
        return not cls.endswith(":nopush")

    def selfcheck(self):
        return 0


# ====================================================================== assembler

def core_nonpush_bytes():
    vals = []
    for name, v in R.CORE_OPCODES:
        if v in (R.OP_PUSHDATA1, R.OP_PUSHDATA2, R.OP_PUSHDATA4):
            continue
        if v not in vals:
            vals.append(v)
    return vals


def token_bytes(tok):
    """'op:76' -> one opcode byte; 'push:256:aa' -> reference minimal push of that data"""
    parts = tok.split(":")
    if parts[0] == "op":
        return bytes([int(parts[1], 16)])
    if parts[0] == "push":
        return R.shortest_push(fill_data(int(parts[1]), parts[2]))
    raise ValueError(tok)


class Assembler(Driver):
    id = "C12.asm"
    rule = ("scripts of 1..3 tokens over (every opcode byte Core names, minimal pushes at the length boundaries): "
            "compile(disassemble(s)) == s; every Core opcode name (aliases included) compiled, disassembled and recompiled; "
            "non-trivial = script in the property's scope (known opcodes and minimal pushes only)")

    def __init__(self, tier, seed):
        Driver.__init__(self, tier, seed)
        self.ops = ["op:%02x" % v for v in core_nonpush_bytes()]
        plens = [(1, "00"), (1, "11"), (1, "80"), (1, "ff"), (2, "0100"), (2, "aa"), (20, SEQ32), (75, "aa"), (76, "aa"), (255, "aa"), (256, "aa")]
        if tier == "thorough":
            plens += [(3, "616263"), (32, seed_bytes(seed, "C12.asm", 32).hex()), (257, SEQ32), (65535, "aa"), (65536, "aa")]
        self.pushes = ["push:%d:%s" % p for p in plens]
        self.names = [name for name, v in R.CORE_OPCODES if v not in (R.OP_PUSHDATA1, R.OP_PUSHDATA2, R.OP_PUSHDATA4)]
        self.reduced = ["op:00", "op:4f", "op:51", "op:60", "op:61", "op:63", "op:68", "op:6a", "op:76", "op:87", "op:a9", "op:ac", "op:ae",
                        "op:b1", "op:b2", "op:b9", "op:ff", "push:1:00", "push:1:11", "push:2:aa", "push:20:" + SEQ32, "push:75:aa", "push:76:aa",
                        "push:255:aa", "push:256:aa"]
        if tier == "thorough":
            self.reduced = self.ops + [t for t in self.pushes if int(t.split(":")[1]) <= 257]
        self.bound = dict(opcode_bytes=len(self.ops), pushes=self.pushes, names=len(self.names),
                          scripts="all 256 single bytes; all 1- and 2-token scripts; all 3-token scripts over %d tokens; name singles and pairs"
                                  % len(self.reduced))

    def units(self):
        yield dict(fam="bytes")
        alpha = self.ops + self.pushes
        yield dict(fam="one")
        for t in alpha:
            yield dict(fam="two", first=t)
        yield dict(fam="name1")
        for nm in self.names:
            yield dict(fam="name2", first=nm)
        for a in self.reduced:
            for b in self.reduced:
                yield dict(fam="three", first=a, second=b)

    def execute(self, unit):
        fam = unit["fam"]
        alpha = self.ops + self.pushes
        if fam == "bytes":
            for x in range(256):
                case = dict(tokens=["op:%02x" % x])
                yield case, self.run(case)
        elif fam == "one":
            for t in self.pushes:
                case = dict(tokens=[t])
                yield case, self.run(case)
        elif fam == "two":
            for t in alpha:
                case = dict(tokens=[unit["first"], t])
                yield case, self.run(case)
        elif fam == "three":
            for t in self.reduced:
                case = dict(tokens=[unit["first"], unit["second"], t])
                yield case, self.run(case)
        elif fam == "name1":
            for nm in self.names:
                case = dict(text=nm)
                yield case, self.run(case)
        else:
            for nm in self.names:
                case = dict(text=unit["first"] + " " + nm)
                yield case, self.run(case)

    def run(self, case):
        A, err = api()
        if A is None:
            return BAD("import", "pycoin imports", err, clause="import")
        if "text" in case:
            return self._run_text(A, case["text"])
        toks = case["tokens"]
        s = b"".join(token_bytes(t) for t in toks)
        # scope of the property: known (Core-named) opcodes and minimal pushes, well formed
        stream, ok = R.tokenize(s)
        known = set(core_nonpush_bytes())
        in_scope = ok and all((op in known) or (op <= R.OP_PUSHDATA4 and R.check_minimal_push(data, op)) for op, data, _ in stream)
        st, text = call(A.tools.disassemble, s)
        if st == "exc" or not isinstance(text, str):
            if in_scope:
                return BAD("disassemble-raises", "text for %s" % short(s), exc_str(text) if st == "exc" else repr(text), clause="asm-disassemble")
            return OK("trivial-out-of-scope:disassemble-raises")
        st, s2 = call(A.tools.compile, text)
        if not in_scope:
            if st == "exc":
                return OK("trivial-out-of-scope:%s" % ("malformed" if not ok else "unknown-opcode"), n=2)
            return OK("trivial-out-of-scope:%s:%s" % ("malformed" if not ok else "unknown-opcode", "same" if bytes(s2) == s else "differs"), n=2)
        if st == "exc" or not isinstance(s2, (bytes, bytearray)) or bytes(s2) != s:
            return BAD("asm-roundtrip", "compile(disassemble(s)) == s for s=%s (tokens %s)" % (short(s), " ".join(toks)),
                       "disassembly %r compiles to %s" % (text[:120], exc_str(s2) if st == "exc" else short(s2)), n=2, clause="asm-roundtrip")
        npush = sum(1 for op, data, _ in stream if 1 <= op <= R.OP_PUSHDATA4)
        return OK("roundtrip:%d-tok:%d-push" % (len(stream), npush), n=2)

    def _run_text(self, A, text):
        names = text.split()
        want = bytes(dict(R.CORE_OPCODES)[nm] for nm in names)
        st, s1 = call(A.tools.compile, text)
        if st == "exc":
            unknown = [nm for nm in names if call(A.tools.int_for_opcode, nm)[1] is None]
            if unknown:
                return OK("trivial-name-unknown-to-pycoin")
            return BAD("compile-raises", "bytes for %r" % text, exc_str(s1), clause="asm-compile")
        if not isinstance(s1, (bytes, bytearray)) or len(s1) != len(names):
            return BAD("compile-name", "one byte per opcode name in %r" % text, repr(s1), clause="asm-compile")
        s1 = bytes(s1)
        st, t2 = call(A.tools.disassemble, s1)
        if st == "exc":
            return BAD("disassemble-raises", "text for %s" % s1.hex(), exc_str(t2), n=2, clause="asm-disassemble")
        st, s2 = call(A.tools.compile, t2)
        if st == "exc" or bytes(s2) != s1:
            return BAD("asm-roundtrip", "compile(disassemble(compile(%r))) == %s" % (text, s1.hex()),
                       "disassembly %r compiles to %s" % (t2, exc_str(s2) if st == "exc" else bytes(s2).hex()), n=3, clause="asm-roundtrip")
        alias = t2.split() != names
        return OK("names:%s%s" % ("alias" if alias else "canonical", "" if s1 == want else ":value-differs-from-core"), n=3)

    def selfcheck(self):
        return 0


DRIVERS = [Ints, Encodings, Pushes, Truncations, Scripts, Assembler]
ASSUMPTIONS = [
    "integers: every |v| < 2^19 (thorough 2^22) and +-2^k+d for k <= 80; larger integers share the same byte-loop and are not enumerated",
    "candidate encodings: all of length <= 2 (thorough <= 3); longer ones by prefix families and boundary bodies, not all enumerated",
    "the consensus minimal-push rule is Bitcoin Core's CheckMinimalPush (vf.ref.scriptnum.check_minimal_push, bound to the "
    "MINIMALDATA vectors of tests/btc/data/script_tests.json); pycoin's verify_minimal_data is required to give the same "
    "verdict on every push form (acceptance of a minimal push is what the property states; refusal of a non-minimal push is "
    "checked under its own clause tag nonminimal-push-accepted)",
    "a truncated push counts as reported when get_opcode returns is_ok False / data None; under verify_minimal_data a ScriptError is also a report",
    "known opcodes = the opcode bytes Bitcoin Core names before taproot (0x00, 0x4f..0xb9, 0xff); the name<->byte values themselves are only recorded (class value-differs-from-core), script evaluation is C03",
    "data lengths: 0..1100, 65000..65600, 70000 with three contents (thorough: every length 0..70000 with one content, and 100000)",
]


def CONFIGURATIONS():
    return {"script_tools": "pycoin.symbols.btc.network.script (BitcoinScriptTools / BitcoinScriptStreamer)"}
