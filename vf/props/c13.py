"""C13 - transaction construction conserves value to the satoshi (Mode I).

Drivers
  C13.split     create_tx over spendable value lists x payable shapes (fixed / unspecified in every position
                pattern) x the fee grid that makes the split pool take every value around 0..3j and every
                residue class mod j
  C13.forms     the same oracle over spendable spellings (object / text / dict) x payable spellings
                (address / (address, 0) / alternating)
  C13.unspents  validate_unspents against source-transaction databases with every single discrepancy
  C13.convert   satoshi <-> BTC / mBTC for every satoshi value of a dense range and the decimal edges
"""
import decimal
import hashlib
import itertools

from ..engine import Driver, OK, BAD, ModelInvalid, seed_int
from ..ref import money
from ..ref import bip32 as refk

MAX = money.MAX_SATOSHI
_ADDR = {}


def payee(i):
    """(address text, expected script) of payee i - computed by the reference key model"""
    if i not in _ADDR:
        h = refk.hash160(refk.ser_p(refk.pt_mul(i + 11, refk.G)))
        _ADDR[i] = (refk.b58check(b"\x00" + h), bytes.fromhex("76a914") + h + bytes.fromhex("88ac"))
    return _ADDR[i]


def spendable_parts(i, value):
    """value, script, tx hash, output index of spendable i: distinct, not in sorted order"""
    return (value, bytes([0x51 + i, 0x75, 0x51 + 2 * i]), hashlib.sha256(b"c13.source.%d" % i).digest(), (2, 0, 5, 1)[i % 4])


def patterns(jmax, kmax):
    """every arrangement of j unspecified ('u') and k fixed ('f') payables"""
    for j in range(0, jmax + 1):
        for k in range(0, kmax + 1):
            for pos in itertools.combinations(range(j + k), k):
                yield j, k, ["f" if i in pos else "u" for i in range(j + k)]


def fee_grid(total_in, fixed, j):
    surplus = total_in - fixed
    fees = set()
    if j == 0:
        fees.update([0, 1, surplus - 1, surplus, surplus + 1])
    else:
        fees.update(range(0, j))                                   # one large pool per residue class mod j
        fees.update(surplus - v for v in range(-2, 3 * j + 3))      # pool = -2 .. 3j+2
    return sorted(f for f in fees if f >= 0)


def build_and_check(case):
    """run create_tx for one concrete case and judge it.  case: values, payables (0 = unspecified), fee,
    spell (plain|tuple0|alt), form (obj|text|dict)"""
    values = [int(v) for v in case["values"]]
    pay = [int(v) for v in case["payables"]]
    fee = int(case["fee"])
    spell, form = case.get("spell", "plain"), case.get("form", "obj")
    j = sum(1 for v in pay if v == 0)
    exp = money.expected_outputs(values, pay, fee)
    total_in = sum(values)
    parts = [spendable_parts(i, v) for i, v in enumerate(values)]
    payables = []
    nu = 0
    for i, v in enumerate(pay):
        a = payee(i)[0]
        if v:
            payables.append((a, v))
        else:
            tup = spell == "tuple0" or (spell == "alt" and nu % 2 == 1)
            payables.append((a, 0) if tup else a)
            nu += 1
    # ---- implementation call
    tx = None
    err = None
    try:
        from pycoin.symbols.btc import network
        marked = form.endswith("-marked")
        form = form.split("-")[0]
        if marked:
            # bookkeeping fields of a spendable record (seen in block 7, seems spent, spent in block 9) are not amounts
            sp = [network.tx.Spendable(*(p + ((7, True, 9) if i % 2 == 0 else (3, False, 0)))) for i, p in enumerate(parts)]
        else:
            sp = [network.tx.Spendable(*p) for p in parts]
        if form == "text":
            sp = [s.as_text() for s in sp]
        elif form == "dict":
            sp = [s.as_dict() for s in sp]
        payables_arg = list(payables)
        tx = network.tx_utils.create_tx(sp, payables_arg, fee=fee)
        # the caller goes on using the lists it passed in (sorting, re-filling, emptying them)
        sp.reverse()
        sp.append(sp[0])
        del payables_arg[:]
    except Exception as e:
        err = e
    ref_desc = "pool=%d over %d unspecified: %s" % (total_in - sum(pay) - fee, j, "refuse" if exp is None else exp)
    if err is not None:
        etxt = "EXC %s: %s" % (type(err).__name__, err)
        if j >= 1 and exp is None:
            return OK("refused:%s:%s" % ("negative-pool" if total_in - sum(pay) - fee < 0 else "pool<j", type(err).__name__))
        if j == 0 and sum(pay) > total_in:
            return OK("j0-overspend-refused:%s" % type(err).__name__)      # property is silent here
        return BAD("unexpected-error", ref_desc, etxt, clause="error-with-sufficient-funds", j=j)
    if exp is None:
        return BAD("transaction-despite-insufficient-funds", ref_desc,
                   "outputs %r" % ([o.coin_value for o in tx.txs_out],), clause="insufficient-not-refused", j=j)
    # ---- a transaction was produced: observe it
    try:
        outs = [o.coin_value for o in tx.txs_out]
        scripts = [bytes(o.script) for o in tx.txs_out]
        rep_fee, tin, tout = tx.fee(), tx.total_in(), tx.total_out()
        ins = [(bytes(t.previous_hash), t.previous_index) for t in tx.txs_in]
        uns = [(u.coin_value, bytes(u.script)) for u in tx.unspents]
    except Exception as e:
        return BAD("observation-error", ref_desc, "EXC %s: %s" % (type(e).__name__, e), clause="observe")
    n = 4
    if outs != exp:
        clause = "split-distribution" if sum(outs) == sum(exp) else "conservation"
        return BAD("outputs-differ", ref_desc, "outputs %r" % (outs,), n=n, clause=clause, j=j)
    if j >= 1 and sum(outs) + fee != total_in:
        return BAD("not-conserved", "outputs + fee = %d" % total_in, "%d" % (sum(outs) + fee), n=n, clause="conservation")
    if rep_fee != total_in - sum(outs) or tin != total_in or tout != sum(outs) or rep_fee != tin - tout:
        return BAD("fee-report", "fee()=%d total_in=%d total_out=%d" % (total_in - sum(outs), total_in, sum(outs)),
                   "fee()=%r total_in=%r total_out=%r" % (rep_fee, tin, tout), n=n, clause="fee-report")
    if ins != [(p[2], p[3]) for p in parts] or uns != [(p[0], p[1]) for p in parts]:
        return BAD("pairing", "txs_in[i] and unspents[i] both describe spendable i", "ins %r unspents %r" % (ins, uns),
                   n=n, clause="pairing")
    if scripts != [payee(i)[1] for i in range(len(pay))]:
        return BAD("payee", "output i pays payable i", "scripts %r" % ([s.hex() for s in scripts],), n=n, clause="payee")
    if j == 0:
        return OK("j0:" + ("fee<0" if rep_fee < 0 else "fee=0" if rep_fee == 0 else "fee>0"), n=n)
    pool = total_in - sum(pay) - fee
    rem = pool % j
    return OK("split j=%d rem=%s %s" % (j, "0" if rem == 0 else "1..j-1", "min-share=1" if pool // j == 1 else "share>1"), n=n)


class Split(Driver):
    id = "C13.split"
    rule = ("every spendable value list (length 1..L over the value alphabet) x every arrangement of j<=4 unspecified "
            "and k<=2 fixed payables (fixed amounts from a 3-symbol alphabet) x every fee that puts the split pool at "
            "-2..3j+2 or gives a distinct residue mod j; non-trivial = at least one unspecified output or a negative fee report")
    VALUES = (1, 2, 3, 7, 10 ** 8, MAX)
    FIXED = (1, 5, 10 ** 8)
    spells = ("plain",)
    forms = ("obj",)

    def __init__(self, tier, seed):
        Driver.__init__(self, tier, seed)
        generic = seed_int(seed, "c13.value", 10 ** 3, 10 ** 12)
        self.values = self.VALUES + (generic,)
        if tier == "quick":
            self.lists = [list(v) for n in (1, 2) for v in itertools.product(self.values, repeat=n)]
            self.lists += [list(v) for v in itertools.product((1, 2, 10 ** 8), repeat=3)]
        else:
            self.lists = [list(v) for n in (1, 2, 3) for v in itertools.product(self.values, repeat=n)]
        # totals beyond 2^53 (where float arithmetic stops being exact): five and more maximal spendables
        self.lists += [[MAX] * 5, [MAX] * 6, [MAX] * 5 + [7], [MAX - 1] * 5 + [3, 1]]
        self.bound = dict(value_alphabet=list(self.values), value_lists=len(self.lists), max_unspecified=4, max_fixed=2,
                          fixed_amounts=list(self.FIXED), pool_window="-2..3j+2 plus fee 0..j-1",
                          spellings=list(self.spells), spendable_forms=list(self.forms))

    def units(self):
        for vals in self.lists:
            for j, k, pat in patterns(4, 2):
                yield dict(values=vals, pattern=pat)

    def execute(self, unit):
        pat = unit["pattern"]
        k = pat.count("f")
        j = pat.count("u")
        for amounts in itertools.product(self.FIXED, repeat=k):
            it = iter(amounts)
            pay = [next(it) if c == "f" else 0 for c in pat]
            for fee in fee_grid(sum(unit["values"]), sum(pay), j):
                for spell in self.spells:
                    for form in self.forms:
                        case = dict(values=unit["values"], payables=pay, fee=fee, spell=spell, form=form)
                        yield case, build_and_check(case)

    def run(self, case):
        return build_and_check(case)

    def nontrivial(self, cls):
        return not cls.startswith("j0:fee>") and not cls.startswith("j0:fee=0")

    def selfcheck(self):
        n, bad = money.selfcheck()
        if bad:
            raise ModelInvalid("ref money: %s" % bad[:3])
        # payee model: secret 1 -> the well-known address
        h = refk.hash160(refk.ser_p(refk.G))
        if refk.b58check(b"\x00" + h) != "1BgGZ9tcN4rm9KBzDn7KprQz87SZ26SAMH":
            raise ModelInvalid("address model")
        return n + 1


class Forms(Split):
    id = "C13.forms"
    rule = ("C13.split's oracle over spendables given as objects / text / dicts x unspecified payables spelled as "
            "address / (address, 0) / alternating, with and without the bookkeeping fields of the records set (block indices, seems-spent flag), "
            "on a reduced value grid")
    spells = ("plain", "tuple0", "alt")
    forms = ("obj", "text", "dict", "obj-marked", "text-marked", "dict-marked")

    def __init__(self, tier, seed):
        Split.__init__(self, tier, seed)
        alpha = (1, 3, MAX)
        self.lists = [list(v) for n in ((1, 2) if tier == "quick" else (1, 2, 3)) for v in itertools.product(alpha, repeat=n)]
        self.bound = dict(self.bound, value_alphabet=list(alpha), value_lists=len(self.lists))

    def units(self):
        for vals in self.lists:
            for j, k, pat in patterns(3, 1):
                yield dict(values=vals, pattern=pat)


# ---------------------------------------------------------------- validate_unspents
SRC = {
    "A": [(5, "51"), (5, "52"), (7, "52")],
    "B": [(9, "53"), (5, "51")],
    "C": [(11, "76a914" + "11" * 20 + "88ac"), (13, "a914" + "22" * 20 + "87")],      # scripts that contain data pushes
}
OUTPOINTS = [("A", 0), ("A", 1), ("A", 2), ("B", 0), ("B", 1), ("C", 0), ("C", 1)]
PER_INPUT = ["amount+1", "amount-1", "script-first-byte", "script-last-byte", "script-truncated", "script-extended",
             "script-empty", "script-same-disassembly", "sibling-0", "sibling-1", "sibling-2", "index=len", "index=len+1", "index=2^32-1", "amount-as-other-source"]
PER_DB = ["missing", "wrong-id", "source-amount-changed", "source-script-changed", "source-output-dropped",
          "forged-source-amount", "forged-source-script"]


def unspents_case(case):
    sel = [tuple(x) for x in case["inputs"]]
    disc = case["discrepancy"]          # ["none"] | [kind, input position]
    try:
        from pycoin.symbols.btc import network
        Tx = network.tx
    except Exception as e:
        return BAD("import", "importable", "EXC %s: %s" % (type(e).__name__, e), clause="import")
    # harness construction (pycoin objects used as data carriers)
    try:
        src = {}
        for name, outs in SRC.items():
            src[name] = Tx(1, [Tx.TxIn(hashlib.sha256(b"c13.prev." + name.encode()).digest(), 0)],
                           [Tx.TxOut(v, bytes.fromhex(s) * 3) for v, s in outs])
        db = {t.hash(): t for t in src.values()}
        rec = []
        for name, idx in sel:
            o = src[name].txs_out[idx]
            rec.append([o.coin_value, bytes(o.script), src[name].hash(), idx])
    except Exception as e:
        return BAD("construction", "source transactions constructible", "EXC %s: %s" % (type(e).__name__, e), clause="construct")
    differs = False
    kind = disc[0]
    if kind != "none":
        pos = int(disc[1])
        name, idx = sel[pos]
        r = rec[pos]
        true_val, true_script = r[0], r[1]
        if kind == "amount+1":
            r[0] += 1
        elif kind == "amount-1":
            r[0] -= 1
        elif kind == "script-first-byte":
            r[1] = bytes([r[1][0] ^ 1]) + r[1][1:]
        elif kind == "script-last-byte":
            r[1] = r[1][:-1] + bytes([r[1][-1] ^ 0x80])
        elif kind == "script-truncated":
            r[1] = r[1][:-1]
        elif kind == "script-extended":
            r[1] = r[1] + b"\x00"
        elif kind == "script-empty":
            r[1] = b""
        elif kind == "script-same-disassembly":
            # the first 20-byte data push re-encoded with OP_PUSHDATA1: other bytes, same disassembly text
            k = r[1].find(b"\x14")
            if k < 0 or len(r[1]) < k + 21:
                return None
            r[1] = r[1][:k] + b"\x4c\x14" + r[1][k + 1:]
        elif kind.startswith("sibling-"):
            s = int(kind[-1])
            outs = src[name].txs_out
            if s >= len(outs) or s == idx:
                return None
            r[0], r[1] = outs[s].coin_value, bytes(outs[s].script)      # data of another output, outpoint unchanged
        elif kind == "amount-as-other-source":
            other = src["B" if name == "A" else "A"].txs_out[0]
            r[0], r[1] = other.coin_value, bytes(other.script)
        elif kind in ("index=len", "index=len+1", "index=2^32-1"):
            n = len(src[name].txs_out)
            r[3] = {"index=len": n, "index=len+1": n + 1, "index=2^32-1": 2 ** 32 - 1}[kind]
            differs = True                                           # no such source output at all
        elif kind == "missing":
            del db[src[name].hash()]
            differs = True
        elif kind == "wrong-id":
            db[src[name].hash()] = src["B" if name == "A" else "A"]
            differs = True
        elif kind in ("source-amount-changed", "source-script-changed", "source-output-dropped"):
            t = src[name]
            outs = [Tx.TxOut(o.coin_value, bytes(o.script)) for o in t.txs_out]
            if kind == "source-amount-changed":
                outs[idx] = Tx.TxOut(outs[idx].coin_value + 1, outs[idx].script)
            elif kind == "source-script-changed":
                outs[idx] = Tx.TxOut(outs[idx].coin_value, outs[idx].script + b"\x51")
            else:
                outs = outs[:idx]
            db[t.hash()] = Tx(1, list(t.txs_in), outs)              # a different transaction filed under the old id
            differs = True
        elif kind in ("forged-source-amount", "forged-source-script"):
            # the record is wrong AND the database holds, under the genuine id, a doctored copy of the source that agrees with it
            t = src[name]
            outs = [Tx.TxOut(o.coin_value, bytes(o.script)) for o in t.txs_out]
            if kind == "forged-source-amount":
                r[0] += 8999
            else:
                r[1] = r[1] + b"\x51"
            outs[idx] = Tx.TxOut(r[0], r[1])
            db[t.hash()] = Tx(1, list(t.txs_in), outs)
            differs = True
        else:
            raise ValueError(kind)
        if (r[0], r[1]) != (true_val, true_script):
            differs = True
    total_in = sum(r[0] for r in rec)
    try:
        spend = [Tx.Spendable(r[0], r[1], r[2], r[3]) for r in rec]
        tx = Tx(1, [s.tx_in() for s in spend], [Tx.TxOut(1, b"\x51")])
        tx.set_unspents(spend)
        if case.get("signed"):
            # unlocking data present (as after signing): a script on even inputs, a witness on odd ones and on the first
            for k, ti in enumerate(tx.txs_in):
                if k % 2 == 0:
                    tx.set_witness(k, [b"\x30\x06\x02\x01\x01\x02\x01\x01\x01", b"\x02" + b"\x11" * 32])
                if k % 2 == 1 or k == 0:
                    ti.script = b"\x51"
    except Exception as e:
        return BAD("construction", "constructible", "EXC %s: %s" % (type(e).__name__, e), clause="construct")
    try:
        got = tx.validate_unspents(db)
        res = "returned %r" % (got,)
        returned = True
    except Exception as e:
        res = "EXC %s: %s" % (type(e).__name__, str(e)[:120])
        returned = False
        exc = type(e).__name__
    if differs:
        if returned:
            return BAD("discrepancy-accepted", "does not return normally (%s at input %s)" % (kind, disc[1:]), res,
                       clause="unspents-accepted", kind=kind)
        return OK("rejected:%s:%s" % (kind, exc))
    if not returned:
        return BAD("undisturbed-rejected", "returns the fee %d" % (total_in - 1), res, clause="unspents-false-reject", kind=kind)
    if got != total_in - 1:
        return BAD("fee-value", "returns the fee %d" % (total_in - 1), res, clause="fee-report")
    return OK("trivial-accepted:undisturbed" if kind == "none" else "accepted:identical-data:%s" % kind)


class Unspents(Driver):
    id = "C13.unspents"
    rule = ("two source transactions (3 + 2 outputs, with equal amounts under different scripts and vice versa); every "
            "ordered selection of <= 3 outpoints as inputs; every single discrepancy of the recorded amount/script/"
            "index per input and every single database fault; non-trivial = a discrepancy is present")

    def __init__(self, tier, seed):
        Driver.__init__(self, tier, seed)
        self.maxin = 2 if tier == "quick" else 3
        self.bound = dict(sources={k: v for k, v in SRC.items()}, max_inputs=self.maxin, per_input=PER_INPUT, per_database=PER_DB)

    def units(self):
        for n in range(1, self.maxin + 1):
            for sel in itertools.permutations(OUTPOINTS, n):
                yield dict(inputs=[list(x) for x in sel])

    def execute(self, unit):
        n = len(unit["inputs"])
        discs = [["none"]] + [[k, p] for p in range(n) for k in PER_INPUT + PER_DB]
        for d in discs:
            for signed in (False, True):
                case = dict(inputs=unit["inputs"], discrepancy=d, signed=signed)
                out = unspents_case(case)
                if out is not None:
                    yield case, out

    def run(self, case):
        return unspents_case(case) or OK("trivial-inapplicable")


# ---------------------------------------------------------------- conversions
def convert_check(sat):
    """all conversion observations for one satoshi value; returns None when fine, else BAD"""
    D = decimal.Decimal
    try:
        from pycoin import convention as C
        table = (("btc", 8, C.satoshi_to_btc, C.btc_to_satoshi), ("mbtc", 5, C.satoshi_to_mbtc, C.mbtc_to_satoshi))
    except Exception as e:
        return BAD("import", "pycoin.convention importable", "EXC %s: %s" % (type(e).__name__, e), clause="import")
    for unit, digits, to_f, from_f in table:
        full = money.to_fixed(sat, digits)
        try:
            d = to_f(sat)
            if not isinstance(d, D) or d != D(full):
                return BAD("to-%s" % unit, "%s" % full, "%r" % (d,), clause="satoshi-to-%s" % unit)
            back = from_f(d)
            if back != sat or not isinstance(back, int):
                return BAD("%s-roundtrip" % unit, "%d" % sat, "%r" % (back,), clause="%s-to-satoshi" % unit)
            back = from_f(str(d))
            if back != sat:
                return BAD("%s-str-roundtrip" % unit, "%d" % sat, "%r via %r" % (back, str(d)), clause="%s-to-satoshi" % unit)
            for t in money.texts(sat, digits):
                back = from_f(t)
                if back != sat or not isinstance(back, int):
                    return BAD("%s-text" % unit, "%s -> %d" % (t, sat), "%r" % (back,), clause="%s-to-satoshi" % unit)
                back = from_f(D(t))
                if back != sat:
                    return BAD("%s-decimal" % unit, "%s -> %d" % (t, sat), "%r" % (back,), clause="%s-to-satoshi" % unit)
        except Exception as e:
            return BAD("convert-exception", "exact conversion of %d" % sat, "EXC %s: %s" % (type(e).__name__, e),
                       clause="convert-exception")
    return None


def convert_class(sat):
    if sat == 0:
        return "zero"
    if sat % 10 ** 8 == 0:
        return "whole-btc"
    if sat % 10 ** 5 == 0:
        return "whole-mbtc"
    if sat % 10 == 0:
        return "trailing-zero"
    return "full-precision"


_OK_CACHE = {}


class Convert(Driver):
    id = "C13.convert"
    rule = ("every satoshi value 0..R and 10^k*d+delta (k<=15, d<=21, |delta|<=2) up to 21e14: satoshi->BTC/mBTC equals the "
            "exact decimal, and every decimal spelling with 0..8 (0..5) fractional digits converts back exactly, as str "
            "and as Decimal; non-trivial = value with a non-zero fractional part")

    def __init__(self, tier, seed):
        Driver.__init__(self, tier, seed)
        self.dense = 2 * 10 ** 5 if tier == "quick" else 2 * 10 ** 6
        self.chunk = 2000
        self.bound = dict(dense_range="0..%d" % self.dense, edges="10^k*d+delta, k<=15, d<=21, |delta|<=2, <= 21e14",
                          decimal_context="default (prec=28) asserted")

    def edges(self):
        out = set()
        for k in range(0, 16):
            for d in range(1, 22):
                for delta in (-2, -1, 0, 1, 2):
                    v = 10 ** k * d + delta
                    if self.dense < v <= MAX:
                        out.add(v)
        out.add(MAX)
        out.add(MAX - 1)
        out.add(seed_int(self.seed, "c13.sat", 10 ** 9, MAX))
        return sorted(out)

    def units(self):
        for lo in range(0, self.dense + 1, self.chunk):
            yield dict(lo=lo, hi=min(lo + self.chunk, self.dense + 1))
        e = self.edges()
        for i in range(0, len(e), 200):
            yield dict(list=e[i:i + 200])

    def execute(self, unit):
        vals = unit["list"] if "list" in unit else range(unit["lo"], unit["hi"])
        for sat in vals:
            yield dict(sat=sat), self.run(dict(sat=sat))

    def run(self, case):
        sat = int(case["sat"])
        if decimal.getcontext().prec != 28 or decimal.getcontext().rounding != decimal.ROUND_HALF_EVEN:
            raise RuntimeError("decimal context is not the default one")
        bad = convert_check(sat)
        if bad is not None:
            return bad
        c = convert_class(sat)
        if c not in _OK_CACHE:
            _OK_CACHE[c] = OK(c, n=2 * 4 + len(money.texts(sat, 8)) * 2)
        return _OK_CACHE[c]

    def nontrivial(self, cls):
        return cls in ("full-precision", "trailing-zero", "whole-mbtc")


class FeeHistory(Driver):
    """Mode S: fee() / total_in() must follow the CURRENT spent-output records of one transaction object."""
    id = "C13.history"
    rule = ("state = one Tx whose spent-output records are replaced by a history of <= 3 operations from {observe fee()/total_in(), "
            "set_unspents(claimed amounts), set_unspents(true amounts), assign .unspents directly (claimed / true), "
            "unspents_from_db(source transactions), append an output, assign the true records plus one stray record (then the amounts are "
            "either refused or those of the inputs alone)}; after every operation fee() = total_in() - total_out() "
            "with total_in() the sum of the current records, and validate_unspents never returns normally while a claimed "
            "amount differs from its source; non-trivial = the records changed after a fee was observed")

    OPS = ["observe", "set:claimed", "set:true", "assign:claimed", "assign:true", "from_db", "add-output", "assign:true+stray"]

    def __init__(self, tier, seed):
        Driver.__init__(self, tier, seed)
        self.depth = 3 if tier == "quick" else 4
        self.bound = dict(ops=self.OPS, depth=self.depth)

    def units(self):
        for first in range(len(self.OPS)):
            yield dict(first=first)

    def execute(self, unit):
        for ln in range(0, self.depth):
            for rest in itertools.product(range(len(self.OPS)), repeat=ln):
                case = dict(ops=[self.OPS[i] for i in (unit["first"],) + rest])
                yield case, self.run(case)

    def run(self, case):
        try:
            from pycoin.symbols.btc import network
            Tx = network.tx
            src = Tx(1, [Tx.TxIn(hashlib.sha256(b"c13.hist").digest(), 0)], [Tx.TxOut(50000, b"\x51"), Tx.TxOut(70000, b"\x52")])
            db = {src.hash(): src}
            true = [(50000, b"\x51"), (70000, b"\x52")]
            claimed = [(60000, b"\x51"), (70000, b"\x52")]
            mk = lambda recs: [Tx.Spendable(v, sc, src.hash(), i) for i, (v, sc) in enumerate(recs)]
            tx = Tx(1, [Tx.TxIn(src.hash(), 0), Tx.TxIn(src.hash(), 1)], [Tx.TxOut(100000, b"\x53")])
            tx.set_unspents(mk(true))
        except Exception as e:
            return BAD("construction", "transaction constructible", "EXC %s: %s" % (type(e).__name__, e), clause="construct")
        cur = list(true)
        outs = 100000
        stray = False
        observed = False
        changed_after_observe = False
        n = 0
        for step, op in enumerate(list(case["ops"]) + ["observe"]):
            try:
                if op == "set:claimed":
                    tx.set_unspents(mk(claimed)); new = claimed
                elif op == "set:true":
                    tx.set_unspents(mk(true)); new = true
                elif op == "assign:claimed":
                    tx.unspents = mk(claimed); new = claimed
                elif op == "assign:true":
                    tx.unspents = mk(true); new = true
                elif op == "from_db":
                    tx.unspents_from_db(db); new = true
                elif op == "add-output":
                    tx.txs_out.append(Tx.TxOut(7, b"\x54")); outs += 7; new = cur
                elif op == "assign:true+stray":
                    tx.unspents = mk(true) + [Tx.Spendable(50000, b"\x51", src.hash(), 0)]; new = true
                else:
                    new = cur
                if op in ("set:claimed", "set:true", "assign:claimed", "assign:true", "from_db"):
                    stray = False
                elif op == "assign:true+stray":
                    stray = True
                if op != "observe" and observed and (list(new) != cur or op == "add-output"):
                    changed_after_observe = True
                cur = list(new)
                want_in = sum(v for v, _ in cur)
                try:
                    got = (tx.total_in(), tx.total_out(), tx.fee())
                except Exception:
                    if not stray:
                        raise
                    got = (want_in, outs, want_in - outs)        # more records than inputs: refusing to add them up is fine
                n += 3
                observed = True
            except Exception as e:
                return BAD("history-raises", "operation %r works" % op, "step %d: EXC %s: %s" % (step, type(e).__name__, e), clause="fee-history-raises", n=n)
            if got != (want_in, outs, want_in - outs):
                return BAD("fee-differs", "after %r: total_in %d, total_out %d, fee %d" % (op, want_in, outs, want_in - outs),
                           "total_in %r, total_out %r, fee %r" % got, clause="fee-history", n=n, step=step)
            # validate_unspents against the sources: normal return only when the records are the true ones
            try:
                r = tx.validate_unspents(db)
                returned = True
            except Exception:
                returned = False
            n += 1
            if returned and cur != true:
                return BAD("discrepancy-accepted", "validate_unspents does not return normally (claimed 60000, source says 50000)", "returned %r" % (r,),
                           clause="fee-history-validate", n=n, step=step)
            if returned and r != want_in - outs:
                return BAD("fee-differs", "validate_unspents returns the fee %d" % (want_in - outs), repr(r), clause="fee-history", n=n, step=step)
            if not returned and cur == true and not stray:
                return BAD("validate-raises", "validate_unspents returns normally for true records", "raised", clause="fee-history-validate", n=n, step=step)
        return OK("changed-after-observe" if changed_after_observe else "plain", n=n)

    def nontrivial(self, cls):
        return cls != "plain"


DRIVERS = [Split, Forms, Unspents, Convert, FeeHistory]
ASSUMPTIONS = [
    "spendable values and fixed amounts come from the stated alphabets; at most 3 inputs, 4 unspecified and 2 fixed outputs",
    "fee is an integer >= 0 (the deprecated fee='standard' estimate is not part of the property)",
    "with no unspecified output the property only requires fee() = inputs - outputs (DESIGN.md C13)",
    "decimal conversions are checked under the default decimal context (prec 28); inputs are int, str and Decimal, not float",
    "validate_unspents: databases are dict-like; coinbase-style all-zero previous hashes (skipped by design) are C20's subject",
]
