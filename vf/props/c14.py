"""C14 - blocks round-trip, ids and merkle roots follow the Bitcoin definition; BIP37 merkleblock proofs (Mode I).

C14.header   full product of boundary values for the six header fields x coin classes with the standard 80-byte header;
             wire bytes, parse, id = reversed double-SHA256, and a small history on one object (set_nonce, field assignment).
C14.block    blocks of 1..N minimal transactions (legacy / witness / wider ones at every position): parse, re-serialise,
             construct + set_txs, ids; then every single alteration (each transaction changed, two swapped, header root
             flipped) must raise; witness-only malleation (txid unchanged) is recorded, not judged.
C14.merkle   merkle() on every list length 1..M with distinct / repeated contents = reference root.
C14.proof    for n = 1..N transactions EVERY subset of matched transactions: honest BIP37 proof from vf.ref.merkle is
             accepted with exactly the matched ids in order; EVERY single-position corruption the property lists is rejected.
"""
import io
import itertools

from ..engine import Driver, OK, BAD, ModelInvalid, seed_bytes
from ..ref import wire
from ..ref import merkle as refmerkle
from .c07 import network, ref_tx, build_tx, tx_fields, diff_tx, simple_tx_desc, short, exc, first_diff, mkbytes

COINS = ("BTC", "LTC", "BCH")       # coin classes whose block header is the standard 80-byte one
U32 = 2 ** 32 - 1
ASYM1 = bytes(range(0x10, 0x30)).hex()
ASYM2 = bytes(range(0xe0, 0x100)).hex()


def ref_header(d):
    return {"version": int(d["version"]), "prev": mkbytes(d["prev"]), "merkle": mkbytes(d["merkle"]), "time": int(d["time"]),
            "bits": int(d["bits"]), "nonce": int(d["nonce"])}


def build_header(Block, h):
    return Block(h["version"], h["prev"], h["merkle"], h["time"], h["bits"], h["nonce"])


def header_fields(b):
    return {"version": b.version, "prev": bytes(b.previous_block_hash), "merkle": bytes(b.merkle_root), "time": b.timestamp,
            "bits": b.difficulty, "nonce": b.nonce}


def diff_header(a, b):
    for k in ("version", "prev", "merkle", "time", "bits", "nonce"):
        if a[k] != b[k]:
            return "%s: %s vs %s" % (k, short(a[k]), short(b[k]))
    return None


# ---------------------------------------------------------------- C14.header

class Headers(Driver):
    id = "C14.header"
    rule = ("one state = one header (full product of boundary values for 6 fields) on one coin class, followed by a "
            "set_nonce / field-assignment history on the same object; all are non-trivial")

    def __init__(self, tier, seed):
        Driver.__init__(self, tier, seed)
        ints = [0, 1, 2 ** 31, U32]
        if tier == "thorough":
            ints = [0, 1, 255, 256, 2 ** 31 - 1, 2 ** 31, U32]
        S = ASYM1 if seed == 0 else seed_bytes(seed, "c14.hdr.hash", 32).hex()
        self.ints = ints
        self.hashes = ["00" * 32, "ff" * 32, S]
        self.bound = dict(product="full", ints=[str(i) for i in ints], hashes=self.hashes, coins=list(COINS))

    def units(self):
        for coin in COINS:
            for version in self.ints:
                for prev in self.hashes:
                    for mr in self.hashes:
                        yield dict(coin=coin, version=version, prev=prev, merkle=mr)

    def execute(self, unit):
        for t, bits, nonce in itertools.product(self.ints, repeat=3):
            case = dict(unit, time=t, bits=bits, nonce=nonce)
            yield case, self.run(case)

    def run(self, case):
        H = ref_header(case)
        ref = wire.ser_header(H)
        Block = network(case["coin"]).block
        n = 0
        try:
            b = build_header(Block, H)
            got = b.as_bin()
            s = io.BytesIO()
            b.stream_header(s)
            got2 = s.getvalue()
            n += 2
        except Exception as e:
            return BAD("header-stream-raises", "header serialises", exc(e), clause="header-stream")
        if got != ref or got2 != ref:
            return BAD("header-stream-differs", "80 bytes %s" % ref.hex(), first_diff(ref, got if got != ref else got2), clause="header-stream")
        try:
            f = io.BytesIO(ref + b"\x00\x99")
            p = Block.parse_as_header(f)
            pos = f.tell()
            p2 = Block.parse(io.BytesIO(ref), include_transactions=False)
            back = (p.as_bin(), p2.as_bin())
            n += 4
        except Exception as e:
            return BAD("header-parse-raises", "80-byte header parses", exc(e), clause="header-parse")
        d = diff_header(H, header_fields(p)) or diff_header(H, header_fields(p2))
        if d or pos != 80 or back != (ref, ref):
            return BAD("header-parse-differs", "parse_as_header gives the six fields, consuming 80 bytes; re-serialises identically",
                       "%s; consumed %d" % (d, pos), clause="header-parse")
        want = wire.block_hash_bytes(H)
        try:
            ids = (bytes(b.hash()), b.id(), bytes(p.hash()), p.id(), p.previous_block_id())
            n += 5
        except Exception as e:
            return BAD("header-id-raises", "hash()/id() work", exc(e), clause="block-id")
        if ids != (want, want[::-1].hex(), want, want[::-1].hex(), H["prev"][::-1].hex()):
            return BAD("header-id-differs", "id = reversed double-SHA256 of the 80 bytes = %s" % want[::-1].hex(), "id()=%s parsed.id()=%s" % (ids[1], ids[3]), clause="block-id")
        # history on one object: the id must follow the current field values
        H2 = dict(H, nonce=(H["nonce"] + 1) & U32)
        H3 = dict(H2, time=(H["time"] ^ 0x01000000))
        H4 = dict(H3, merkle=bytes([H["merkle"][0] ^ 0x80]) + H["merkle"][1:])
        try:
            b.set_nonce(H2["nonce"])
            id2 = b.id()
            b.timestamp = H3["time"]
            id3 = b.id()
            b.merkle_root = H4["merkle"]
            id4 = b.id()
            bin4 = b.as_bin()
            n += 4
        except Exception as e:
            return BAD("header-history-raises", "set_nonce / assignment / id() work", exc(e), clause="block-id-history")
        w = tuple(wire.block_id_hex(x) for x in (H2, H3, H4))
        if (id2, id3, id4) != w or bin4 != wire.ser_header(H4):
            return BAD("header-history-differs", "id follows the current fields: %r" % (w,), repr((id2, id3, id4)), clause="block-id-history")
        return OK("header-ok", n=n)

    def nontrivial(self, cls):
        return True

    def selfcheck(self):
        try:
            return wire.selfcheck() + refmerkle.selfcheck()
        except ModelInvalid:
            raise
        except Exception as e:
            raise ModelInvalid("reference model: %s: %s" % (type(e).__name__, e))


# ---------------------------------------------------------------- C14.block

TX_KINDS = ("legacy", "witness", "wide", "big", "coinbase")


def tx_desc_of_kind(kind, k):
    if kind == "legacy":
        return simple_tx_desc(1, 1, (), salt=k)
    if kind == "witness":
        return simple_tx_desc(2, 1, ("x", "none") if k % 2 else ("ex", "e"), salt=k)
    if kind == "wide":
        return simple_tx_desc(2, 3, (), salt=k, version=2, lock_time=U32 - k)
    if kind == "big":
        d = simple_tx_desc(1, 2, ("i253",), salt=k)
        d["outs"][0]["script"] = [253, k]
        return d
    if kind == "coinbase":
        # what every post-segwit block starts with: the null outpoint and a one-item witness (the reserved value)
        d = simple_tx_desc(1, 2, ("x",), salt=k)
        d["ins"][0]["prev"] = "00" * 32
        d["ins"][0]["index"] = U32
        d["ins"][0]["witness"] = [[32, 0]]
        return d
    raise ValueError(kind)


def block_layouts(nmax):
    for n in range(1, nmax + 1):
        yield ["legacy"] * n
        yield ["witness"] * n
        for pos in range(n):
            for kind in TX_KINDS[1:]:
                if n == 1 and kind == "witness":
                    continue
                lay = ["legacy"] * n
                lay[pos] = kind
                yield lay


def alterations(kinds):
    n = len(kinds)
    yield ["none"]
    yield ["no-check"]
    for i in range(n):
        yield ["tx-locktime", i]
        yield ["tx-value", i]
        if kinds[i] in ("witness", "big"):
            yield ["tx-witness-only", i]
    for i in range(n - 1):
        yield ["swap", i, i + 1]
    if n >= 3:
        yield ["swap", 0, n - 1]
    if n >= 2:
        yield ["drop-last"]
        yield ["dup-last"]
    yield ["root-bit", 0]
    yield ["root-bit", 255]


class Blocks(Driver):
    id = "C14.block"
    rule = ("one state = one block (1..N transactions, layouts with a witness / wide / large transaction at every position) "
            "with one alteration (none, each transaction changed, neighbours swapped, last dropped/duplicated, header root bit "
            "flipped); non-trivial = everything except the unaltered 1-transaction legacy block")

    def __init__(self, tier, seed):
        Driver.__init__(self, tier, seed)
        self.nmax = 6 if tier == "quick" else 12
        self.prev = ASYM2 if seed == 0 else seed_bytes(seed, "c14.blk.prev", 32).hex()
        self.bound = dict(max_transactions=self.nmax, tx_kinds=list(TX_KINDS), coins=list(COINS),
                          layouts="all-legacy, all-witness, one non-legacy transaction at each position")

    def units(self):
        for kinds in block_layouts(self.nmax):
            for coin in COINS:
                yield dict(coin=coin, kinds=kinds, header=dict(version=0x20000000, prev=self.prev, time=1231006505 + len(kinds), bits=0x1d00ffff, nonce=len(kinds)))

    def execute(self, unit):
        for alt in alterations(unit["kinds"]):
            case = dict(unit, alter=alt)
            yield case, self.run(case)

    def run(self, case):
        kinds = case["kinds"]
        alt = case["alter"]
        net = network(case["coin"])
        Block, T = net.block, net.tx
        honest = [ref_tx(tx_desc_of_kind(k, i)) for i, k in enumerate(kinds)]
        root = refmerkle.merkle_root([wire.txid_bytes(t) for t in honest])
        H = ref_header(dict(case["header"], merkle=root.hex()))
        txs = [dict(t, ins=[dict(i) for i in t["ins"]], outs=[dict(o) for o in t["outs"]]) for t in honest]
        kind = alt[0]
        if kind == "tx-locktime":
            txs[alt[1]]["lock_time"] ^= 1
        elif kind == "tx-value":
            txs[alt[1]]["outs"][0]["value"] += 1
        elif kind == "tx-witness-only":
            for i in txs[alt[1]]["ins"]:
                if i["witness"]:
                    i["witness"] = list(i["witness"]) + [b"\x77"]
        elif kind == "swap":
            txs[alt[1]], txs[alt[2]] = txs[alt[2]], txs[alt[1]]
        elif kind == "drop-last":
            txs = txs[:-1]
        elif kind == "dup-last":
            txs = txs + [txs[-1]]
        elif kind == "root-bit":
            m = bytearray(H["merkle"])
            m[alt[1] // 8] ^= 1 << (alt[1] % 8)
            H["merkle"] = bytes(m)
        blk = {"header": H, "txs": txs}
        ref = wire.ser_block(blk)
        new_root = refmerkle.merkle_root([wire.txid_bytes(t) for t in txs])
        must_reject = new_root != H["merkle"]
        if kind in ("none", "no-check", "tx-witness-only") and must_reject:
            raise ModelInvalid("reference: root changed by %r" % (alt,))
        if kind not in ("none", "no-check", "tx-witness-only", "dup-last") and not must_reject:
            raise ModelInvalid("reference: root unchanged by %r" % (alt,))
        label = "n%d:%s" % (len(kinds), kind)
        if kind == "dup-last":
            # duplicating the last transaction of an odd-length list keeps the root (CVE-2012-2459): the property
            # demands rejection only when the transactions do not hash to the header's root
            label += ":root-changed" if must_reject else ":root-kept"
        try:
            if kind == "no-check":
                b = Block.parse(io.BytesIO(ref), check_merkle_hash=False)
            else:
                b = Block.from_bin(ref)
                if must_reject:
                    pass
                else:
                    # the other routes that parse a full block must agree (and, below, refuse what from_bin refuses)
                    for rname, rf in (("parse(stream)", lambda: Block.parse(io.BytesIO(ref))),
                                      ("message block", lambda: net.message.parse("block", ref)["block"])):
                        ob = rf()
                        if ob.as_bin() != b.as_bin() or ob.id() != b.id() or type(ob) is not Block:
                            return BAD("block-parse-differs", "%s parses the same block as from_bin" % rname,
                                       "%s id %s" % (type(ob).__name__, ob.id()), clause="block-parse-route", kind=kind)
        except Exception as e:
            if must_reject:
                # every other route must refuse it too
                for rname, rf in (("parse(stream)", lambda: Block.parse(io.BytesIO(ref))),
                                  ("message block", lambda: net.message.parse("block", ref))):
                    try:
                        rf()
                    except Exception:
                        continue
                    return BAD("bad-root-accepted", "rejected on every route: transactions hash to %s, header says %s" % (new_root.hex(), H["merkle"].hex()),
                               "%s parsed it without error" % rname, clause="merkle-reject-route", kind=kind)
                if type(e).__name__ == "BadMerkleRootError":
                    return OK("reject:" + label)
                # still a rejection, which is all the property demands; kept apart in the statistics
                return OK("reject-other-exception:%s:%s" % (type(e).__name__, label))
            return BAD("block-parse-raises", "well-formed block parses", exc(e), clause="block-parse", kind=kind)
        if must_reject:
            return BAD("bad-root-accepted", "rejected: transactions hash to %s, header says %s" % (new_root.hex(), H["merkle"].hex()),
                       "parsed without error", clause="merkle-reject", kind=kind)
        n = 1
        try:
            again = b.as_bin()
            fh = header_fields(b)
            ft = [tx_fields(t) for t in b.txs]
            bid = b.id()
            n += 2
        except Exception as e:
            return BAD("block-observe-raises", "parsed block re-serialises", exc(e), clause="block-parse", kind=kind)
        d = diff_header(H, fh)
        if not d and len(ft) != len(txs):
            d = "%d transactions vs %d" % (len(txs), len(ft))
        if not d:
            for i, (x, y) in enumerate(zip(txs, ft)):
                d = diff_tx(x, y)
                if d:
                    d = "tx %d: %s" % (i, d)
                    break
        if d:
            return BAD("block-parse-differs", "parsed block equal field by field", d, clause="block-parse", kind=kind)
        if again != ref:
            return BAD("block-reserialise-differs", "from_bin(b).as_bin() == b", first_diff(ref, again), clause="block-stream", kind=kind)
        if bid != wire.block_id_hex(H):
            return BAD("block-id-differs", wire.block_id_hex(H), bid, clause="block-id", kind=kind)
        # construct the same block through the API and serialise
        try:
            b2 = build_header(Block, H)
            b2.set_txs([build_tx(T, t) for t in txs])
            made = b2.as_bin()
            bid2 = b2.id()
            n += 3
        except Exception as e:
            return BAD("block-build-raises", "Block(...).set_txs(txs).as_bin() works", exc(e), clause="block-stream", kind=kind)
        if made != ref or bid2 != bid:
            return BAD("block-stream-differs", "header + count + transactions", first_diff(ref, made), clause="block-stream", kind=kind)
        # a block built with a wrong root must be refused by set_txs as well
        if kind == "none":
            try:
                b3 = build_header(Block, dict(H, merkle=bytes(32)))
                b3.set_txs([build_tx(T, t) for t in txs])
                return BAD("bad-root-accepted", "set_txs raises BadMerkleRootError for a wrong root", "no error", clause="merkle-reject", kind="set_txs")
            except Exception as e:
                if type(e).__name__ != "BadMerkleRootError":
                    return OK("reject-other-exception:%s:set_txs" % type(e).__name__)
            n += 1
        return OK("accept:" + label, n=n)

    def nontrivial(self, cls):
        return cls != "accept:n1:none"


# ---------------------------------------------------------------- C14.merkle

class MerkleRoots(Driver):
    id = "C14.merkle"
    rule = "one state = one list of 1..M hashes (distinct / all equal / last two equal / first two equal); non-trivial = odd level somewhere"

    def __init__(self, tier, seed):
        Driver.__init__(self, tier, seed)
        self.m = 33 if tier == "quick" else 130
        self.seedhex = "%d" % seed
        self.bound = dict(max_len=self.m, contents=["distinct", "all-equal", "last-two-equal", "first-two-equal", "boundary-bytes"])

    def units(self):
        for n in range(1, self.m + 1):
            for content in ("distinct", "all-equal", "last-two-equal", "first-two-equal", "boundary-bytes"):
                yield dict(n=n, content=content, seed=self.seedhex)

    def run(self, case):
        n, content = int(case["n"]), case["content"]
        hs = [wire.sha256(("c14.merkle|%s|%d|%d" % (case["seed"], n, i)).encode()) for i in range(n)]
        if content == "all-equal":
            hs = [hs[0]] * n
        elif content == "last-two-equal" and n >= 2:
            hs[-1] = hs[-2]
        elif content == "first-two-equal" and n >= 2:
            hs[1] = hs[0]
        elif content == "boundary-bytes":
            hs = [bytes([0x00, 0xff][(i + j) % 2] for j in range(32)) if i % 3 == 0 else bytes([i & 0xff]) * 32 for i in range(n)]
        want = refmerkle.merkle_root(hs)
        from pycoin.merkle import merkle
        arg = list(hs)
        try:
            got = merkle(arg)
            got_t = merkle(list(hs), wire.dsha256)
            got_again = merkle(arg)           # the caller keeps using its list: same list object, second call
            got_tuple = merkle(tuple(hs))
        except Exception as e:
            return BAD("merkle-raises", want.hex(), exc(e), clause="merkle-root")
        if bytes(got) != want or bytes(got_t) != want:
            return BAD("merkle-differs", want.hex(), bytes(got).hex(), n=2, clause="merkle-root")
        if arg != hs:
            return BAD("merkle-mutates-argument", "the caller's list of %d hashes is left alone" % n, "list now has %d entries" % len(arg),
                       n=4, clause="merkle-argument-mutated")
        if bytes(got_again) != want or bytes(got_tuple) != want:
            return BAD("merkle-differs", want.hex(), "second call on the same list / tuple argument: %s / %s" % (bytes(got_again).hex(), bytes(got_tuple).hex()),
                       n=4, clause="merkle-root")
        odd = False
        k = n
        while k > 1:
            if k % 2:
                odd = True
            k = (k + 1) // 2
        return OK(("odd-level" if odd else "power-of-two") + ":" + content, n=2)

    def nontrivial(self, cls):
        return cls.startswith("odd-level")


# ---------------------------------------------------------------- C14.proof

def proof_corruptions(nh, nbits, nflagbytes):
    for i in range(nh):
        yield ["flip", i, 0]
        yield ["flip", i, 255]
    for i in range(nh):
        yield ["remove", i]
    for i in range(nh + 1):
        yield ["insert-fresh", i]
    for i in range(nh):
        yield ["insert-dup", i]
    for b in range(nbits, 8 * nflagbytes):
        yield ["padbit", b]
    yield ["root", 0]
    yield ["root", 255]
    yield ["extra-zero-flag-byte"]      # not listed by the property: recorded only
    for v in (0x01, 0x80, 0xff):
        yield ["extra-flag-byte", v]    # set bits after the last consumed one, in a further byte


def odd_levels(n):
    """levels (0 = leaves) of the merkle tree over n leaves that have an odd number (> 1) of nodes"""
    out, level, k = [], 0, n
    while k > 1:
        if k % 2:
            out.append(level)
        k = (k + 1) // 2
        level += 1
    return out


def forged_list(txids, level):
    """the longer transaction list with the same merkle root obtained by repeating the last node of an odd level"""
    n = len(txids)
    k = -(-n // (1 << level))              # nodes at that level
    m = n - (k - 1) * (1 << level)         # leaves under its last node
    def full(leaves, lv):
        # 2^lv leaves with the same subtree root as `leaves` under the duplicate-the-last rule
        if lv == 0:
            return list(leaves)
        half = 1 << (lv - 1)
        left, right = leaves[:half], leaves[half:]
        return full(left, lv - 1) + full(right or left, lv - 1)
    last = full(list(txids[n - m:]), level)
    out = list(txids[:n - m]) + last + last
    if refmerkle.merkle_root(out) != refmerkle.merkle_root(txids):
        raise ModelInvalid("forged list does not keep the root (n=%d level=%d)" % (n, level))
    return out


def classify_reject(e):
    s = "%s %s" % (type(e).__name__, e)
    for key, name in (("extra hashes", "extra-hashes"), ("not enough flags", "flag-bytes"), ("unconsumed 1 flag", "padding"),
                      ("does not match", "root-mismatch"), ("same left and right", "left-eq-right"), ("IndexError", "out-of-hashes")):
        if key in s:
            return name
    return type(e).__name__


class Proofs(Driver):
    id = "C14.proof"
    rule = ("one state = (n transactions, subset of matched ones, one corruption or none) parsed as a merkleblock message; "
            "every subset for every n <= N, every single-position corruption; non-trivial = tree with an odd level, or a corruption")

    def __init__(self, tier, seed):
        Driver.__init__(self, tier, seed)
        self.nmax = 11 if tier == "quick" else 15
        self.seed_label = "%d" % seed
        self.bound = dict(max_transactions=self.nmax, subsets="all 2^n", corruptions=[
            "each hash: bit 0 / bit 255 flipped", "each hash removed", "fresh hash inserted at each position", "each hash duplicated in place",
            "each padding bit set", "one more flag byte 0x01 / 0x80 / 0xff", "header merkle root bit 0 / 255 flipped",
            "repeated-last-node forgeries (every odd level, every match set for n'<=10, <=2 matches beyond)", "(recorded only) extra zero flag byte"], coin="BTC",
            large_blocks="honest proofs for n in %s with none / first / last / first+last / middle matched" % (list(self.BIG),))

    def txids(self, n):
        return [wire.sha256(("c14.proof|%s|%d|%d" % (self.seed_label, n, i)).encode()) for i in range(n)]

    BIG = (255, 256, 257, 16666, 16667, 65535, 65536, 100001)

    def units(self):
        for n in range(1, self.nmax + 1):
            for mask in range(1 << n):
                yield dict(n=n, mask=mask)
        # large blocks (honest proofs only): the transaction count is a plain 32-bit field, any size is a block
        for n in self.BIG:
            for matched in ([], [0], [n - 1], [0, n - 1], [n // 2]):
                yield dict(n=n, mask=0, matched=matched, big=True)

    def execute(self, unit):
        n, mask = unit["n"], unit["mask"]
        txids = self.txids(n)
        if unit.get("big"):
            case = dict(txids=None, n=n, mask=0, matched=unit["matched"], corrupt=["none"], big=True)
            yield case, self.run(case)
            return
        match = [(mask >> i) & 1 for i in range(n)]
        hashes, flags, nbits = refmerkle.build_proof(txids, match)
        base = dict(txids=[t.hex() for t in txids], mask=mask)
        case = dict(base, corrupt=["none"])
        yield case, self.run(case)
        if n <= 6:
            for coin in ("LTC", "BCH"):
                case = dict(base, corrupt=["none"], coin=coin)
                yield case, self.run(case)
        for c in proof_corruptions(len(hashes), nbits, len(flags)):
            case = dict(base, corrupt=c)
            yield case, self.run(case)
        if mask == 0:
            # forged proofs are enumerated once per n (they have their own match set)
            for level in odd_levels(n):
                n2 = len(forged_list(txids, level))
                masks = range(1 << n2) if n2 <= 10 else [m for m in range(1 << n2) if bin(m).count("1") <= 2]
                for m2 in masks:
                    case = dict(base, corrupt=["forged-dup", level, m2])
                    yield case, self.run(case)

    def run(self, case):
        txids = self.txids(int(case["n"])) if case.get("big") else [bytes.fromhex(t) for t in case["txids"]]
        n = len(txids)
        mask = int(case["mask"])
        match = [(mask >> i) & 1 for i in range(n)]
        if case.get("big"):
            match = [1 if i in set(case["matched"]) else 0 for i in range(n)]
        c = case["corrupt"]
        hashes, flags, nbits = refmerkle.build_proof(txids, match)
        root = refmerkle.merkle_root(txids)
        matched = [t for t, m in zip(txids, match) if m]
        if refmerkle.verify_proof(n, hashes, flags, root) != matched:
            raise ModelInvalid("honest proof not accepted by the reference verifier")
        hashes = list(hashes)
        flags = list(flags)
        hroot = root
        kind = c[0]
        if kind == "flip":
            h = bytearray(hashes[c[1]])
            h[c[2] // 8] ^= 1 << (c[2] % 8)
            hashes[c[1]] = bytes(h)
        elif kind == "remove":
            del hashes[c[1]]
        elif kind == "insert-fresh":
            hashes.insert(c[1], wire.sha256(b"c14.fresh" + bytes([c[1]])))
        elif kind == "insert-dup":
            hashes.insert(c[1], hashes[c[1]])
        elif kind == "padbit":
            flags[c[1] // 8] |= 1 << (c[1] % 8)
        elif kind == "root":
            h = bytearray(root)
            h[c[1] // 8] ^= 1 << (c[1] % 8)
            hroot = bytes(h)
        elif kind == "extra-zero-flag-byte":
            flags.append(0)
        elif kind == "extra-flag-byte":
            flags.append(c[1])
        elif kind == "forged-dup":
            # CVE-2012-2459 shape: the last node of an odd level repeated as if the block had more transactions; same root,
            # total_transactions inflated, hashes added.  Rejectable exactly when the proof computes both equal siblings.
            txids2 = forged_list(txids, c[1])
            n = len(txids2)
            hashes, flags, nbits = refmerkle.build_proof(txids2, [(c[2] >> i) & 1 for i in range(n)])
            hashes, flags = list(hashes), list(flags)
        elif kind != "none":
            raise ValueError(kind)
        H = {"version": 2, "prev": bytes(range(32)), "merkle": hroot, "time": 1400000000, "bits": 0x1b0404cb, "nonce": n}
        undetectable = False
        if kind != "none":
            try:
                refmerkle.verify_proof(n, hashes, flags, hroot)
                if kind != "forged-dup":
                    raise ModelInvalid("reference verifier accepts corruption %r of n=%d mask=%d" % (c, n, mask))
                undetectable = True       # the repeated node is supplied as one hash or not touched: nothing to detect
            except refmerkle.ProofError:
                pass
        fields = dict(header=H, total_transactions=n, hashes=hashes, flags=flags)
        data = wire.ser_message("merkleblock", fields)
        # the proof is checked on the coin named in the case; the networks are always created in the same order so that the
        # codec one network uses cannot depend on which networks exist (state shared between network objects)
        for code in ("BTC", "LTC", "BCH", "BTG"):
            try:
                network(code)
            except Exception:
                pass
        net = network(case.get("coin", "BTC"))
        odd = False
        w = n
        while w > 1:
            if w % 2:
                odd = True
            w = (w + 1) // 2
        shape = "odd" if odd else "pow2"
        nm = sum(match)
        mclass = "none" if nm == 0 else "all" if nm == n else "one" if nm == 1 else "some"
        try:
            d = net.message.parse("merkleblock", data)
            got = [bytes(h) for h in d["tx_hashes"]]
            if type(d["header"]) is not net.block:
                return BAD("wrong-header-class", "header parsed with this network's block class %s.%s" % (net.block.__module__, net.block.__name__),
                           "%s.%s" % (type(d["header"]).__module__, type(d["header"]).__name__), clause="proof-header-class")
        except Exception as e:
            if undetectable:
                return OK("info:forged-dup-undetectable:rejected")
            if kind == "none":
                return BAD("honest-rejected", "accepted, matched ids %s" % [m.hex()[:8] for m in matched], exc(e), clause="proof-accept")
            return OK("reject:%s:%s" % (kind, classify_reject(e)))
        if kind == "none":
            if got != matched:
                return BAD("honest-wrong-matches", "matched ids in order: %s" % [m.hex()[:8] for m in matched], "%s" % [g.hex()[:8] for g in got], clause="proof-matches")
            # also through the library's own packer (honest proof, real header object)
            try:
                hdr = build_header(net.block, H)
                data2 = net.message.pack("merkleblock", header=hdr, total_transactions=n, hashes=hashes, flags=flags)
                d2 = net.message.parse("merkleblock", data2)
                got2 = [bytes(h) for h in d2["tx_hashes"]]
            except Exception as e:
                return BAD("honest-rejected", "pack + parse of the honest proof works", exc(e), n=3, clause="proof-accept")
            if data2 != data or got2 != matched:
                return BAD("honest-pack-differs", "pack() = reference merkleblock payload", first_diff(data, data2), n=3, clause="proof-pack")
            return OK("accept:%s:matched-%s" % (shape, mclass), n=3)
        if kind == "extra-zero-flag-byte":
            return OK("info:extra-zero-flag-byte:accepted")
        if undetectable:
            return OK("info:forged-dup-undetectable:accepted")
        return BAD("corruption-accepted", "rejected (%s)" % kind, "accepted, tx_hashes=%s" % [g.hex()[:8] for g in got], clause="proof-reject", kind=kind)

    def nontrivial(self, cls):
        return cls != "accept:pow2:matched-none"


DRIVERS = [Headers, Blocks, MerkleRoots, Proofs]
ASSUMPTIONS = [
    "coin classes with the standard 80-byte header only (BTC, LTC, BCH); the Bitcoin Gold header (140 bytes + solution) and the Groestlcoin block hash (groestlcoin_hash library absent) are outside",
    "rejection of a block with a wrong merkle root means an exception from Block.parse / set_txs (BadMerkleRootError expected; another exception type is reported separately)",
    "flag-bit flips at proof leaves are not required to be rejected (BIP37 does not authenticate them) and are not generated; an extra all-zero flag byte is recorded only",
    "blocks with zero transactions are outside the quantifier (1..N)",
    "transaction ids inside proofs are distinct (an honest block has no repeated transaction id)",
]


def CONFIGURATIONS():
    return {"block_classes": {c: "%s.%s" % (network(c).block.__module__, network(c).block.__name__) for c in COINS}}
