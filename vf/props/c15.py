"""C15 - header-chain tracking under any arrival order (Mode S, stateless histories).

Every labelled acyclic parent function on N headers x weights x every delivery order x every
batching, with deviation-bounded extra events (lock_to_index, re-delivery).  Each history is run
from scratch on a fresh real BlockChain; after every event the reported chain, both lookups and
the op list are compared with a brute-force maximum-weight reference (vf.ref.chain)."""
import itertools

from ..engine import Driver, OK, BAD
from ..ref import chain as refchain

ANCHOR = 0
MISSING = (98, 99)


class H(object):
    __slots__ = ("h", "previous_block_hash", "difficulty")

    def __init__(self, h, p, w):
        self.h = h
        self.previous_block_hash = p
        self.difficulty = w

    def hash(self):
        return self.h

    def __repr__(self):
        return "H%r<-%r w%r" % (self.h, self.previous_block_hash, self.difficulty)


def parent_functions(n, nmissing):
    labels = list(range(1, n + 1))
    choices = [[ANCHOR] + list(MISSING[:nmissing]) + [l for l in labels if l != x] for x in labels]
    for parents in itertools.product(*choices):
        ok = True
        for x in labels:
            seen = set()
            y = x
            while 1 <= y <= n:
                if y in seen:
                    ok = False
                    break
                seen.add(y)
                y = parents[y - 1]
            if not ok:
                break
        if ok:
            yield parents


def batchings(n):
    """every delivery order x every cut into batches = every ordered set partition with every
    order inside each batch"""
    labels = list(range(1, n + 1))
    for perm in itertools.permutations(labels):
        for cuts in range(1 << (n - 1)):
            batches = []
            cur = [perm[0]]
            for i in range(1, n):
                if cuts >> (i - 1) & 1:
                    batches.append(cur)
                    cur = []
                cur.append(perm[i])
            batches.append(cur)
            yield batches


class Inapplicable(Exception):
    """lock index beyond the currently reported chain: not a history the property quantifies over"""


class Violation(Exception):
    def __init__(self, clause, ref, impl):
        self.clause, self.ref, self.impl = clause, ref, impl


class Runner(object):
    """executes one history on a real BlockChain, checking the invariants after every event"""

    def __init__(self, parents, weights, mkid=lambda x: x, preload=0):
        self.preload = preload
        from pycoin.blockchain.BlockChain import BlockChain
        self.BlockChain = BlockChain
        self.n = len(parents)
        self.mkid = mkid
        self.hdr = {l: H(mkid(l), mkid(parents[l - 1]), weights[l - 1]) for l in range(1, self.n + 1)}
        self.back = {mkid(l): l for l in list(range(0, self.n + 1)) + list(MISSING) + [77]}

    def decoy(self):
        """another BlockChain in the same process sees the SAME header ids under a different anchor, delivered one at a time
        as a line (every delivery extends the tip), in two orders: whatever module- or class-level state that leaves behind
        must not influence the chains under test.  Run once per work unit and once per replayed case."""
        for order in (range(1, self.n + 1), range(self.n, 0, -1)):
            dec = self.BlockChain(parent_hash=self.mkid(77), unlocked_block_storage={})
            prev = 77
            for l in order:
                dec.add_headers([H(self.mkid(l), self.mkid(prev), 1)])
                prev = l
        return self

    def start(self):
        self.cb_ops = []
        self.callback = lambda bc, ops: self.cb_ops.append(list(ops))   # kept alive here (WeakSet)
        self.bc = self.BlockChain(parent_hash=self.mkid(ANCHOR), unlocked_block_storage={})
        self.bc.add_change_callback(self.callback)
        self.delivered = {}
        self.locked = []
        self.mirror = []
        self.flags = set()
        if self.preload:
            # a locked prefix restored through preload_locked_blocks (headers 1..k form a line from the anchor)
            pre = list(range(1, self.preload + 1))
            self.bc.preload_locked_blocks([self.hdr[l] for l in pre])
            self.locked = list(pre)
            self.mirror = list(pre)
            self.flags.add("preload")

    def reported(self):
        bc = self.bc
        return [self.back.get(bc.hash_for_index(i), "?") for i in range(bc.length())]

    def step(self, ev):
        bc = self.bc
        if ev[0] == "add":
            hs = [self.hdr[l] for l in ev[1]]
            ncb = len(self.cb_ops)
            ops = bc.add_headers(hs)
            for l in ev[1]:
                if l in self.delivered or l <= self.preload:
                    self.flags.add("redelivery")
                if l <= self.preload:
                    continue            # already part of the locked chain: nothing to track
                par = self.hdr[l].previous_block_hash
                self.delivered[l] = (self.back[par], self.hdr[l].difficulty)
            for l in ev[1]:
                if any(p == l for k, (p, w) in self.delivered.items() if k not in ev[1]):
                    self.flags.add("orphan-join")
            if len(self.cb_ops) != ncb + 1 or [tuple(o) for o in self.cb_ops[-1]] != [tuple(o) for o in ops]:
                raise Violation("callback-ops", "callback receives the returned ops once",
                                "returned %r, callback got %r" % (ops, self.cb_ops[ncb:]))
            for op in ops:
                kind, blk, idx = op
                lab = self.back.get(blk.hash() if blk is not None else None, "?")
                if kind == "add":
                    if not (0 <= idx <= len(self.mirror)):
                        raise Violation("ops-apply", "add index <= len(list)=%d" % len(self.mirror), "ops=%r" % (ops,))
                    self.mirror.insert(idx, lab)
                elif kind == "remove":
                    self.flags.add("reorg")
                    if not (0 <= idx < len(self.mirror)) or self.mirror[idx] != lab:
                        raise Violation("ops-apply", "remove names the block at that index of %r" % (self.mirror,), "ops=%r" % (ops,))
                    del self.mirror[idx]
                else:
                    raise Violation("ops-apply", "op kind add/remove", repr(op))
        elif ev[0] == "lock":
            i = ev[1]
            before = self.reported()
            if i > len(before):
                raise Inapplicable()
            bc.lock_to_index(i)
            if i > len(self.locked):
                self.locked = before[:i]
            self.flags.add("lock")
            # the property speaks about the chain reported after each *delivery*: after a lock only the
            # locked prefix is checked here, everything else at the next delivery
            after = self.reported()
            if after[:len(self.locked)] != self.locked:
                raise Violation("lock-prefix", "locked prefix %r kept" % (self.locked,), "chain %r" % (after,))
            return
        self.check()

    def check(self):
        bc = self.bc
        chain = self.reported()
        anchor = self.locked[-1] if self.locked else ANCHOR
        best_w, best = refchain.best_chains(self.delivered, anchor)
        nl = len(self.locked)
        if chain[:nl] != self.locked or tuple(chain[nl:]) not in best:
            raise Violation("max-weight", "locked %r + one of %r (weight %d)" % (self.locked, sorted(best), best_w),
                            "chain %r" % (chain,))
        if self.mirror != chain:
            raise Violation("ops-reproduce", "ops applied to [] give the reported chain %r" % (chain,), "give %r" % (self.mirror,))
        if bc.locked_length() != nl or bc.unlocked_length() != len(chain) - nl:
            raise Violation("lengths", "locked %d unlocked %d" % (nl, len(chain) - nl),
                            "locked %d unlocked %d" % (bc.locked_length(), bc.unlocked_length()))
        last = bc.last_block_hash()
        if self.back.get(last, "?") != (chain[-1] if chain else ANCHOR):
            raise Violation("last-hash", repr(chain[-1] if chain else ANCHOR), repr(last))
        prev = ANCHOR
        for i, l in enumerate(chain):
            t = bc.tuple_for_index(i)
            exp = (self.mkid(l), self.mkid(prev), self.hdr[l].difficulty)
            if tuple(t) != exp:
                raise Violation("tuple", "tuple_for_index(%d)=%r" % (i, exp), repr(t))
            if self.back[self.hdr[l].previous_block_hash] != prev:
                raise Violation("links", "parent links consistent", "chain %r" % (chain,))
            if bc.index_for_hash(self.mkid(l)) != i:
                raise Violation("index-for-hash", "index_for_hash(%r)=%d" % (l, i), repr(bc.index_for_hash(self.mkid(l))))
            prev = l
        for l in self.delivered:
            if l not in chain and bc.index_for_hash(self.mkid(l)) is not None:
                raise Violation("stale-index", "index_for_hash(%r) is None (chain %r)" % (l, chain),
                                repr(bc.index_for_hash(self.mkid(l))))

    def run(self, events):
        self.start()
        k = -1
        try:
            for k, ev in enumerate(events):
                self.step(ev)
        except Inapplicable:
            return OK("trivial-inapplicable-lock", n=k)
        except Violation as v:
            return BAD(v.clause, v.ref, "after event %d %r: %s" % (k, events[k], v.impl), n=k + 1, clause=v.clause)
        except Exception as e:
            return BAD("exception", "no exception", "after event %d %r: EXC %s %s" % (k, events[k], type(e).__name__, e),
                       n=k + 1, clause="exception")
        return OK("+".join(sorted(self.flags)) or "plain", n=len(events))


def with_deviations(batches, maxlen, nlock, nredeliver):
    """insert <= nlock lock events and <= nredeliver re-deliveries at every position"""
    base = [["add", b] for b in batches]
    yield base
    if nlock >= 1:
        for pos in range(1, len(base) + 1):
            for i in range(1, maxlen + 1):
                h = base[:pos] + [["lock", i]] + base[pos:]
                yield h
                if nlock >= 2:
                    for pos2 in range(pos + 1, len(h) + 1):
                        for j in range(i + 1, maxlen + 1):
                            yield h[:pos2] + [["lock", j]] + h[pos2:]
                if nredeliver >= 1:
                    for pos2 in range(pos + 1, len(h) + 1):
                        done = sorted(set(x for e in h[:pos2] if e[0] == "add" for x in e[1]))
                        for x in done:
                            yield h[:pos2] + [["add", [x]]] + h[pos2:]
    if nredeliver >= 1:
        for pos in range(1, len(base) + 1):
            done = sorted(set(x for e in base[:pos] for x in e[1]))
            for x in done:
                yield base[:pos] + [["add", [x]]] + base[pos:]
            # a re-delivery inside a later batch
            if pos < len(base):
                for x in done:
                    yield base[:pos] + [["add", [x] + base[pos][1]]] + base[pos + 1:]


class Histories(Driver):
    id = "C15.histories"
    rule = ("state = delivery history on a fresh BlockChain; all labelled acyclic parent functions x weights x "
            "permutations x batchings, lock/re-delivery deviations; non-trivial = history with a re-organisation, "
            "an orphan joined later, a lock or a re-delivery")

    def __init__(self, tier, seed):
        Driver.__init__(self, tier, seed)
        if tier == "quick":
            # (N, number of distinct missing parents, weight alphabet, max locks, max re-deliveries)
            self.plan = [(1, 2, (1, 2), 2, 1), (2, 2, (1, 2), 2, 1), (3, 2, (1, 2), 2, 1), (4, 1, (1, 2), 0, 0),
                         (4, 1, (1,), 1, 1), (4, 1, (1, 2), 1, 0, "osp")]
        else:
            # about 0.33 G histories.  Earlier versions of this plan had 2.5 G (four hours) and 0.8 G histories (N = 6 with unit
            # weights, N = 5 with a lock over all permutations: more than two and a half hours) and were cut back
            self.plan = [(1, 2, (0, 1, 3), 2, 1), (2, 2, (0, 1, 3), 2, 1), (3, 2, (0, 1, 2, 3), 2, 1), (4, 1, (1, 2), 0, 0), (4, 1, (1,), 1, 1),
                         (4, 1, (1, 2), 2, 1, "osp"), (4, 2, (1,), 2, 1), (4, 1, (0, 1, 3), 1, 0), (5, 1, (1, 2), 0, 0, "osp"),
                         (5, 1, (1,), 1, 0, "osp")]
        self.bound = dict(plan=[dict(N=p[0], missing_roots=p[1], weights=list(p[2]), max_locks=p[3], max_redeliveries=p[4],
                                     batchings="ordered set partitions" if len(p) > 5 else "all permutations x all cuts")
                                for p in self.plan])

    def units(self):
        for pi, pl in enumerate(self.plan):
            n, nm, walph = pl[:3]
            for parents in parent_functions(n, nm):
                for ws in itertools.product(walph, repeat=n):
                    yield dict(plan=pi, parents=list(parents), weights=list(ws))

    def execute(self, unit):
        n, nm, walph, nl, nr = self.plan[unit["plan"]][:5]
        osp = len(self.plan[unit["plan"]]) > 5
        r = Runner(unit["parents"], unit["weights"]).decoy()
        # decoy: a second BlockChain alive in this process, fed a fixed history; must stay unaffected
        decoy = Runner([ANCHOR] + list(range(1, n)), [1] * n)
        decoy.start()
        decoy.step(["add", list(range(1, n + 1))])
        for batches in batchings(n):
            if osp and any(b != sorted(b) for b in batches):
                continue    # ordered set partitions only (ascending order inside a batch)
            for events in with_deviations(batches, n, nl, nr):
                out = r.run(events)
                yield dict(parents=unit["parents"], weights=unit["weights"], events=events), out
        try:
            decoy.check()
        except Violation as v:
            yield dict(parents=unit["parents"], weights=unit["weights"], events="decoy"), BAD("decoy", v.ref, v.impl, clause="decoy")

    def run(self, case):
        if case.get("ids") == "bytes":
            return Runner(case["parents"], case["weights"], mkid=byte_id_f(case.get("salt", 0))).decoy().run(case["events"])
        return Runner(case["parents"], case["weights"]).decoy().run(case["events"])

    def nontrivial(self, cls):
        return cls != "plain"

    def selfcheck(self):
        return refchain.selfcheck()


class Preload(Driver):
    """a locked prefix that was restored with preload_locked_blocks, then deliveries (incl. re-delivery of preloaded headers)"""
    id = "C15.preload"
    rule = ("headers 1..k (k = 1, 2) form a line from the anchor and are restored with preload_locked_blocks; the other <= 2 (3) headers "
            "have every parent among {new anchor, a preloaded header below it, the old anchor, a missing block, another header}, "
            "weights {1,2}; every delivery order and batching with <= 1 re-delivery of ANY header, preloaded ones included; "
            "same invariants as C15.histories")

    def __init__(self, tier, seed):
        Driver.__init__(self, tier, seed)
        self.rest = 2 if tier == "quick" else 3
        self.bound = dict(preloaded=[1, 2], other_headers=self.rest, weights=[1, 2], max_redeliveries=1)

    def units(self):
        for k in (1, 2):
            for r in range(1, self.rest + 1):
                rest = list(range(k + 1, k + r + 1))
                choices = [[k] + list(range(0, k)) + [MISSING[1]] + [x for x in rest if x != l] for l in rest]
                for par in itertools.product(*choices):
                    parents = [ANCHOR] + list(range(1, k)) + list(par)
                    ok = True
                    for x in rest:
                        seen, y = set(), x
                        while y in rest:
                            if y in seen:
                                ok = False
                                break
                            seen.add(y)
                            y = parents[y - 1]
                    if not ok:
                        continue
                    for ws in itertools.product((1, 2), repeat=r):
                        yield dict(k=k, parents=parents, weights=[1] * k + list(ws))

    def histories(self, k, n):
        rest = list(range(k + 1, n + 1))
        for perm in itertools.permutations(rest):
            for cuts in range(1 << (len(rest) - 1)):
                batches, cur = [], [perm[0]]
                for i in range(1, len(rest)):
                    if cuts >> (i - 1) & 1:
                        batches.append(cur)
                        cur = []
                    cur.append(perm[i])
                batches.append(cur)
                base = [["add", b] for b in batches]
                yield base
                for pos in range(0, len(base) + 1):
                    done = sorted(set(range(1, k + 1)) | set(x for e in base[:pos] for x in e[1]))
                    for x in done:
                        yield base[:pos] + [["add", [x]]] + base[pos:]
                        if pos < len(base):
                            yield base[:pos] + [["add", [x] + base[pos][1]]] + base[pos + 1:]

    def execute(self, unit):
        k, n = unit["k"], len(unit["parents"])
        r = Runner(unit["parents"], unit["weights"], preload=k).decoy()
        for events in self.histories(k, n):
            yield dict(parents=unit["parents"], weights=unit["weights"], events=events, preload=k), r.run(events)

    def run(self, case):
        return Runner(case["parents"], case["weights"], preload=case["preload"]).decoy().run(case["events"])

    def nontrivial(self, cls):
        return cls != "preload"


def byte_id(l, salt=0):
    import hashlib
    return hashlib.sha256(b"hdr%d" % l if not salt else b"hdr%d|%d" % (l, salt)).digest()


def byte_id_f(salt):
    return lambda l: byte_id(l, salt)


class ByteIds(Histories):
    """same exploration with 32-byte ids, so that set order follows the hash of bytes instead of label order"""
    id = "C15.byteids"
    rule = "as C15.histories with 32-byte header ids (set iteration order decorrelated from labels)"

    def __init__(self, tier, seed):
        Histories.__init__(self, tier, seed)
        self.plan = [(3, 1, (1, 2), 1, 1)] if tier == "quick" else [(3, 2, (1, 2), 2, 1), (4, 1, (1, 2), 1, 0), (4, 1, (1,), 1, 1)]
        self.bound = dict(plan=[dict(N=p[0], missing_roots=p[1], weights=list(p[2]), max_locks=p[3], max_redeliveries=p[4])
                                for p in self.plan])

    def execute(self, unit):
        n, nm, walph, nl, nr = self.plan[unit["plan"]][:5]
        # different salts give different byte ids, hence different set iteration orders inside ChainFinder
        for salt in ((0, 1, 2) if self.tier == "quick" else (0, 1, 2, 3, 4, 5)):
            r = Runner(unit["parents"], unit["weights"], mkid=byte_id_f(salt)).decoy()
            for batches in batchings(n):
                for events in with_deviations(batches, n, nl, nr):
                    yield dict(parents=unit["parents"], weights=unit["weights"], events=events, ids="bytes", salt=salt), r.run(events)


DRIVERS = [Histories, ByteIds, Preload]
ASSUMPTIONS = ["headers are opaque objects with hash()/previous_block_hash/difficulty, as BlockChain uses them",
               "weights from the stated small alphabets; histories with more headers than the bound are not covered"]
