"""C16 - peer-to-peer messages round-trip through pack and parse for every message type (Mode I).

For every message name the library defines (the layout table is cross-checked against vf.ref.wire.MESSAGES, so a
name the library adds or a field it renames shows up as a disagreement) and every combination of field values from
per-type boundary alphabets (full product when it is <= LIMIT combinations, else all combinations with <= k fields
off their base value), in two directions:

    pack    network.message.pack(name, **fields) == reference payload bytes
    parse   network.message.parse(name, reference payload bytes) == the field values (absent stays absent, False stays False)

Both together give pack-then-parse = identity; keeping them apart lets a broken packer not hide a broken parser.
On a disagreement the responsible field is found by replacing one field at a time by its base value.
"""
import itertools

from ..engine import Driver, OK, BAD, ModelInvalid, seed_bytes
from ..ref import wire
from ..ref import merkle as refmerkle
from .c07 import network, ref_tx, build_tx, tx_fields, simple_tx_desc, short, exc, first_diff, mkbytes, witness_items
from .c14 import ref_header, build_header, header_fields, tx_desc_of_kind

U32 = 2 ** 32 - 1
ASYM = bytes(range(0x20, 0x40)).hex()

# ---------------------------------------------------------------- descriptors -> reference values


def tx_from_alpha(d):
    k = d["kind"]
    s = int(d.get("salt", 0))
    if k in ("legacy", "witness", "wide", "big", "coinbase"):
        return ref_tx(tx_desc_of_kind(k, s))
    if k == "noout":
        return ref_tx(simple_tx_desc(1, 0, (), salt=s))
    if k == "out253":
        return ref_tx(simple_tx_desc(1, 253, (), salt=s))
    if k == "in253":
        return ref_tx(simple_tx_desc(253, 1, ("x",), salt=s))
    if k == "heavy":
        return ref_tx(simple_tx_desc(3, 2, ("i65536", "n253", "ee"), salt=s, version=U32, lock_time=U32))
    raise ValueError(k)


def block_from_alpha(d):
    txs = [ref_tx(tx_desc_of_kind(k, i)) for i, k in enumerate(d["kinds"])]
    root = refmerkle.merkle_root([wire.txid_bytes(t) for t in txs])
    return {"header": ref_header(dict(d["header"], merkle=root.hex())), "txs": txs}


def mk(kind, d):
    """JSON descriptor -> reference value of that kind"""
    if kind in ("u8", "u32", "u48", "u64", "varint"):
        return int(d)
    if kind == "bool":
        return bool(d)
    if kind == "optbool":
        return None if d is None else bool(d)
    if kind == "bytes":
        if isinstance(d, dict):
            return wire.ser_alert_payload(alert_from_desc(d["alert"]))
        return mkbytes(d)
    if kind == "hash":
        return mkbytes(d)
    if kind == "netaddr":
        return {"services": int(d["services"]), "ip": mkbytes(d["ip"]), "port": int(d["port"])}
    if kind == "inv":
        return {"type": int(d["type"]), "hash": mkbytes(d["hash"])}
    if kind == "tx":
        r = tx_from_alpha(d)
        if d.get("carries_unspents"):
            r = dict(r, carries_unspents=True)       # the Tx object handed to pack() has its spent outputs attached (as after create_tx)
        return r
    if kind == "block":
        return block_from_alpha(d)
    if kind == "header":
        r = ref_header(d)
        if d.get("carries_txs"):
            r["carries_txs"] = True       # the header is handed to pack() as a Block object that still holds a transaction
        return r
    if isinstance(kind, (tuple, list)) and kind[0] == "array":
        ek = kind[1]
        if isinstance(d, dict) and "repeat" in d:       # {"repeat": [elements...], "n": N} = N elements cycling through the list
            d = [d["repeat"][i % len(d["repeat"])] for i in range(int(d["n"]))]
        if isinstance(ek, (tuple, list)):
            return [tuple(mk(k, x) for k, x in zip(ek, e)) for e in d]
        return [mk(ek, e) for e in d]
    raise ValueError("kind %r" % (kind,))


def alert_from_desc(a):
    return {"version": int(a["version"]), "relayUntil": int(a["relayUntil"]), "expiration": int(a["expiration"]), "id": int(a["id"]),
            "cancel": int(a["cancel"]), "setCancel": [int(x) for x in a["setCancel"]], "minVer": int(a["minVer"]), "maxVer": int(a["maxVer"]),
            "setSubVer": [mkbytes(x) for x in a["setSubVer"]], "priority": int(a["priority"]), "comment": mkbytes(a["comment"]),
            "statusBar": mkbytes(a["statusBar"]), "reserved": mkbytes(a["reserved"])}


# ---------------------------------------------------------------- reference values <-> pycoin objects

def to_py(kind, v, net):
    """reference value -> what the library's pack() expects (constructors are library code)"""
    if kind == "netaddr":
        from pycoin.message.PeerAddress import PeerAddress
        return PeerAddress(v["services"], v["ip"], v["port"])
    if kind == "inv":
        from pycoin.message.InvItem import InvItem
        return InvItem(v["type"], v["hash"], dont_check=True)
    if kind == "tx":
        t = build_tx(net.tx, v)
        if v.get("carries_unspents"):
            t.set_unspents([net.tx.TxOut(1000 + i, b"\x51\x52") for i in range(len(t.txs_in))])
        return t
    if kind == "header":
        b = build_header(net.block, v["header"] if "header" in v else v)
        if v.get("carries_txs"):
            b.txs = [build_tx(net.tx, tx_from_alpha({"kind": "legacy", "salt": 0}))]      # e.g. a stored block used to answer getheaders
        return b
    if kind == "block":
        b = build_header(net.block, v["header"])
        b.set_txs([build_tx(net.tx, t) for t in v["txs"]])
        return b
    if isinstance(kind, (tuple, list)) and kind[0] == "array":
        ek = kind[1]
        if isinstance(ek, (tuple, list)):
            return [tuple(to_py(k, x, net) for k, x in zip(ek, e)) for e in v]
        return [to_py(ek, e, net) for e in v]
    return v


def from_py(kind, p, net=None):
    """observe a parsed value in reference form (anything unexpected becomes a marker that compares unequal)"""
    try:
        if net is not None and kind == "tx" and type(p) is not net.tx:
            return ("wrong-class", "%s.%s instead of this network's transaction class" % (type(p).__module__, type(p).__name__))
        if net is not None and kind in ("header", "block") and type(p) is not net.block:
            return ("wrong-class", "%s.%s instead of this network's block class" % (type(p).__module__, type(p).__name__))
        if kind in ("u8", "u32", "u48", "u64", "varint"):
            return p if isinstance(p, int) and not isinstance(p, bool) else ("not-an-int", repr(p))
        if kind == "bool":
            return bool(p) if isinstance(p, (bool, int)) else ("not-a-bool", repr(p))
        if kind == "optbool":
            if p is None:
                return None
            return bool(p) if isinstance(p, (bool, int)) else ("not-a-bool", repr(p))
        if kind in ("bytes", "hash"):
            return bytes(p) if isinstance(p, (bytes, bytearray)) else ("not-bytes", repr(p))
        if kind == "netaddr":
            return {"services": p.services, "ip": bytes(p.ip_bin), "port": p.port}
        if kind == "inv":
            return {"type": p.item_type, "hash": bytes(p.data)}
        if kind == "tx":
            return tx_fields(p)
        if kind == "header":
            return header_fields(p)
        if kind == "block":
            return {"header": header_fields(p), "txs": [tx_fields(t) for t in p.txs]}
        if isinstance(kind, (tuple, list)) and kind[0] == "array":
            ek = kind[1]
            if isinstance(ek, (tuple, list)):
                return [tuple(from_py(k, x, net) for k, x in zip(ek, e)) if len(e) == len(ek) else ("arity", len(e)) for e in p]
            return [from_py(ek, e, net) for e in p]
    except Exception as e:
        return ("unobservable", exc(e))
    return ("unknown-kind", repr(kind))


def norm_ref(kind, v):
    """reference value in the canonical observed form (IPv4 -> mapped 16 bytes; block/header dicts)"""
    if kind == "netaddr":
        return {"services": v["services"], "ip": wire.ip16(v["ip"]), "port": v["port"]}
    if kind == "header":
        return {k: x for k, x in v.items() if k != "carries_txs"}
    if kind == "tx":
        return {k: x for k, x in v.items() if k != "carries_unspents"}
    if isinstance(kind, (tuple, list)) and kind[0] == "array":
        ek = kind[1]
        if isinstance(ek, (tuple, list)):
            return [tuple(norm_ref(k, x) for k, x in zip(ek, e)) for e in v]
        return [norm_ref(ek, e) for e in v]
    return v


def kind_label(kind):
    if isinstance(kind, (tuple, list)) and kind[0] == "array":
        ek = kind[1]
        return "[%s]" % (",".join(ek) if isinstance(ek, (tuple, list)) else ek)
    return kind


def describe(v):
    s = repr(v)
    return s if len(s) <= 160 else s[:150] + "...(%d chars)" % len(s)


# ---------------------------------------------------------------- alphabets

def arrays(elems, allpairs_limit=20, long_n=253, extra_long=None):
    out = [[]]
    out += [[e] for e in elems]
    if len(elems) <= allpairs_limit:
        out += [[a, b] for a in elems for b in elems]
    else:
        out += [[elems[i], elems[(i + 1) % len(elems)]] for i in range(len(elems))]
    out.append({"repeat": elems, "n": long_n})
    if extra_long:
        out.append({"repeat": elems, "n": extra_long})
    return out


def alphabets(tier, seed):
    big = tier == "thorough"
    S = ASYM if seed == 0 else seed_bytes(seed, "c16.hash", 32).hex()
    A = {}
    A["u32"] = [0, 1, 2 ** 31, U32]
    A["u64"] = [0, 1, 2 ** 63, 2 ** 64 - 1]
    A["varint"] = [0, 1, 252, 253, 65535, 65536, 2 ** 32] + ([U32, 2 ** 64 - 1] if big else [])
    A["u48"] = [0, 1, U32, 2 ** 32, 2 ** 48 - 1] + ([0x010203040506] if big else [])
    A["u8"] = [0, 1, 255]
    A["bool"] = [False, True]
    A["optbool"] = [None, True, False]
    A["bytes"] = ["", "61", [252, 1], [253, 1], [65536, 1]] + ([[65535, 1], "00", "c3a9"] if big else [])
    A["hash"] = ["00" * 32, "ff" * 32, ASYM, S] if S != ASYM else ["00" * 32, "ff" * 32, ASYM, ASYM[::-1]]
    ips = ["01020304", "00000000000000000000ffff01020304", "20010db8000000000000000000000001", "00" * 16]
    if big:
        ips += ["ff" * 16, "7f000001"]
    A["netaddr"] = [{"services": s, "ip": ip, "port": p} for s in (1, 0, 2 ** 64 - 1) for ip in ips for p in (8333, 0, 1, 255, 256, 65535)]
    types = [1, 2, 3, 4, 1 | 1 << 30, 2 | 1 << 30, 0, U32]
    A["inv"] = [{"type": t, "hash": h} for t in types for h in (ASYM, "00" * 32)]
    A["tx"] = [{"kind": "legacy", "salt": 0}, {"kind": "witness", "salt": 1}, {"kind": "wide", "salt": 2}, {"kind": "big", "salt": 3},
               {"kind": "coinbase", "salt": 4}, {"kind": "witness", "salt": 1, "carries_unspents": True}]
    A["tx-more"] = A["tx"] + [{"kind": "witness", "salt": 2}, {"kind": "noout", "salt": 4}, {"kind": "out253", "salt": 5},
                              {"kind": "in253", "salt": 6}, {"kind": "heavy", "salt": 7}, {"kind": "legacy", "salt": 255}]
    hdr = [dict(version=1, prev=ASYM, merkle=S if S != ASYM else ASYM[::-1], time=1231006505, bits=0x1d00ffff, nonce=2083236893),
           dict(version=0, prev="00" * 32, merkle="00" * 32, time=0, bits=0, nonce=0),
           dict(version=U32, prev="ff" * 32, merkle="ff" * 32, time=U32, bits=U32, nonce=U32),
           dict(version=2 ** 31, prev="00" * 31 + "01", merkle="80" + "00" * 31, time=1, bits=2 ** 31, nonce=1)]
    A["header"] = hdr + [dict(hdr[0], carries_txs=True)]
    bh = dict(version=0x20000000, prev=ASYM, time=1500000000, bits=0x18000000, nonce=7)
    lay = [["legacy"], ["witness"], ["big"], ["legacy", "legacy"], ["legacy", "witness"], ["witness", "wide"], ["legacy", "legacy", "legacy"],
           ["witness", "legacy", "big"], ["legacy", "wide", "witness", "legacy", "legacy"], ["coinbase"], ["coinbase", "witness", "legacy"]]
    A["block"] = [{"header": bh, "kinds": k} for k in lay]
    return A


def field_alphabet(A, msg, fname, kind):
    if msg == "tx":
        return A["tx-more"]
    if msg == "alert" and fname == "payload":
        a0 = dict(version=1, relayUntil=1329620535, expiration=1329792435, id=1010, cancel=1009, setCancel=[], minVer=10000, maxVer=61000,
                  setSubVer=[], priority=100, comment="", statusBar="5365652062697463", reserved="")
        a1 = dict(a0, setCancel=[0, 1, U32], setSubVer=["2f5361746f7368693a302e372e322f", ""], comment="61", reserved=[253, 3])
        a2 = dict(version=U32, relayUntil=2 ** 64 - 1, expiration=2 ** 63, id=U32, cancel=0, setCancel=[7] * 253, minVer=0, maxVer=U32,
                  setSubVer=[[1, k] for k in range(253)], priority=U32, comment=[65536, 2], statusBar=[252, 1], reserved="")
        return [{"alert": a0}, {"alert": a1}, {"alert": a2}, "", "00", [70, 9]]
    if isinstance(kind, tuple) and kind[0] == "array":
        ek = kind[1]
        if isinstance(ek, tuple):
            elems = [list(c) for c in itertools.product(*[A[k] for k in ek])]
            return arrays(elems)
        if ek == "u8":
            return arrays(A["u8"], extra_long=65536)
        return arrays(A[ek])
    return A[kind]


EXTRA_KEYS = {"merkleblock": ["tx_hashes"], "alert": ["alert_info"]}
COIN_MESSAGES = {"BTC": None, "LTC": ("tx", "block", "headers", "cmpctblock", "blocktxn", "merkleblock", "version"),
                 "BCH": ("tx", "block", "headers", "cmpctblock", "blocktxn", "merkleblock", "version")}


def library_table():
    from pycoin.message.make_parser_and_packer import standard_messages
    return standard_messages()


class Messages(Driver):
    id = "C16.msg"
    rule = ("one state = (message name, one value per declared field, direction pack|parse) on one network; every message name "
            "the library defines; full product of the per-type alphabets when small, else <= k fields off base; "
            "non-trivial = message with at least one field")

    def __init__(self, tier, seed):
        Driver.__init__(self, tier, seed)
        self.k = 2 if tier == "quick" else 3
        self.limit = 50000 if tier == "quick" else 200000
        self.A = alphabets(tier, seed)
        self.nproof = 9 if tier == "quick" else 11
        self.seed_label = "%d" % seed
        self.plans = {}
        for msg, layout in wire.MESSAGES.items():
            alphs = [field_alphabet(self.A, msg, fname, kind) for fname, kind in layout]
            size = 1
            for a in alphs:
                size *= len(a)
            self.plans[msg] = (alphs, size)
        self.bound = dict(deviation_when_large=self.k, full_product_limit=self.limit, merkleblock_max_transactions=self.nproof,
                          messages={m: dict(fields=[f for f, k in wire.MESSAGES[m]], product=size,
                                            mode="merkleblock: every subset for n<=%d" % self.nproof if m == "merkleblock" else
                                            ("full" if size <= self.limit else "deviation<=%d" % self.k))
                                    for m, (alphs, size) in self.plans.items()},
                          networks={c: (["all messages"] if v is None else list(v) + ["(deviation<=1)"]) for c, v in COIN_MESSAGES.items()})

    # ---- enumeration
    def units(self):
        yield dict(coin="BTC", msg="*layout*", first=0)
        for coin, only in COIN_MESSAGES.items():
            for msg in wire.MESSAGES:
                if only is not None and msg not in only:
                    continue
                if msg == "merkleblock":
                    for n in range(1, self.nproof + 1):
                        yield dict(coin=coin, msg=msg, first=n)
                    continue
                alphs, size = self.plans[msg]
                if not alphs:
                    yield dict(coin=coin, msg=msg, first=0)
                    continue
                for i in range(len(alphs[0])):
                    yield dict(coin=coin, msg=msg, first=i)

    def combos(self, coin, msg, first):
        alphs, size = self.plans[msg]
        names = [f for f, k in wire.MESSAGES[msg]]
        if not alphs:
            yield {}
            return
        k = None if size <= self.limit else self.k
        if coin != "BTC":
            k = 1
        rest = alphs[1:]
        if k is None:
            for vals in itertools.product(*rest):
                yield dict(zip(names, (alphs[0][first],) + vals))
            return
        budget = k - (1 if first else 0)
        if budget < 0:
            return
        for r in range(0, budget + 1):
            for subset in itertools.combinations(range(len(rest)), r):
                for vals in itertools.product(*[rest[i][1:] for i in subset]):
                    cur = [a[0] for a in rest]
                    for i, v in zip(subset, vals):
                        cur[i] = v
                    yield dict(zip(names, [alphs[0][first]] + cur))

    def execute(self, unit):
        coin, msg = unit["coin"], unit["msg"]
        if msg == "*layout*":
            for name in sorted(set(library_table()) | set(wire.MESSAGES)):
                case = dict(coin=coin, msg="*layout*", name=name)
                yield case, self.run(case)
            return
        if msg == "merkleblock":
            n = unit["first"]
            txids = [wire.sha256(("c16.proof|%s|%d|%d" % (self.seed_label, n, i)).encode()) for i in range(n)]
            root = refmerkle.merkle_root(txids)
            for mask in range(1 << n):
                hashes, flags, nbits = refmerkle.build_proof(txids, [(mask >> i) & 1 for i in range(n)])
                fields = dict(header=dict(version=2, prev=ASYM, merkle=root.hex(), time=1400000000 + n, bits=0x1b0404cb, nonce=mask),
                              total_transactions=n, hashes=[h.hex() for h in hashes], flags=flags)
                for direction in ("pack", "parse"):
                    case = dict(coin=coin, msg=msg, dir=direction, fields=fields,
                                expect_tx_hashes=[t.hex() for i, t in enumerate(txids) if (mask >> i) & 1])
                    yield case, self.run(case)
            return
        for fields in self.combos(coin, msg, unit["first"]):
            for direction in ("pack", "parse"):
                case = dict(coin=coin, msg=msg, dir=direction, fields=fields)
                yield case, self.run(case)
            if msg == "version" and fields.get("relay") is None:
                case = dict(coin=coin, msg=msg, dir="pack-omitted", fields=fields)
                yield case, self.run(case)

    # ---- one case
    def run(self, case):
        msg = case["msg"]
        # the networks are always created in the same order, whichever case runs first in a process: what one network's
        # message codec does must not depend on which other networks exist (state shared between network objects)
        for code in ("BTC", "LTC", "BCH", "BTG"):
            try:
                network(code)
            except Exception:
                pass
        net = network(case["coin"])
        if msg == "*layout*":
            return self.run_layout(case["name"])
        layout = wire.MESSAGES[msg]
        kinds = dict(layout)
        R = {f: mk(k, case["fields"][f]) for f, k in layout}
        ref = wire.ser_message(msg, R)
        direction = case["dir"]
        label = msg
        unstructured_alert = msg == "alert" and not isinstance(case["fields"]["payload"], dict)

        def pack_of(Rv):
            py = {f: to_py(kinds[f], v, net) for f, v in Rv.items()}
            return bytes(net.message.pack(msg, **py))

        def parse_of(Rv):
            d = net.message.parse(msg, wire.ser_message(msg, Rv))
            bad = []
            for f, k in layout:
                if f not in d:
                    bad.append((f, "missing", None))
                    continue
                got = from_py(k, d[f], net)
                want = norm_ref(k, Rv[f])
                if got != want or (k == "optbool" and (got is None) != (want is None)):
                    bad.append((f, describe(want), describe(got)))
            for key in d:
                if key not in kinds and key not in EXTRA_KEYS.get(msg, []):
                    bad.append((key, "no such field", describe(d[key])))
            return d, bad

        def base_fields():
            alphs, size = self.plans[msg]
            return {f: mk(k, a[0]) for (f, k), a in zip(layout, alphs)}

        def blame(fails):
            """fields whose replacement by the base value (alone) makes the failure disappear"""
            if msg == "merkleblock":
                return []
            base = base_fields()
            out = []
            for f, k in layout:
                if R[f] == base[f]:
                    continue
                trial = dict(R)
                trial[f] = base[f]
                try:
                    if not fails(trial):
                        out.append(f)
                except Exception:
                    pass
            return out

        if direction == "pack-omitted":
            # optional field not passed at all: the property does not say how absence is spelled in the API; record only
            py = {f: to_py(kinds[f], v, net) for f, v in R.items() if f != "relay"}
            try:
                got = bytes(net.message.pack(msg, **py))
                return OK("info:version-relay-kwarg-omitted:" + ("same-bytes" if got == ref else "other-bytes"))
            except Exception as e:
                return OK("info:version-relay-kwarg-omitted:" + type(e).__name__)

        if direction == "pack":
            def fails(Rv):
                try:
                    return pack_of(Rv) != wire.ser_message(msg, Rv)
                except Exception:
                    return True
            try:
                got = pack_of(R)
            except Exception as e:
                culprits = blame(fails)
                ck = kind_label(kinds[culprits[0]]) if len(culprits) == 1 else "several" if culprits else "unknown"
                return BAD("pack-raises", "pack() = %s" % short(ref), exc(e), clause="codec:" + ck, kind="pack", field=culprits)
            if got != ref:
                culprits = blame(fails)
                ck = kind_label(kinds[culprits[0]]) if len(culprits) == 1 else "several" if culprits else "unknown"
                return BAD("pack-differs", "pack() = %s" % short(ref), "%s; %s" % (short(got), first_diff(ref, got)),
                           clause="codec:" + ck, kind="pack", field=culprits)
            # keyword arguments in another textual order (reversed, sorted by name): the wire order is the layout's
            py = {f: to_py(kinds[f], v, net) for f, v in R.items()}
            for oname, keys in (("reversed", list(reversed(list(py)))), ("sorted", sorted(py))):
                if keys == list(py):
                    continue
                try:
                    got2 = bytes(net.message.pack(msg, **{k: py[k] for k in keys}))
                except Exception as e:
                    return BAD("pack-raises", "pack() with keyword arguments in %s order = %s" % (oname, short(ref)), exc(e), clause="codec:kwargs-order", kind="pack")
                if got2 != ref:
                    return BAD("pack-differs", "pack() with keyword arguments in %s order = %s" % (oname, short(ref)),
                               "%s; %s" % (short(got2), first_diff(ref, got2)), clause="codec:kwargs-order", kind="pack")
            return OK("pack:" + label + (":empty" if not layout else ""))

        # parse
        def fails_p(Rv):
            try:
                return bool(parse_of(Rv)[1])
            except Exception:
                return True
        try:
            d, bad = parse_of(R)
        except Exception as e:
            if unstructured_alert:
                # an alert whose payload is not the alert structure: what the post-processing does is not part of the property
                return OK("info:alert-unstructured-payload:" + type(e).__name__)
            culprits = blame(fails_p)
            ck = kind_label(kinds[culprits[0]]) if len(culprits) == 1 else "several" if culprits else "unknown"
            return BAD("parse-raises", "parse(%s) = the fields" % short(ref), exc(e), clause="codec:" + ck, kind="parse", field=culprits)
        if bad:
            f0 = bad[0][0]
            ck = kind_label(kinds[f0]) if f0 in kinds else "extra-key"
            tags = dict(clause="codec:" + ck, kind="parse", field=[b[0] for b in bad])
            if ck == "optbool":
                tags["g_value"] = "absent" if R[f0] is None else repr(R[f0])
            return BAD("parse-differs", "%s = %s" % (f0, bad[0][1]), "%s = %s" % (f0, bad[0][2]), **tags)
        if msg == "merkleblock":
            want = [bytes.fromhex(h) for h in case["expect_tx_hashes"]]
            got = [bytes(h) for h in d.get("tx_hashes", ())]
            if got != want:
                return BAD("parse-differs", "tx_hashes = matched ids", describe(got), clause="merkleblock-matches", kind="parse")
        if unstructured_alert:
            return OK("info:alert-unstructured-payload:parsed")
        # the caller edits the dictionary it was handed, then the same bytes arrive again (Mode S, depth 2): the second
        # parse must still return exactly the fields on the wire
        for v in list(d.values()):
            if isinstance(v, list):
                v.append("caller-edit")
        d.clear()
        d["caller-note"] = 1
        try:
            d2, bad2 = parse_of(R)
        except Exception as e:
            return BAD("parse-history", "second parse of the same bytes = the fields", exc(e), clause="aliasing:parse-result-shared", kind="parse")
        if bad2 or d2 is d:
            return BAD("parse-history", "second parse of the same bytes = the fields (a fresh object)",
                       "same object returned again" if d2 is d else "%s = %s" % (bad2[0][0], bad2[0][2]),
                       clause="aliasing:parse-result-shared", kind="parse")
        return OK("parse:" + label + (":empty" if not layout else ""))

    def run_layout(self, name):
        lib = library_table()
        if name not in lib:
            return BAD("layout", "message %r is defined (reference table has it)" % name, "not defined by the library", clause="layout", kind=name)
        if name not in wire.MESSAGES:
            return BAD("layout", "every message the library defines is covered", "%r = %r is not in the reference table" % (name, lib[name]),
                       clause="layout-uncovered", kind=name)
        fields = [s.split(":")[0] for s in lib[name].split()]
        mine = [f for f, k in wire.MESSAGES[name]]
        if fields != mine:
            return BAD("layout", "fields %r" % mine, "fields %r" % fields, clause="layout", kind=name)
        return OK("layout:" + ("empty" if not mine else "fields"))

    def nontrivial(self, cls):
        return not cls.endswith(":empty") and not cls.startswith("layout")

    def selfcheck(self):
        try:
            n = wire.selfcheck() + refmerkle.selfcheck()
        except ModelInvalid:
            raise
        except Exception as e:
            raise ModelInvalid("reference model: %s: %s" % (type(e).__name__, e))
        # hand-computed payloads (protocol documentation layouts)
        checks = [
            ("ping", dict(nonce=0x0102030405060708), "0807060504030201"),
            ("sendcmpct", dict(enabled=True, version=1), "010100000000000000"),
            ("feefilter", dict(fee_filter_value=48508), "7cbd000000000000"),
            ("inv", dict(items=[{"type": 1, "hash": bytes(range(32))}]), "01" + "01000000" + bytes(range(32)).hex()),
            ("getblocktxn", dict(header_hash=bytes(32), indices=[0, 253]), "00" * 32 + "02" + "00" + "fdfd00"),
            ("cmpctblock", dict(header_hash=bytes(32), nonce=1, short_ids=[0x060504030201], prefilled_txs=[]), "00" * 32 + "0100000000000000" + "01" + "010203040506" + "00"),
            ("filterload", dict(filter=[0xb5, 0x0f], hash_function_count=11, tweak=0, flags=False), "02b50f" + "0b000000" + "00000000" + "00"),
            ("addr", dict(date_address_tuples=[(0x4d1015e2, {"services": 1, "ip": bytes([10, 0, 0, 1]), "port": 8333})]),
             "01" + "e215104d" + "0100000000000000" + "00000000000000000000ffff0a000001" + "208d"),
            ("version", dict(version=70001, services=1, timestamp=2, remote_address={"services": 0, "ip": bytes(16), "port": 0},
                             local_address={"services": 0, "ip": bytes(16), "port": 0}, nonce=3, subversion=b"", last_block_index=4, relay=False),
             "71110100" + "0100000000000000" + "0200000000000000" + ("00" * 26) * 2 + "0300000000000000" + "00" + "04000000" + "00"),
        ]
        for name, fields, hx in checks:
            if wire.ser_message(name, fields).hex() != hx:
                raise ModelInvalid("reference payload of %s: %s != %s" % (name, wire.ser_message(name, fields).hex(), hx))
            n += 1
        return n


DRIVERS = [Messages]
ASSUMPTIONS = [
    "field names and order are those of the library's pack() keyword interface (cross-checked name by name against the reference table); each field is encoded by the reference according to the protocol type it is declared with",
    "cmpctblock: the library declares a 32-byte header_hash where BIP152 has the 80-byte header; filterload.flags is declared boolean where BIP37 has a byte 0..2; reject.data is declared as a fixed 32-byte hash: the property speaks about the declared fields, so these are encoded as declared and only reported",
    "strings (type S) are byte strings, as the codec requires",
    "merkleblock uses honest BIP37 proofs (every subset for n <= bound) and alert uses well-formed alert payloads, so that the library's post-processing applies; alert payloads that are not an alert structure are recorded only",
    "an omitted relay keyword (as opposed to relay=None) is recorded only",
    "networks: BTC all messages; LTC and BCH the messages embedding transactions / headers / blocks plus version, with <= 1 field off base; BTG (140-byte header) and GRS outside",
]


def CONFIGURATIONS():
    return {"library_messages": sorted(library_table())}
