"""C17 - signed text messages verify for the signer only and never crash the verifier (Mode I).

Drivers
  C17.roundtrip  every network x 10 signers (5 secrets x compressed/uncompressed) x message alphabet: digest = reference
                 magic hash; signature verifies for the key and for its address; the reference recovers exactly the
                 signer's public key and compression flag from it; pair_for_message_hash agrees; armoured form parses
                 back to (message, address, signature)
  C17.cross      on BTC, XTN, DOGE: every (signer, message) x every (verifier key | verifier address, message):
                 True exactly for the signer (same secret; for addresses also same compression) and the same message
  C17.sigtext    totality of verify over signature text: every first byte x r alphabet x s alphabet (65 bytes), every other
                 length 0..70, non-base64 / wrongly padded / non-ASCII text; the reference recovery decides which are valid
"""
import re
import base64
import contextlib
import io

from ..engine import Driver, OK, BAD, ModelInvalid, seed_bytes
from ..ref import msgsig as ref
from ..ref import bip32 as k1

N, P, G = k1.N, k1.P, k1.G


def network(code):
    from pycoin.networks.registry import network_for_netcode
    with contextlib.redirect_stdout(io.StringIO()):
        return network_for_netcode(code)


def decoy_hash(code, text):
    """the same text is first hashed on ANOTHER network (different message magic): what a network computes for a
    text must not depend on what another network computed before (state shared between signer objects)"""
    try:
        network("LTC" if code in ("BTC", "XTN", "XRT") else "BTC").msg.hash_for_signing(text)
    except Exception:
        pass


_NETCODES = []


FALLBACK_CODES = ["BTC", "DOGE", "LTC", "XTN"]
_REGISTRY_ERROR = []


def netcodes():
    """all registered network symbols; if pycoin's registry itself fails, a short fixed list (the per-network cases
    then report the failure as disagreements instead of stopping the harness)"""
    if not _NETCODES:
        try:
            from pycoin.networks.registry import network_codes
            with contextlib.redirect_stdout(io.StringIO()):
                _NETCODES.extend(sorted(network_codes()))
        except Exception as e:
            _NETCODES.extend(FALLBACK_CODES)
            _REGISTRY_ERROR.append("EXC %s: %s" % (type(e).__name__, e))
    return _NETCODES


def groestl_missing():
    try:
        import groestlcoin_hash  # noqa: F401
        return False
    except ImportError:
        return True


def secrets(seed):
    a = int.from_bytes(seed_bytes(seed, "c17.key.a", 32), "big") % (N - 1) + 1
    b = int.from_bytes(seed_bytes(seed, "c17.key.b", 32), "big") % (N - 1) + 1
    out = [1, 2, N - 1, a, b]
    assert len(set(out)) == 5
    return out


def signers(seed):
    return [dict(secret=str(s), compressed=c) for s in secrets(seed) for c in (True, False)]


MESSAGES = [
    dict(name="empty", text=""),
    dict(name="a", text="a"),
    dict(name="hello", text="hello"),
    dict(name="multi-lf", text="line one\nline two\n\nline four"),
    dict(name="multi-crlf", text="line one\r\nline two\r\n\r\nline four"),
    dict(name="non-bmp", text="café 中文 \U0001F600\U00010348"),
    dict(name="len252", char="x", repeat=252),
    dict(name="len253", char="y", repeat=253),
    dict(name="len70000", char="z", repeat=70000),
    dict(name="trailing-newline", text="ends with newline\n"),
    dict(name="spaces-colon", text="  Address: not an address  "),
    # characters str.splitlines() treats as line boundaries although they are no newline style (LF newlines, consistent)
    dict(name="formfeed-vt", text="page one\x0cpage two\x0bcolumn\nlast line"),
    dict(name="unicode-separators", text="a\u2028b\u2029c\x85d\x1ce\x1df\x1eg"),
    dict(name="trailing-spaces", text="ends with blanks   "),
    # the same separators inside a message whose newline style is CRLF (the DOS route of the armour parser; round 6, C17-x2)
    dict(name="crlf-formfeed-vt", text="page one\x0cpage two\x0bcolumn\r\nlast line"),
    dict(name="crlf-unicode-separators", text="a\u2028b\u2029c\x85d\x1ce\x1df\x1eg\r\nend"),
]


def msg_text(m):
    return m["text"] if "text" in m else m["char"] * int(m["repeat"])


def exc_text(e):
    return "EXC %s: %s" % (type(e).__name__, str(e)[:100])


def exc_clause(e):
    """one clause per root cause of an exception escaping verify / pair_for_message_hash"""
    t = type(e).__name__
    if t == "Error" or (t == "ValueError" and "ASCII" in str(e)) or t == "UnicodeEncodeError":
        return "base64-exception"                 # a2b_base64 on text that is not base64
    if t == "IndexError":
        return "no-point-for-r-indexerror"        # [0] on the empty candidate list
    if t == "NoSuchPointError":
        return "recid-ge-2-nosuchpoint"           # x + order applied to the recovered key
    if t == "AttributeError" and "hash160" in str(e):
        return "verifier-address-unparsable"      # parse.address returned None for the verifier's address text
    if t in ("TypeError", "AttributeError") and "NoneType" in str(e):
        return "infinity-recovered-r-multiple-of-order"    # r = n: inverse(0) -> key (None, None), crashes later
    if t == "AssertionError":
        return "infinity-recovered-r-multiple-of-order"    # the same input under the pure-Python inverse_mod
    return "exception-%s" % t


class Mismatch(Exception):
    def __init__(self, cls, ref_, impl, **tags):
        self.cls, self.ref, self.impl, self.tags = cls, ref_, impl, tags


def call_verify(net, who, sig, text):
    """-> (result, exception)"""
    try:
        with contextlib.redirect_stdout(io.StringIO()):
            return net.msg.verify(who, sig, text), None
    except Exception as e:
        return None, e


def want_bool(label, who_desc, want, res, err):
    if err is not None:
        raise Mismatch("verify-raises", "%s: verify(%s) -> %s" % (label, who_desc, want), exc_text(err), clause=exc_clause(err))
    if res is not want:
        raise Mismatch("verify-%s-expected-%s" % (res, want), "%s: verify(%s) -> %s" % (label, who_desc, want), repr(res),
                       clause="accepts-non-signer" if want is False else "rejects-signer")


class Roundtrip(Driver):
    id = "C17.roundtrip"
    rule = ("every network x 10 signers x message alphabet: sign, verify by key and by address, reference recovery of the "
            "signer from the signature, pair_for_message_hash, armoured round trip; non-trivial = every case on a network "
            "whose hash function is installed")

    def __init__(self, tier, seed):
        Driver.__init__(self, tier, seed)
        self.msgs = MESSAGES
        self.bound = dict(networks="all registered", signers=len(signers(seed)), messages=[m["name"] for m in self.msgs])

    def units(self):
        for code in netcodes():
            for si in range(len(signers(self.seed))):
                yield dict(net=code, signer=si)

    def execute(self, unit):
        sg = signers(self.seed)[unit["signer"]]
        if _REGISTRY_ERROR and unit["net"] == netcodes()[0] and unit["signer"] == 0:
            yield dict(net=unit["net"], registry=True), BAD("network-registry", "network_codes() lists the networks", _REGISTRY_ERROR[0],
                                                            clause="network-registry")
        try:
            net = network(unit["net"])
            grs = type(net.parse).__name__ != "ParseAPI"
        except Exception as e:
            yield dict(net=unit["net"]), BAD("network-load", "loads", exc_text(e), clause="network-load")
            return
        for m in self.msgs:
            case = dict(net=unit["net"], signer=sg, msg=m)
            if grs and groestl_missing():
                yield case, OK("trivial-absent-groestl-hash")
            else:
                yield case, self.run(case)

    def run(self, case):
        if case.get("registry"):
            netcodes()
            if _REGISTRY_ERROR:
                return BAD("network-registry", "network_codes() lists the networks", _REGISTRY_ERROR[0], clause="network-registry")
            return OK("trivial-registry-ok")
        d = int(case["signer"]["secret"])
        comp = bool(case["signer"]["compressed"])
        text = msg_text(case["msg"])
        Q = k1.pt_mul(d, G)
        n = 0
        try:
            decoy_hash(case["net"], text)
            net = network(case["net"])
            e = ref.magic_hash(net.network_name, text)
            key = net.keys.private(d, is_compressed=comp)
            h = net.msg.hash_for_signing(text)
            n += 1
            if h != e:
                raise Mismatch("digest", "%x" % e, "%x" % h, clause="magic-hash")
            sig = net.msg.sign(key, text)
            n += 1
            raw = ref.strict_b64decode(sig)
            if raw is None or len(raw) != 65:
                raise Mismatch("signature-format", "base64 of 65 bytes", repr(sig), clause="signature-format")
            rec = ref.recover_compact(raw, e)
            if rec is None or rec[0] != Q or rec[1] != comp:
                raise Mismatch("reference-recovery", "signature recovers the signer %r compressed=%s" % (Q, comp),
                               "recovers %r" % (rec,), clause="recovers-other-key")
            addr = key.address()
            want_addr = refaddress(net, Q, comp)
            if want_addr is not None and addr != want_addr:
                raise Mismatch("address", want_addr, addr, clause="address")
            for who, desc in ((key, "signing key"), (key.public_copy(), "public key"), (addr, "address %s" % addr)):
                res, err = call_verify(net, who, sig, text)
                n += 1
                want_bool("own signature", desc, True, res, err)
                res, err = call_verify(net, who, sig, text + "x")
                n += 1
                want_bool("other message", desc, False, res, err)
            pair, flag = net.msg.pair_for_message_hash(sig, e)
            n += 1
            if tuple(pair) != Q or bool(flag) != comp:
                raise Mismatch("pair_for_message_hash", "%r compressed=%s" % (Q, comp), "%r compressed=%s" % (tuple(pair), flag),
                               clause="recovers-other-key")
            side = ref.armour_side_conditions(text)
            arm = net.msg.sign(key, text, verbose=True)
            n += 1
            if side:
                parsed = net.msg.parse_signed(arm)
                n += 1
                if tuple(parsed) != (text, addr, sig):
                    raise Mismatch("armour-roundtrip", "(message, %s, %s)" % (addr, sig),
                                   "(%r, %r, %r)" % (parsed[0][:60], parsed[1], parsed[2]), clause="armour")
                m2, a2, s2 = parsed
                res, err = call_verify(net, a2, s2, m2)
                n += 1
                want_bool("parsed armoured message", "parsed address", True, res, err)
                if "\r\n" in text or "\n" not in text:
                    # the same armour as a DOS text file (every line ends in CRLF): one newline style throughout
                    parsed = net.msg.parse_signed(re.sub(r"(?<!\r)\n", "\r\n", arm))
                    n += 1
                    if tuple(parsed) != (text, addr, sig):
                        raise Mismatch("armour-roundtrip-dos", "(message, %s, %s)" % (addr, sig),
                                       "(%r, %r, %r)" % (parsed[0][:60], parsed[1], parsed[2]), clause="armour")
        except Mismatch as mm:
            return BAD(mm.cls, mm.ref, mm.impl, n=n, **mm.tags)
        except Exception as ex:
            return BAD("exception", "sign/verify/parse succeed", exc_text(ex), n=n, clause="exception-in-roundtrip")
        return OK("header=%d %s%s" % (raw[0], case["msg"]["name"], "" if side else " (armour side condition unmet)"), n=n)

    def selfcheck(self):
        n, bad = ref.selfcheck()
        if bad:
            raise ModelInvalid("ref msgsig: %s" % bad[:3])
        n2, bad = k1.selfcheck()
        if bad:
            raise ModelInvalid("ref secp256k1: %s" % bad[:3])
        return n + n2


def refaddress(net, Q, comp):
    """P2PKH address by the reference, for networks with the default (double-SHA256) Base58Check"""
    try:
        prefix = net.parse._address_prefix
    except Exception:
        return None
    if prefix is None or type(net.parse).__name__ != "ParseAPI":
        return None
    return k1.b58check(bytes(prefix) + ref.key_hash160(Q, comp))


class Cross(Driver):
    id = "C17.cross"
    rule = ("networks BTC, XTN, DOGE: every (signer, message) x every (verifier as public key | as address, message): True "
            "exactly when verifier secret = signer secret (and, for addresses, same compression) and same message; "
            "non-trivial = verifier shares the secret or the message with the signer")
    NETS = ("BTC", "XTN", "DOGE")

    def __init__(self, tier, seed):
        Driver.__init__(self, tier, seed)
        names = ("empty", "a", "hello", "multi-lf", "non-bmp", "len253") if tier == "quick" else tuple(m["name"] for m in MESSAGES)
        self.msgs = [m for m in MESSAGES if m["name"] in names]
        self.bound = dict(networks=list(self.NETS), signers=10, verifiers=20, messages=[m["name"] for m in self.msgs])

    def units(self):
        for code in self.NETS:
            for si in range(10):
                for mi in range(len(self.msgs)):
                    yield dict(net=code, signer=si, msg=mi)

    def execute(self, unit):
        sgs = signers(self.seed)
        sg = sgs[unit["signer"]]
        m = self.msgs[unit["msg"]]
        sig = None
        try:
            net = network(unit["net"])
            key = net.keys.private(int(sg["secret"]), is_compressed=sg["compressed"])
            sig = net.msg.sign(key, msg_text(m))
        except Exception as e:
            yield dict(net=unit["net"], signer=sg, msg=m), BAD("sign-raises", "signs", exc_text(e), clause="exception-in-sign")
            return
        for v in sgs:
            for how in ("key", "address", "foreign-address", "p2sh-same-hash"):
                for vm in (self.msgs if how in ("key", "address") else [m]):
                    case = dict(net=unit["net"], signer=sg, msg=m, verifier=dict(v, how=how), vmsg=vm, sig=sig)
                    yield case, self.run(case)

    def run(self, case):
        sg, v = case["signer"], case["verifier"]
        text, vtext = msg_text(case["msg"]), msg_text(case["vmsg"])
        same_secret = sg["secret"] == v["secret"]
        same_comp = bool(sg["compressed"]) == bool(v["compressed"])
        want = same_secret and text == vtext and (v["how"] == "key" or same_comp)
        if v["how"] == "foreign-address":
            want = False        # the same key's address on ANOTHER network is another address: must fail to verify, not raise
        if v["how"] == "p2sh-same-hash":
            want = False        # a script-hash address built from the key's 20 hash bytes is not the key's address
        try:
            decoy_hash(case["net"], text)
            decoy_hash(case["net"], vtext)
            net = network(case["net"])
            sig = case.get("sig")
            if sig is None:
                sig = net.msg.sign(net.keys.private(int(sg["secret"]), is_compressed=sg["compressed"]), text)
            Qv = k1.pt_mul(int(v["secret"]), G)
            vk = net.keys.public(Qv, is_compressed=bool(v["compressed"]))
            who = vk if v["how"] == "key" else vk.address()
            if v["how"] == "foreign-address":
                other = network("LTC" if case["net"] != "LTC" else "BTC")
                who = other.keys.public(Qv, is_compressed=bool(v["compressed"])).address()
            if v["how"] == "p2sh-same-hash":
                who = net.address.for_p2sh(vk.hash160())
        except Exception as e:
            return BAD("setup-raises", "keys and signature constructible", exc_text(e), clause="exception-in-setup")
        res, err = call_verify(net, who, sig, vtext)
        try:
            want_bool("cross", "%s of secret %s.. %s" % (v["how"], v["secret"][:8], "compressed" if v["compressed"] else "uncompressed"),
                      want, res, err)
        except Mismatch as mm:
            return BAD(mm.cls, mm.ref, mm.impl, **mm.tags)
        if want:
            return OK("accept:signer-%s" % v["how"])
        if same_secret and text == vtext:
            return OK("reject:same-secret-other-compression-address")
        if same_secret:
            return OK("reject:same-secret-other-message")
        return OK("reject:other-secret-same-message" if text == vtext else "trivial-reject:other-secret-other-message")


# ---------------------------------------------------------------- totality over signature text
def point_x_at_or_above(x):
    """smallest x' >= x that is the x coordinate of a curve point"""
    while k1.lift_x(x, 0) is None:
        x += 1
    return x


def no_point_x():
    x = 2
    while k1.lift_x(x, 0) is not None:
        x += 1
    return x


class SigText(Driver):
    id = "C17.sigtext"
    rule = ("verify(key | address, text, message) over signature text: base64 of every first byte 0..255 x r in {0,1,r*,x with "
            "no point,n-1,n,p-1,p,2^256-1, least x>n with a curve point, least x>=1 with a curve point} x s in {0,1,s*,n-s*,n-1,n,2^256-1}; every other length 0..70; non-base64, wrongly "
            "padded, non-ASCII, whitespace-laced text.  The result must be a bool; the reference recovery decides for which "
            "key (if any) it must be True.  non-trivial = header in 27..34 or text that is not canonical base64")
    NETS = ("BTC",)

    def __init__(self, tier, seed):
        Driver.__init__(self, tier, seed)
        self.nets = ("BTC",) if tier == "quick" else ("BTC", "DOGE")
        self.bound = dict(networks=list(self.nets), first_bytes=256, r_alphabet=11, s_alphabet=7, other_lengths="0..70 except 65",
                          malformed_texts=len(self.malformed("QUJD")), verifiers=["signer key", "signer address", "signer other-compression address",
                                                                                  "key recovered by the reference", "key recovered by pycoin"])

    def base(self, netname):
        """the honest signature (made by the reference with a fixed nonce) all crafted ones derive from"""
        d = secrets(self.seed)[3]
        e = ref.magic_hash(netname, "hello")
        nonce = int.from_bytes(seed_bytes(self.seed, "c17.nonce", 32), "big") % (N - 1) + 1
        recid, r, s = ref.ecdsa_sign_with_k(d, e, nonce)
        return d, e, recid, r, s

    def r_alphabet(self, r):
        return [("r*", r), ("1", 1), ("no-point", no_point_x()), ("0", 0), ("n-1", N - 1), ("n", N), ("p-1", P - 1), ("p", P),
                ("2^256-1", 2 ** 256 - 1), ("n<x<p-with-point", point_x_at_or_above(N + 1)), ("x<n-with-point-below-n", point_x_at_or_above(1))]

    def s_alphabet(self, s):
        return [("s*", s), ("n-s*", N - s), ("1", 1), ("n-1", N - 1), ("0", 0), ("n", N), ("2^256-1", 2 ** 256 - 1)]

    @staticmethod
    def malformed(good):
        """texts around a good base64 signature `good`"""
        return [
            ("empty", ""), ("one-char", "A"), ("two-chars", "AA"), ("three-chars", "AAA"), ("only-padding", "===="),
            ("bang", "!!!!"), ("non-ascii", "éééé"), ("snowman-suffix", good + "☃"),
            ("missing-last-char", good[:-1]), ("missing-padding", good.rstrip("=")), ("extra-padding", good + "="),
            ("newline-inside", good[:10] + "\n" + good[10:]), ("space-inside", good[:33] + " " + good[33:]),
            ("trailing-newline", good + "\n"), ("leading-space", " " + good), ("junk-inside", good[:20] + "*" + good[20:]),
            ("urlsafe", good.replace("+", "-").replace("/", "_")), ("doubled", good + good), ("nul-inside", good[:8] + "\x00" + good[8:]),
            ("hex-instead", base64.b64decode(good).hex()), ("one-data-char-over", good.rstrip("=") + "A"),
        ]

    def units(self):
        for code in self.nets:
            for first in range(256):
                yield dict(net=code, kind="grid", first=first)
            yield dict(net=code, kind="lengths")
            yield dict(net=code, kind="malformed")

    def execute(self, unit):
        netname = {"BTC": "Bitcoin", "DOGE": "Dogecoin"}[unit["net"]]
        d, e, recid, r, s = self.base(netname)
        common = dict(net=unit["net"], netname=netname, secret=str(d), msg="hello")
        if unit["kind"] == "grid":
            for rl, rv in self.r_alphabet(r):
                for sl, sv in self.s_alphabet(s):
                    raw = bytes([unit["first"]]) + rv.to_bytes(32, "big") + sv.to_bytes(32, "big")
                    case = dict(common, axes=dict(first=unit["first"], r=rl, s=sl), sig=base64.b64encode(raw).decode())
                    yield case, self.run(case)
        elif unit["kind"] == "lengths":
            good = bytes([27 + 4 + recid]) + r.to_bytes(32, "big") + s.to_bytes(32, "big")
            for ln in range(0, 71):
                if ln == 65:
                    continue
                for fill in ("good-truncated-or-zero-extended", "ff"):
                    raw = (good + b"\0" * 8)[:ln] if fill != "ff" else b"\xff" * ln
                    case = dict(common, axes=dict(length=ln, fill=fill), sig=base64.b64encode(raw).decode())
                    yield case, self.run(case)
        else:
            good = base64.b64encode(bytes([27 + 4 + recid]) + r.to_bytes(32, "big") + s.to_bytes(32, "big")).decode()
            for label, text in [("good", good)] + self.malformed(good):
                case = dict(common, axes=dict(text=label), sig=text)
                yield case, self.run(case)

    def run(self, case):
        d = int(case["secret"])
        Q = k1.pt_mul(d, G)
        sig = case["sig"]
        e = ref.magic_hash(case["netname"], case["msg"])
        raw = ref.strict_b64decode(sig)
        strict = raw is not None
        rec = ref.recover_compact(raw, e) if strict else None
        n = 0
        try:
            decoy_hash(case["net"], case["msg"])
            net = network(case["net"])
            if net.network_name != case["netname"]:
                raise Mismatch("network-name", case["netname"], net.network_name, clause="magic-hash")
            vs = [("signer key", net.keys.public(Q, is_compressed=True), Q, None),
                  ("signer address (compressed)", net.keys.public(Q, is_compressed=True).address(), Q, True),
                  ("signer address (uncompressed)", net.keys.public(Q, is_compressed=False).address(), Q, False)]
            if rec is not None and rec[0] != Q:
                vs.append(("key the reference recovers", net.keys.public(rec[0], is_compressed=rec[1]), rec[0], None))
                vs.append(("address the reference recovers", net.keys.public(rec[0], is_compressed=rec[1]).address(), rec[0], rec[1]))
        except Mismatch as mm:
            return BAD(mm.cls, mm.ref, mm.impl, **mm.tags)
        except Exception as ex:
            return BAD("setup-raises", "verifier keys constructible", exc_text(ex), clause="exception-in-setup")
        # what pycoin itself recovers (may legitimately fail with EncodingError - that is its documented signal)
        impl_pair = None
        try:
            pair, flag = net.msg.pair_for_message_hash(sig, e)
            impl_pair = (tuple(pair), bool(flag))
        except Exception:
            pass
        if impl_pair is not None and impl_pair[0] != Q and (rec is None or impl_pair[0] != rec[0]):
            try:
                vs.append(("key pycoin recovers", net.keys.public(impl_pair[0], is_compressed=impl_pair[1]), impl_pair[0], None))
            except Exception:
                pass
        seen_true = False
        try:
            for desc, who, Qv, vcomp in vs:
                if strict:
                    want = rec is not None and rec[0] == Qv and (vcomp is None or vcomp == rec[1])
                else:
                    want = None       # not canonical base64: the property only demands a bool
                res, err = call_verify(net, who, sig, case["msg"])
                n += 1
                if err is not None:
                    raise Mismatch("verify-raises", "verify(%s) returns %s" % (desc, "a bool" if want is None else want), exc_text(err),
                                   clause=exc_clause(err))
                if res is not True and res is not False:
                    raise Mismatch("verify-not-bool", "a bool", repr(res), clause="not-bool")
                if want is not None and res is not want:
                    if want is False and rec is None:
                        raise Mismatch("verify-true-for-invalid-signature", "False for %s: no key validly signs with this (header, r, s)" % desc,
                                       "True", clause="range-unchecked")
                    raise Mismatch("verify-%s-expected-%s" % (res, want), "verify(%s) -> %s" % (desc, want), repr(res),
                                   clause="accepts-non-signer" if want is False else "rejects-signer")
                seen_true = seen_true or res
        except Mismatch as mm:
            return BAD(mm.cls, mm.ref, mm.impl, n=n, **mm.tags)
        if not strict:
            return OK("non-canonical-base64:%s" % ("accepted-leniently" if seen_true else "False"), n=n)
        if len(raw) != 65:
            return OK("trivial-wrong-length" if len(raw) not in (64, 66) else "length-64/66", n=n)
        if not 27 <= raw[0] <= 34:
            return OK("trivial-header-out-of-range", n=n)
        if rec is None:
            return OK("header-ok:unrecoverable:False", n=n)
        return OK("header-ok:valid-for-%s" % ("signer" if rec[0] == Q else "another-key"), n=n)

    def selfcheck(self):
        for name in ("Bitcoin", "Dogecoin"):
            d, e, recid, r, s = self.base(name)
            raw = bytes([27 + 4 + recid]) + r.to_bytes(32, "big") + s.to_bytes(32, "big")
            if ref.recover_compact(raw, e) != (k1.pt_mul(d, G), True):
                raise ModelInvalid("reference signature does not recover its signer")
        if k1.lift_x(no_point_x(), 0) is not None or k1.lift_x(no_point_x(), 1) is not None:
            raise ModelInvalid("no-point x")
        return 3


# ---------------------------------------------------------------- hierarchical key flavours (their own address kinds)
class Flavours(Driver):
    id = "C17.flavours"
    rule = ("networks defining BIP49 / BIP84 prefixes x hierarchical key flavour {bip32, bip49, bip84} x 2 seeds x child {master, 0/1} x "
            "messages: the signature verifies for the node, its public copy and ITS OWN address (P2PKH, P2SH-P2WPKH or P2WPKH "
            "as the flavour says), the armoured form carries that address and verifies after parsing, another message and "
            "another node's address fail; non-trivial = flavour other than bip32")
    NETS = ("BTC", "XTN", "LTC")

    def __init__(self, tier, seed):
        Driver.__init__(self, tier, seed)
        names = ("empty", "hello", "multi-lf") if tier == "quick" else tuple(m["name"] for m in MESSAGES)
        self.msgs = [m for m in MESSAGES if m["name"] in names]
        self.bound = dict(networks=list(self.NETS), flavours=["bip32", "bip49", "bip84"], seeds=2, children=["m", "m/0/1"],
                          messages=[m["name"] for m in self.msgs])

    def units(self):
        for code in self.NETS:
            for fl in ("bip32", "bip49", "bip84"):
                for sd in (0, 1):
                    for child in ("", "0/1"):
                        yield dict(net=code, flavour=fl, seedno=sd, child=child)

    def execute(self, unit):
        for m in self.msgs:
            case = dict(unit, msg=m, seed=self.seed)
            yield case, self.run(case)

    def run(self, case):
        text = msg_text(case["msg"])
        n = 0
        try:
            net = network(case["net"])
            deser = getattr(net.keys, case["flavour"] + "_deserialize", None)
            if deser is None or getattr(net.parse, "_%s_prv_prefix" % case["flavour"], None) is None:
                return OK("trivial-flavour-not-defined")
            master = net.keys.bip32_seed(b"vf-c17-%d-%d" % (case.get("seed", 0), case["seedno"]))
            other = net.keys.bip32_seed(b"vf-c17-other")
            node = deser(b"\0\0\0\0" + master.serialize(as_private=True))
            onode = deser(b"\0\0\0\0" + other.serialize(as_private=True))
            if case["child"]:
                node = node.subkey_for_path(case["child"])
            sig = net.msg.sign(node, text)
            addr = node.address()
            n += 1
            for who, desc, want in ((node, "signing node", True), (node.public_copy(), "public copy", True), (addr, "its address %s" % addr, True),
                                    (onode.address(), "another node's address", False), (onode, "another node", False)):
                res, err = call_verify(net, who, sig, text)
                n += 1
                want_bool("%s signature" % case["flavour"], desc, want, res, err)
            res, err = call_verify(net, addr, sig, text + "x")
            n += 1
            want_bool("other message", "its address", False, res, err)
            if ref.armour_side_conditions(text):
                m2, a2, s2 = net.msg.parse_signed(net.msg.sign(node, text, verbose=True))
                n += 1
                if (m2, a2, s2) != (text, addr, sig):
                    raise Mismatch("armour-roundtrip", "(message, %s, %s)" % (addr, sig), "(%r, %r, %r)" % (m2[:60], a2, s2), clause="armour")
                res, err = call_verify(net, a2, s2, m2)
                n += 1
                want_bool("parsed armoured message", "the address the armour carries (%s)" % a2, True, res, err)
        except Mismatch as mm:
            return BAD(mm.cls, mm.ref, mm.impl, n=n, flavour=case["flavour"], **mm.tags)
        except Exception as ex:
            return BAD("exception", "sign/verify/parse succeed", exc_text(ex), n=n, clause="exception-in-roundtrip", flavour=case["flavour"])
        return OK("flavour:%s" % case["flavour"], n=n)

    def nontrivial(self, cls):
        return cls.startswith("flavour:") and cls != "flavour:bip32"



DRIVERS = [Roundtrip, Cross, SigText, Flavours]
ASSUMPTIONS = [
    "keys: secrets {1, 2, n-1, two seed-selected} x compressed/uncompressed; messages from the stated alphabet (<= 70 000 bytes)",
    "armoured form is required to round-trip only for messages with one newline style and no armour marker lines (property side condition)",
    "signature text is a str; for text that is not canonical base64 the property only demands a bool (lenient decoding is not flagged)",
    "the default EC backend is used (OpenSSL-accelerated); Groestlcoin-family networks need groestlcoin_hash (absent)",
    "verifier addresses are P2PKH addresses of the same network",
]


def CONFIGURATIONS():
    return dict(networks=len(netcodes()), absent=["groestlcoin_hash (GRS, GRSRT, TGRS)"] if groestl_missing() else [],
                ec_backend="pycoin default")
