"""C18 - text parsing is total, faithful and keeps kinds apart (Mode I).

Drivers
  C18.b58     network x every Base58 prefix it defines (and near misses) x payload length x content, plus shaped
              WIF / extended-key payloads under every prefix, x every text-parsing entry point
  C18.bech32  network x HRP (own / near miss / foreign) x version x length x encoding x variant x entry point
  C18.text    colon forms, numeric forms, junk / unicode / very long strings x entry point
  C18.cache   shared parseable_str: every ordered pair of entry points (and cross-network pairs) on one shared
              instance against a fresh str

Oracle per (entry point, text):  (1) returns an object or None, never raises;  (2) the object re-serialises to
text that parses (same entry point, the catch-all, or the parser of the object's own kind) to an equal object;
(3) an accepted checksummed text is well-formed for the accepted kind (reference decode: canonical length, in-range
contents);  (4) text that is a well-formed instance of one checksummed kind on the network is not accepted as another;
(5) results do not depend on the cache history of a shared parseable_str."""
import contextlib
import io

from ..engine import Driver, OK, BAD, seed_bytes, seed_int
from ..ref import addr as R
from .c08 import NETS, net, grs_absent, have_groestl, near_misses, fill, show

EPS = ["address", "p2pkh", "p2sh", "p2pkh_segwit", "p2sh_segwit", "p2tr", "wif", "secret_exponent", "public_pair", "sec",
       "bip32", "bip32_prv", "bip32_pub", "bip49", "bip49_prv", "bip49_pub", "bip84", "bip84_prv", "bip84_pub",
       "bip32_seed", "hd_seed", "electrum_seed", "electrum_prv", "electrum_pub", "script", "payable",
       "hierarchical_key", "private_key", "secret", "public_key", "__call__"]

# leaf parsers reached by each composite entry point, in dispatch order (used only to name the root cause of an exception)
_ADDR = ["p2pkh", "p2sh", "p2pkh_segwit", "p2sh_segwit", "p2tr"]
_HK = ["bip32_seed", "bip32_prv", "bip32_pub", "bip49_prv", "bip49_pub", "bip84_prv", "bip84_pub", "electrum_seed", "electrum_prv",
       "electrum_pub"]
EXPANSION = {
    "address": _ADDR, "payable": _ADDR + ["script"], "bip32": ["bip32_prv", "bip32_pub"], "bip49": ["bip49_prv", "bip49_pub"],
    "bip84": ["bip84_prv", "bip84_pub"], "hierarchical_key": _HK, "private_key": ["wif", "secret_exponent"],
    "secret": ["wif", "secret_exponent"] + _HK, "public_key": ["public_pair", "sec"],
    "__call__": _ADDR + ["script", "wif", "secret_exponent"] + _HK,
}
# checksummed Base58 kinds each entry point can legitimately return
_XK = ["xkey:bip32_prv", "xkey:bip32_pub", "xkey:bip49_prv", "xkey:bip49_pub", "xkey:bip84_prv", "xkey:bip84_pub"]
CAN = {
    "address": ["address:p2pkh", "address:p2sh"], "payable": ["address:p2pkh", "address:p2sh"], "p2pkh": ["address:p2pkh"],
    "p2sh": ["address:p2sh"], "wif": ["wif"], "private_key": ["wif"], "secret": ["wif"] + _XK, "hierarchical_key": _XK,
    "bip32": _XK[0:2], "bip32_prv": _XK[0:1], "bip32_pub": _XK[1:2], "bip49": _XK[2:4], "bip49_prv": _XK[2:3],
    "bip49_pub": _XK[3:4], "bip84": _XK[4:6], "bip84_prv": _XK[4:5], "bip84_pub": _XK[5:6],
    "__call__": ["address:p2pkh", "address:p2sh", "wif"] + _XK,
}
SEG_EP = {"address": ("p2wpkh", "p2wsh", "p2tr"), "payable": ("p2wpkh", "p2wsh", "p2tr"), "__call__": ("p2wpkh", "p2wsh", "p2tr"),
          "p2pkh_segwit": ("p2wpkh",), "p2sh_segwit": ("p2wsh",), "p2tr": ("p2tr",)}
REASON = {"InvalidSecretExponentError": "out-of-range", "InvalidPublicPairError": "no-point", "NoSuchPointError": "no-point",
          "error": "wrong-length", "EncodingError": "wrong-length", "AttributeError": "attribute-error"}


def family(kind):
    return kind.split(":")[0]


def ep_fn(n, ep):
    return n.parse if ep == "__call__" else getattr(n.parse, ep)


def pcall(code, ep, text):
    """('ok', obj) | ('exc', TypeName, message).  stdout noise (GRS import message) swallowed"""
    try:
        f = ep_fn(net(code), ep)
        with contextlib.redirect_stdout(io.StringIO()):
            return ("ok", f(text))
    except Exception as e:
        return ("exc", type(e).__name__, str(e)[:100])


def wrapped(f, *a, **kw):
    try:
        with contextlib.redirect_stdout(io.StringIO()):
            return True, f(*a, **kw)
    except Exception as e:
        return False, "EXC %s: %s" % (type(e).__name__, str(e)[:100])


def obj_class(o):
    from pycoin.networks.Contract import Contract
    from pycoin.key.BIP32Node import BIP32Node
    from pycoin.key.BIP49Node import BIP49Node
    from pycoin.key.BIP84Node import BIP84Node
    from pycoin.key.electrum import ElectrumWallet
    from pycoin.key.Key import Key
    for name, cls in (("Contract", Contract), ("BIP49Node", BIP49Node), ("BIP84Node", BIP84Node), ("BIP32Node", BIP32Node),
                      ("ElectrumWallet", ElectrumWallet), ("Key", Key)):
        if isinstance(o, cls):
            return name
    return type(o).__name__


def network_mark(o):
    """which network the object belongs to, observed through its own address text (the network-specific rendering)"""
    try:
        with contextlib.redirect_stdout(io.StringIO()):
            return o.address()
    except Exception as e:
        return "address-unavailable:%s" % type(e).__name__


def ident(o):
    """comparable identity of a parse result (may raise: caller wraps)"""
    if o is None:
        return None
    c = obj_class(o)
    if c == "Contract":
        info = o.info()
        return ("Contract", info.get("type"), bytes(o.script()).hex())
    if c in ("BIP32Node", "BIP49Node", "BIP84Node"):
        pp = o.public_pair()
        return (c, o.secret_exponent(), (int(pp[0]), int(pp[1])), bytes(o.chain_code()).hex(), o.tree_depth(),
                bytes(o.parent_fingerprint()).hex(), o.child_index(), network_mark(o))
    if c in ("Key", "ElectrumWallet"):
        pp = o.public_pair()
        return (c, o.secret_exponent(), (int(pp[0]), int(pp[1])), bool(o.is_compressed()), network_mark(o))
    return (c, repr(o))


def result_key(r):
    """identity of a pcall result for differential comparison"""
    if r[0] == "exc":
        return ("exc", r[1])
    ok, i = wrapped(ident, r[1])
    return ("ok", i if ok else "ident:" + i)


def texts_of(o, c, absent=False):
    """candidate re-serialisations [(label, text or 'EXC ...')] of a returned object"""
    forms = []
    if c == "Contract":
        ty = o.info().get("type")
        if ty in ("p2pkh", "p2sh", "p2pkh_wit", "p2sh_wit", "p2tr"):
            forms.append(("address()", o.address))
        forms.append(("disassemble()", o.disassemble))
    elif c in ("BIP32Node", "BIP49Node", "BIP84Node"):
        if o.secret_exponent() is not None:
            forms.append(("hwif(as_private=True)", lambda: o.hwif(as_private=True)))
        else:
            forms.append(("hwif()", o.hwif))
    else:
        forms.append(("as_text()", o.as_text))
        if o.secret_exponent() is not None:
            forms.append(("wif()", o.wif))
    out = []
    for label, f in forms:
        try:
            with contextlib.redirect_stdout(io.StringIO()):
                out.append((label, f()))
        except ImportError as e:
            if not absent:
                out.append((label, "EXC ImportError: %s" % e))
        except Exception as e:
            out.append((label, "EXC %s: %s" % (type(e).__name__, str(e)[:80])))
    return out


KIND_PARSERS = {"Contract": ["address", "script"], "BIP32Node": ["bip32"], "BIP49Node": ["bip49"], "BIP84Node": ["bip84"],
                "Key": ["wif", "sec"], "ElectrumWallet": ["electrum_prv", "electrum_pub", "wif", "sec"]}


def analyse(code, text):
    params = R.NETWORK_PARAMS[code]
    data = R.b58check_decode(text)
    good, malformed = R.b58_kinds(params, text)
    seg = [k for k, p in R.decode_address(params, text) if k in ("p2wpkh", "p2wsh", "p2tr")]
    bech = R.bech32_decode(text)
    return dict(data=data, good=[k for k, r in good], malformed=malformed, seg=seg, bech=bech is not None,
                own_hrp=bech is not None and bech[0] == params["hrp"])


def malformed_clause(kind, rest):
    """root cause tag for an accepted malformed payload of `kind`"""
    if kind.startswith("address"):
        return "b58-address-length"
    if kind == "wif":
        if len(rest) not in (32, 33):
            return "wif-length"
        if len(rest) == 33 and rest[32] != 1:
            return "wif-compression-flag"
        return "wif-range"
    if len(rest) != 74:
        return "bip32-length"
    key = rest[41:]
    if key[0] not in (0, 2, 3):
        return "bip32-key-marker"               # neither a private-key marker (00) nor a compressed public key (02/03)
    if (key[0] == 0) != kind.endswith("prv"):
        return "bip32-version-key-mismatch"
    if key[0] in (2, 3) and int.from_bytes(key[1:], "big") >= R.P:
        return "sec-x-ge-p"
    return "bip32-key-range"


def judge(code, ep, text, ana):
    """the oracle for one (network, entry point, text)"""
    r = pcall(code, ep, text)
    absent = grs_absent(code)
    pre = "absent-grs:" if absent else ""
    # (1) totality
    if r[0] == "exc":
        leaf = ep
        for cand in EXPANSION.get(ep, []):
            rr = pcall(code, cand, text)
            if rr[0] == "exc" and rr[1] == r[1]:
                leaf = cand
                break
        reason = REASON.get(r[1], r[1])
        if r[1] == "ValueError" and "chain code" in r[2]:
            reason = "wrong-length"
        root = "bip32" if leaf.startswith(("bip32_p", "bip49", "bip84")) or leaf == "bip32" else leaf   # hparse + BIP32Node.deserialize
        return BAD("raises", "%s(%r) returns an object or None" % (ep, text[:80]), "EXC %s: %s" % (r[1], r[2]),
                   clause="raises:%s:%s" % (root, reason), kind=root, exc=r[1], ep=ep, leaf=leaf)
    o = r[1]
    b58 = ana["data"] is not None
    if o is None:
        if absent:
            return OK("trivial-absent-grs:none")
        if b58:
            hit = [k for k in ana["good"] if k in CAN.get(ep, [])]
            if hit:
                return BAD("refuses-valid", "%s accepts well-formed %s" % (ep, hit[0]), "None", clause="refuses-valid:" + family(hit[0]), kind=family(hit[0]), ep=ep)
            if ana["good"]:
                return OK("none:valid-other-kind")
            if ana["malformed"]:
                return OK("none:own-prefix-malformed")
            return OK("trivial-none:b58-foreign-prefix")
        if ana["seg"]:
            if ep in SEG_EP and any(k in SEG_EP[ep] for k in ana["seg"]):
                return BAD("refuses-valid", "%s accepts %s" % (ep, ana["seg"][0]), "None", clause="refuses-valid:segwit", kind="segwit", ep=ep)
            return OK("none:valid-other-kind")
        if ana["own_hrp"]:
            return OK("none:own-hrp-not-an-address" if ep in SEG_EP else "trivial-none:own-hrp-other-parser")
        return OK("trivial-none")
    ok, c = wrapped(obj_class, o)
    ok2, idn = wrapped(ident, o)
    if not ok or not ok2:
        if absent:
            return OK("absent-grs:object-unusable")
        return BAD("object-unusable", "returned object answers its accessors", str(idn), clause="object-unusable", kind=c if ok else "?", ep=ep)
    # a long text over the Base58 alphabet plus some of its four look-alike exclusions (0 O I l) is not Base58 at all: no
    # address, WIF or extended key may come out of it, whatever value a lenient digit lookup would assign
    B58A = "123456789ABCDEFGHJKLMNPQRSTUVWXYZabcdefghijkmnopqrstuvwxyz"
    only_b58_ep = ep in ("p2pkh", "p2sh", "wif") or ep.startswith(("bip32", "bip49", "bip84"))
    if not b58 and not absent and len(text) >= 26 and any(ch in "0OIl" for ch in text) and all(ch in B58A + "0OIl" for ch in text) \
            and not ana["bech"] and (only_b58_ep or (c == "Contract" and idn[1] in ("p2pkh", "p2sh"))
                                     or c in ("BIP32Node", "BIP49Node", "BIP84Node")):
        return BAD("accepts-malformed", "%s refuses text with characters outside the Base58 alphabet" % ep, "parsed as %s %s" % (c, show(idn)),
                   clause="b58-non-alphabet-accepted", kind=c, ep=ep)
    # (3)/(4) checksummed kinds
    if b58 and not absent and ep in CAN:
        if c == "Contract":
            rk = "address"
        elif c == "Key":
            rk = "wif"
        elif c in ("BIP32Node", "BIP49Node", "BIP84Node"):
            rk = "xkey"
        else:
            rk = c
        is_script = c == "Contract" and idn[1] not in ("p2pkh", "p2sh", "unknown")
        if rk in ("address", "wif", "xkey") and not is_script:
            fits = [k for k in ana["good"] if family(k) == rk and k in CAN[ep]]
            if fits and rk == "address":
                # faithful: the Contract must denote the script the address text encodes (reference decoding)
                want = set(R.script_for(k, pl).hex() for k, pl in R.decode_address(R.NETWORK_PARAMS[code], text) if k in ("p2pkh", "p2sh"))
                if want and idn[2] not in want:
                    return BAD("unfaithful", "%s(%s address) denotes script %s" % (ep, fits[0], sorted(want)[0]), "script %s (type %s)" % (idn[2], idn[1]),
                               clause="address-script-differs", kind=rk, ep=ep)
            if not fits:
                others = [k for k in ana["good"] if family(k) != rk]
                mal = [(k, rest) for k, rest in ana["malformed"] if family(k) == rk and k in CAN[ep]]
                also = malformed_clause(*mal[0]) if mal else "unmatched-prefix"
                if others:
                    src = others[0].split(":")[-1].replace("_prv", "").replace("_pub", "")
                    dst = mal[0][0].split(":")[-1].replace("_prv", "").replace("_pub", "") if mal else rk
                    return BAD("kind-confusion", "%s refuses text that is a well-formed %s on %s" % (ep, others[0], code),
                               "parsed as %s %s" % (rk, show(idn)), clause="prefix-collision:%s:%s-as-%s" % (code, src, dst),
                               kind=rk, also=also, ep=ep)
                interp = None
                if rk == "xkey" and mal and len(mal[0][1]) == 74:
                    # does the returned node at least follow the key field (00||k -> private node, 02/03||x -> public node)?
                    interp = "follows-key-field" if (mal[0][1][41] == 0) == (idn[1] is not None) else "contradicts-key-field"
                return BAD("accepts-malformed", "%s refuses (payload after prefix: %s)" % (
                           ep, ", ".join("%s %d bytes" % (k, len(rest)) for k, rest in ana["malformed"]) or "no prefix of this network"),
                           "parsed as %s %s" % (rk, show(idn)), clause=also, kind=rk, ep=ep, interp=interp)
    if ana["bech"] and not b58 and not absent and c == "Contract" and ep in SEG_EP and idn[1] in ("p2pkh_wit", "p2sh_wit", "p2tr"):
        want = {"p2pkh_wit": "p2wpkh", "p2sh_wit": "p2wsh", "p2tr": "p2tr"}[idn[1]]
        if want not in ana["seg"]:
            return BAD("accepts-malformed", "%s refuses (not a valid segwit address of %s)" % (ep, code), "parsed as %s" % show(idn),
                       clause="bech32-address-rule", kind="segwit", ep=ep)
    # (2) re-serialisation
    if absent and c != "Contract":
        return OK("absent-grs:object")
    ok, cands = wrapped(texts_of, o, c, absent)
    if not ok:
        return BAD("reserialise", "object re-serialises", str(cands), clause="reserialise:raises", kind=c, ep=ep)
    if absent and not cands:
        return OK("absent-grs:object")
    if c == "Contract":
        # the caller edits the description dictionary of the object it was handed; parsing the same text again (a fresh
        # string object) must still give an equal object (Mode S, depth 2)
        ok, inf = wrapped(o.info)
        if ok and isinstance(inf, dict):
            for k in list(inf):
                if isinstance(inf[k], list):
                    del inf[k][:]
                inf[k] = "caller-edit"
            inf["type"] = "nulldata"
            r3 = pcall(code, ep, text)
            ok3, i3 = wrapped(ident, r3[1]) if r3[0] == "ok" and r3[1] is not None else (False, r3[1])
            if not ok3 or i3 != idn:
                return BAD("history", "%s(%r) again = an equal object" % (ep, text[:60]), show(i3) if ok3 else str(i3)[:200],
                           clause="aliasing:contract-info-shared", kind=c, ep=ep)
    tried = []
    for label, t2 in cands:
        if not isinstance(t2, str) or t2.startswith("EXC "):
            tried.append("%s=%r" % (label, t2))
            continue
        for ep2 in [ep, "__call__"] + KIND_PARSERS.get(c, []):
            r2 = pcall(code, ep2, t2)
            if r2[0] == "ok" and r2[1] is not None:
                ok, i2 = wrapped(ident, r2[1])
                if ok and i2 == idn:
                    return OK(pre + "object:%s%s" % (c, "" if ep2 == ep else ":via-" + ("catch-all" if ep2 == "__call__" else "kind-parser")),
                              n=2)
                tried.append("%s via %s -> %s" % (label, ep2, show(i2)))
            else:
                tried.append("%s via %s -> %s" % (label, ep2, "None" if r2[0] == "ok" else r2[1]))
    clause = "reserialise:" + c
    if c == "Contract":
        clause = "reserialise:script-disassembly" if idn[1] not in ("p2pkh", "p2sh", "p2pkh_wit", "p2sh_wit", "p2tr") else "reserialise:address"
    if c in ("Key", "ElectrumWallet", "BIP32Node", "BIP49Node", "BIP84Node") and not (0 <= idn[2][0] < R.P and 0 <= idn[2][1] < R.P):
        # an unreduced coordinate was accepted; the object cannot be serialised faithfully.  Two code paths:
        # ParseAPI.public_pair (numbers) and encoding.sec.sec_to_public_pair (SEC bytes)
        via_pair = ep in ("public_pair", "public_key") and result_key(pcall(code, "public_pair", text))[1] == idn
        clause = "public-pair-coordinate-range" if via_pair else "sec-x-ge-p"
    elif c == "Key" and idn[1] is None:
        # public key: does the bare hex parse?  then the fault is the SEC text prefix handling
        ok, secb = wrapped(o.sec)
        if ok and result_key(pcall(code, "sec", bytes(secb).hex()))[1] == idn:
            clause = "reserialise:sec-text-prefix"
    return BAD("reserialise", "some text form of the %s parses back to an equal object" % c, "; ".join(tried)[:400],
               clause=clause, kind=c, ep=ep)


def make_case(code, ep, group, labels, text):
    ax = dict(net=code, ep=ep, group=group)
    ax.update(labels)
    return dict(axes=ax, data=dict(text=text))


class _Base(Driver):
    def run(self, case):
        code, ep, text = case["axes"]["net"], case["axes"]["ep"], case["data"]["text"]
        return judge(code, ep, text, analyse(code, text))

    def emit(self, code, group, labels, text, eps=EPS):
        ana = analyse(code, text)
        for ep in eps:
            yield make_case(code, ep, group, labels, text), judge(code, ep, text, ana)

    def nontrivial(self, cls):
        return not cls.startswith("trivial")


# ------------------------------------------------------------------------------------------ b58

def shaped_payloads(seed):
    """(label, bytes after the prefix)"""
    k = seed_int(seed, "c18.key", 3, R.N - 2)
    out = []
    for lab, e in (("0", 0), ("1", 1), ("n-1", R.N - 1), ("n", R.N), ("max", 2 ** 256 - 1), ("seed", k)):
        b = e.to_bytes(32, "big")
        out.append(("wif:%s" % lab, b))
        out.append(("wif:%s+01" % lab, b + b"\x01"))
        if lab in ("1", "0", "seed"):
            out.append(("wif:%s+02" % lab, b + b"\x02"))
            out.append(("wif:%s+00" % lab, b + b"\x00"))
            out.append(("wif:%s+0101" % lab, b + b"\x01\x01"))
    chain = bytes(range(32, 64))
    head = b"\x00" + bytes(4) + bytes(4) + chain
    gx = R.GX.to_bytes(32, "big")
    keys = [("prv:1", b"\0" + (1).to_bytes(32, "big")), ("prv:0", bytes(33)), ("prv:n-1", b"\0" + (R.N - 1).to_bytes(32, "big")),
            ("prv:n", b"\0" + R.N.to_bytes(32, "big")), ("prv:seed", b"\0" + k.to_bytes(32, "big")),
            ("pub:02G", b"\x02" + gx), ("pub:03G", b"\x03" + gx), ("pub:02-nopoint", b"\x02" + (5).to_bytes(32, "big")),
            ("pub:02-x=p+1", b"\x02" + (R.P + 1).to_bytes(32, "big")), ("pub:04G", b"\x04" + gx), ("pub:05G", b"\x05" + gx),
            ("pub:01G", b"\x01" + gx), ("pub:ff", b"\xff" * 33)]
    for lab, kb in keys:
        out.append(("xkey:" + lab, head + kb))
    out.append(("xkey:depth3-child-hardened", b"\x03" + b"\xde\xad\xbe\xef" + b"\x80\x00\x00\x01" + chain + b"\0" + k.to_bytes(32, "big")))
    for dep in (0x7f, 0x80, 0xff):
        # depth is an unsigned byte: every value is a well-formed extended key
        out.append(("xkey:depth%d" % dep, bytes([dep]) + b"\xde\xad\xbe\xef" + b"\x00\x00\x00\x01" + chain + b"\x02" + gx))
        out.append(("xkey:depth%d-prv" % dep, bytes([dep]) + b"\xde\xad\xbe\xef" + b"\x00\x00\x00\x01" + chain + b"\0" + k.to_bytes(32, "big")))
    out.append(("xkey:depth0-nonzero-parent", b"\x00" + b"\xde\xad\xbe\xef" + bytes(4) + chain + b"\x02" + gx))
    out.append(("xkey:prv-short1", head + b"\0" + (1).to_bytes(31, "big")))
    out.append(("xkey:prv-long1-leading00", head + b"\0\0" + (1).to_bytes(32, "big")))
    out.append(("xkey:prv-long1-trailing", head + b"\0" + (1).to_bytes(32, "big") + b"\x01"))
    out.append(("xkey:pub-short1", head + b"\x02" + gx[:31]))
    out.append(("xkey:pub-long1", head + b"\x02" + gx + b"\0"))
    out.append(("xkey:pub-uncompressed-65", head + R.sec((R.GX, R.GY), False)))
    out.append(("xkey:header-only", head))
    out.append(("xkey:13-bytes", head[:9]))
    return out


class B58(_Base):
    id = "C18.b58"
    rule = ("network x each Base58 prefix it defines (address, p2sh, wif, bip32/49/84 prv/pub) and near misses x "
            "(payload length x {zeros, ff, ramp} + shaped WIF / extended-key payloads) x 31 entry points; "
            "non-trivial = object returned, or None on a text carrying one of the network's own prefixes")

    def __init__(self, tier, seed):
        Driver.__init__(self, tier, seed)
        if tier == "quick":
            self.lengths = [0, 1, 19, 20, 21, 31, 32, 33, 34, 73, 74, 75, 78, 82]
            self.contents = ["zeros", "ramp"]
        else:
            self.lengths = list(range(0, 83))
            self.contents = ["zeros", "ff", "ramp"]
        self.bound = dict(networks=len(NETS), entry_points=EPS, payload_lengths=self.lengths, contents=self.contents,
                          shaped=[l for l, b in shaped_payloads(seed)], near_misses=["exact", "last+1", "last-1", "first-byte-only"])

    def units(self):
        for code in NETS:
            for f in R.B58_FIELDS:
                if R.NETWORK_PARAMS[code][f] is not None:
                    yield dict(net=code, field=f)

    def execute(self, unit):
        code, f = unit["net"], unit["field"]
        quick = self.tier == "quick"
        for miss, pre in near_misses(R.NETWORK_PARAMS[code][f]):
            if quick and miss == "last-1":
                continue
            for L in self.lengths:
                for content in self.contents:
                    text = R.b58check_encode(pre + fill(content, L))
                    yield from self.emit(code, "b58", dict(field=f, prefix=miss, payload="%s:%d" % (content, L)), text)
            for lab, rest in shaped_payloads(self.seed):
                if miss != "exact" and quick and not lab.endswith((":1", ":1+01", ":02G", ":seed")):
                    continue
                text = R.b58check_encode(pre + rest)
                yield from self.emit(code, "b58", dict(field=f, prefix=miss, payload=lab), text)
            if miss == "exact":
                # a damaged checksum and a non-alphabet character
                text = R.b58check_encode(pre + fill("ramp", 20))
                bad = text[:-1] + ("2" if text[-1] != "2" else "3")
                yield from self.emit(code, "b58", dict(field=f, prefix=miss, payload="ramp:20:bad-checksum"), bad)
                yield from self.emit(code, "b58", dict(field=f, prefix=miss, payload="ramp:20:char-0"), text[:5] + "0" + text[5:])
                # "digit carry": ..Xz.. rewritten as ..(X+1)c.. with c outside the alphabet keeps the numeric value if an unknown
                # character is read as digit -1; well-formed payloads of this field with such a position
                ALPH = R.B58_ALPHABET if hasattr(R, "B58_ALPHABET") else "123456789ABCDEFGHJKLMNPQRSTUVWXYZabcdefghijkmnopqrstuvwxyz"
                done = 0
                for lab, rest in [("ramp:20", fill("ramp", 20)), ("ff:20", fill("ff", 20))] + list(shaped_payloads(self.seed)):
                    t = R.b58check_encode(pre + rest)
                    for i in range(1, len(t) - 1):
                        if t[i + 1] == "z" and t[i] != "z" and done < 6:
                            for c in ("0", "l"):
                                t2 = t[:i] + ALPH[ALPH.index(t[i]) + 1] + c + t[i + 2:]
                                yield from self.emit(code, "b58", dict(field=f, prefix=miss, payload="%s:digit-carry-%s" % (lab, c)), t2)
                            done += 1

    def selfcheck(self):
        return R.selfcheck()


# ------------------------------------------------------------------------------------------ bech32

class Bech32(_Base):
    id = "C18.bech32"
    rule = ("network x HRP {own, near miss, foreign} x witness version x program length x {bech32, bech32m} x "
            "{plain, upper, mixed case, non-zero padding} x 31 entry points; non-trivial = object returned or own HRP")

    def __init__(self, tier, seed):
        Driver.__init__(self, tier, seed)
        self.versions = [0, 1, 2, 16, 17] if tier == "quick" else list(range(0, 18)) + [31]
        self.lengths = [2, 19, 20, 21, 32, 33, 40, 41] if tier == "quick" else list(range(0, 42))
        self.bound = dict(networks=len(NETS), versions=self.versions, program_lengths=self.lengths, encodings=["bech32", "bech32m"],
                          variants=["plain", "upper", "mixed", "padbits"], entry_points=EPS)

    def units(self):
        for code in NETS:
            own = R.NETWORK_PARAMS[code]["hrp"]
            if own is None:
                yield dict(net=code, role="foreign", hrp="bc")
            else:
                yield dict(net=code, role="own", hrp=own)
                yield dict(net=code, role="near-miss", hrp=own[:-1] + ("d" if own[-1] != "d" else "e"))
                yield dict(net=code, role="foreign", hrp="bc" if own != "bc" else "tb")

    def execute(self, unit):
        code, role, hrp = unit["net"], unit["role"], unit["hrp"]
        own = role == "own"
        eps = EPS if own else [e for e in EPS if e in SEG_EP or e in ("script", "secret", "wif", "bip32")]
        for ver in self.versions:
            if not own and ver not in (0, 1):
                continue
            for L in self.lengths:
                if not own and L not in (20, 32):
                    continue
                for enc in ("bech32", "bech32m"):
                    for variant in ("plain", "upper", "mixed", "padbits"):
                        if variant != "plain" and not (own and ver in (0, 1) and L in (20, 32)):
                            continue
                        text = R.segwit_encode_raw(hrp, ver, fill("ramp", L), R.BECH32 if enc == "bech32" else R.BECH32M,
                                                   "padbits" if variant == "padbits" else "plain")
                        if text is None:
                            continue
                        if variant == "upper":
                            text = text.upper()
                        elif variant == "mixed":
                            text = text[:3].upper() + text[3:]
                        yield from self.emit(code, "bech32", dict(hrp=role, ver=ver, length=L, enc=enc, variant=variant), text, eps)


# ------------------------------------------------------------------------------------------ colon / numeric / junk

def text_grid(code, tier, seed):
    """(group, label, text) for one network"""
    out = []
    n = net(code)
    k = seed_int(seed, "c18.key", 3, R.N - 2)
    G = (R.GX, R.GY)
    sym = getattr(n.parse, "_sec_prefix", None) or (code + "SEC")
    sym = sym if isinstance(sym, str) else code + "SEC"
    secs = [("G-compressed", R.sec(G).hex()), ("G-uncompressed", R.sec(G, False).hex()), ("G-upper", R.sec(G).hex().upper()),
            ("nopoint", "02" + "%064x" % 5), ("x=p+1", "02" + "%064x" % (R.P + 1)), ("off-curve-65", "04" + "%064x" % R.GX + "%064x" % (R.GY + 1)),
            ("prefix05", "05" + "%064x" % R.GX), ("hybrid06", "06" + "%064x%064x" % G), ("short", R.sec(G).hex()[:-2]),
            ("long", R.sec(G).hex() + "00"), ("odd-nibbles", R.sec(G).hex()[:-1]), ("empty", ""), ("nonhex", "zz" * 33)]
    # colon forms
    for lab, h in secs:
        out.append(("colon", "sec-bare:" + lab, h))
        out.append(("colon", "sec-prefixed:" + lab, sym + ("" if sym.endswith(":") else ":") + h))
        if lab in ("G-compressed", "nopoint"):
            out.append(("colon", "sec-prefix-nocolon:" + lab, sym.rstrip(":") + h))
            out.append(("colon", "sec-foreign-prefix:" + lab, "ZZZSEC:" + h))
    e_hex = [("prv:0", "00" * 32), ("prv:1", "%064x" % 1), ("prv:n-1", "%064x" % (R.N - 1)), ("prv:n", "%064x" % R.N),
             ("prv:max", "ff" * 32), ("prv:seed", "%064x" % k), ("prv:upper", ("%064x" % k).upper()),
             ("pub:G", "%064x%064x" % G), ("pub:zeros", "00" * 64), ("pub:off-curve", "%064x%064x" % (R.GX, R.GY + 1)),
             ("len:0", ""), ("len:1", "00"), ("len:15", "11" * 15), ("len:17", "11" * 17), ("len:31", "11" * 31), ("len:33", "11" * 33),
             ("len:63", "11" * 63), ("len:65", "11" * 65), ("odd", "1" * 63), ("nonhex", "zz" * 32), ("space", " " + "11" * 32)]
    for lab, h in e_hex:
        out.append(("colon", "E:" + lab, "E:" + h))
    seeds_hex = [("len:0", ""), ("len:1", "00"), ("len:16", "000102030405060708090a0b0c0d0e0f"), ("len:32", "ab" * 32), ("len:64", "cd" * 64),
                 ("len:65", "ef" * 65), ("odd", "abc"), ("nonhex", "xyz"), ("upper", "ABCDEF"), ("unicode", "éé")]
    for lab, h in seeds_hex:
        out.append(("colon", "H:" + lab, "H:" + h))
    for lab, p in (("empty", ""), ("ascii", "correct horse battery staple"), ("unicode", "naïve ☃ \U0001f600"), ("colon", "a:b:c"),
                   ("nul", "a\x00b"), ("newline", "a\nb")):
        out.append(("colon", "P:" + lab, "P:" + p))
    for tag in ("X", "", "h", "p", "e", "HP", "E ", " E", "EE", "Ε"):
        out.append(("colon", "unknown-tag:%r" % tag, tag + ":" + "11" * 32))
    out.append(("colon", "only-colon", ":"))
    out.append(("colon", "two-colons", "H::00"))
    # electrum seed (100 000 hash iterations per parse: exactly one valid instance per network)
    out.append(("colon", "E:seed16", "E:" + seed_bytes(seed, "c18.eseed", 16).hex()))
    # numeric forms
    vals = [("0", 0), ("1", 1), ("n-1", R.N - 1), ("n", R.N), ("2^256", 2 ** 256), ("-1", -1), ("p", R.P), ("seed", k)]
    for lab, v in vals:
        out.append(("numeric", "dec:" + lab, "%d" % v))
        out.append(("numeric", "hex:" + lab, "%x" % v))
        if lab in ("1", "n-1", "n"):
            out.append(("numeric", "0xhex:" + lab, "0x%x" % v))
            out.append(("numeric", "HEX:" + lab, ("%X" % v)))
    for lab, t in (("underscore", "1_000"), ("plus", "+5"), ("lead-space", " 5"), ("trail-space", "5 "), ("lead-zero", "007"),
                   ("fullwidth", "１２３"), ("arabic-indic", "١٢"), ("float", "1.0"), ("exp", "1e3"),
                   ("minus-zero", "-0"), ("0x", "0x"), ("0b1", "0b1"), ("hexword", "deadbeef"), ("dec-as-hex-ambiguous", "10")):
        out.append(("numeric", "odd:" + lab, t))
    xs = [("Gx", R.GX), ("2Gx", R.ec_mul(2)[0]), ("nopoint", 5), ("0", 0), ("p", R.P), ("p+1", R.P + 1), ("n", R.N), ("2^256", 2 ** 256)]
    ys = [("Gy", R.GY), ("Gy+1", R.GY + 1), ("-Gy", R.P - R.GY), ("0", 0)]
    for sep in "/,":
        for xl, x in xs:
            for par in ("even", "odd", "EVEN", "", "neither"):
                out.append(("numeric", "pair:%s%s%s" % (xl, sep, par or "empty"), "%d%s%s" % (x, sep, par)))
            if xl in ("Gx", "nopoint", "p+1"):
                out.append(("numeric", "pair-hex:%s%seven" % (xl, sep), "%x%seven" % (x, sep)))
            for yl, y in ys:
                if xl in ("Gx", "0", "nopoint", "p+1") or yl == "Gy":
                    out.append(("numeric", "pair:%s%s%s" % (xl, sep, yl), "%d%s%d" % (x, sep, y)))
        out.append(("numeric", "pair-hex:G" + sep, "%x%s%x" % (R.GX, sep, R.GY)))
        out.append(("numeric", "pair:G-alias-x+p" + sep, "%d%s%d" % (R.GX + R.P, sep, R.GY)))
        out.append(("numeric", "pair:G-alias-y+p" + sep, "%d%s%d" % (R.GX, sep, R.GY + R.P)))
        out.append(("numeric", "pair:G-alias-x-p" + sep, "%d%s%d" % (R.GX - R.P, sep, R.GY)))
        out.append(("numeric", "pair:G-alias-x-p-even" + sep, "%d%seven" % (R.GX - R.P, sep)))
        out.append(("numeric", "pair:G-alias-y-p" + sep, "%d%s%d" % (R.GX, sep, R.GY - R.P)))
        out.append(("numeric", "pair:three-parts" + sep, "%d%s%d%s1" % (R.GX, sep, R.GY, sep)))
        out.append(("numeric", "pair:empty-x" + sep, "%s%d" % (sep, R.GY)))
    out.append(("numeric", "pair:both-separators", "%d/%d,%d" % (R.GX, R.GY, 1)))
    out.append(("numeric", "pair:comma-then-slash", "%d,%d/even" % (R.GX, R.GY)))
    # junk
    junk = [("empty", ""), ("space", " "), ("newline", "\n"), ("tab", "\t"), ("nul", "\x00"), ("nul-inside", "1\x0011"), ("e-acute", "é"),
            ("snowman", "☃"), ("astral", "\U0001d7d9"), ("bom", "﻿"), ("rtl", "‮1"), ("b58-with-space", "1A1zP1eP5QGefi2DMPTfTL5SLmv7DivfNa "),
            ("b58-with-newline", "1A1zP1eP5QGefi2DMPTfTL5SLmv7DivfNa\n"), ("b58-0OIl", "0OIl"), ("1", "1"), ("11", "11"), ("1111", "1111"),
            ("3QJmnh", "3QJmnh"), ("one-b58-char", "z"), ("bech32-sep-only", "1"), ("bech32-nohrp", "1qqqqqqqq"), ("bech32-empty-data", "bc1gmk9yu"),
            ("bech32-bip173-valid-nonsegwit", "a12uel5l"), ("opcode", "OP_DUP"), ("script-text", "OP_DUP OP_HASH160 [%s] OP_EQUALVERIFY OP_CHECKSIG" % ("11" * 20)),
            ("script-bad", "OP_FOO"), ("script-quote", "'abc'"), ("script-unbalanced", "[abc"), ("script-int", "-1 0 16 17"),
            ("hex-32-bytes", "ab" * 32), ("hex-20-bytes", "ab" * 20),
            # Python strings may hold lone surrogates (not encodable as UTF-8)
            ("lone-surrogate", "\ud800"), ("P:lone-surrogate", "P:\ud800"), ("H:lone-surrogate", "H:\udfff"), ("E:lone-surrogate", "E:\ud800"),
            ("b58+lone-surrogate", "1A1zP1eP5QGefi2DMPTfTL5SLmv7DivfNa\udc80"), ("lone-surrogate-pair-reversed", "\udc00\ud800")]
    # Base58 decoding in pycoin is quadratic in the length: strings made only of Base58 characters are kept at
    # NB characters (0.3 s per decode at 2*10^4), strings that fail at an early character or decode linearly at NL
    main = code in ("BTC", "POLIS", "GRS")
    NB = 5000 if (tier == "quick" or not main) else 20000
    NL = 10 ** 4 if tier == "quick" else 10 ** 5
    for lab, t in junk:
        out.append(("junk", lab, t))
    if main or tier != "quick":
        for lab, t in (("long-ones", "1" * NL), ("long-z", "z" * NB), ("long-nines", "9" * NB), ("long-hex", "ab" * (NB // 2)),
                       ("long-q", "bc1" + "q" * NB), ("long-0", "0" * NL), ("long-colon", "H:" + "00" * (NL // 2)), ("long-P", "P:" + "x" * NL),
                       ("long-pair", "%s/%s" % ("1" * (NL // 2), "1" * (NL // 2))), ("long-spaces", " " * NL)):
            out.append(("junk", "%s:%d" % (lab, len(t)), t))
    return out


class Text(_Base):
    id = "C18.text"
    rule = ("network x {colon forms H: P: E: <SYM>SEC: and unknown tags x hex payload lengths / non-hex; numeric forms "
            "(decimal, hex, x/y, x,y, x/even|odd over x classes); empty, whitespace, control, non-ASCII and 10^4..10^5 "
            "character strings} x 31 entry points; non-trivial = an object was returned or an exception escaped")

    def __init__(self, tier, seed):
        Driver.__init__(self, tier, seed)
        g = text_grid("BTC", tier, seed)
        self.bound = dict(networks=len(NETS), entry_points=EPS, strings_per_network=len(g),
                          groups={k: sum(1 for x in g if x[0] == k) for k in ("colon", "numeric", "junk")},
                          long_strings="quick: 10^4 / 5*10^3 all-Base58 characters on BTC, POLIS, GRS; thorough: 10^5 on all networks, all-Base58 strings 2*10^4 (BTC, POLIS, GRS) or 5*10^3")

    def units(self):
        for code in NETS:
            for group in ("colon", "numeric", "junk"):
                yield dict(net=code, group=group)

    def execute(self, unit):
        code = unit["net"]
        for group, label, text in text_grid(code, self.tier, self.seed):
            if group != unit["group"]:
                continue
            yield from self.emit(code, group, dict(form=label), text)

    def nontrivial(self, cls):
        return not cls.startswith("trivial")


# ------------------------------------------------------------------------------------------ shared cache

def cache_strings(code, seed):
    p = R.NETWORK_PARAMS[code]
    k = seed_int(seed, "c18.key", 3, R.N - 2)
    out = []
    h = fill("ramp", 20)
    for f in R.B58_FIELDS:
        if p[f] is None:
            continue
        if f in ("address", "p2sh"):
            out.append((f, R.b58check_encode(p[f] + h)))
            out.append((f + ":21", R.b58check_encode(p[f] + h + b"\0")))
        elif f == "wif":
            out.append((f, R.b58check_encode(p[f] + k.to_bytes(32, "big") + b"\x01")))
            out.append((f + ":0", R.b58check_encode(p[f] + bytes(32))))
        else:
            key = (b"\0" + k.to_bytes(32, "big")) if f.endswith("prv") else R.sec((R.GX, R.GY))
            out.append((f, R.b58check_encode(p[f] + b"\0" + bytes(8) + bytes(range(32)) + key)))
    if p["hrp"]:
        out.append(("p2wpkh", R.segwit_encode(p["hrp"], 0, h)))
        out.append(("p2tr", R.segwit_encode(p["hrp"], 1, fill("ramp", 32))))
    out += [("E:prv", "E:%064x" % k), ("E:prv0", "E:" + "00" * 32), ("H:seed", "H:0011"), ("P:seed", "P:x"), ("sec", R.sec((R.GX, R.GY)).hex()),
            ("pair", "%d/even" % R.GX), ("pair-nopoint", "5/odd"), ("dec", "%d" % k), ("hex", "%x" % k), ("script", "OP_1 OP_2"),
            ("junk", "zzz"), ("bad-b58-char", "0OIl"), ("colon-only", ":")]
    return out


class Cache(Driver):
    id = "C18.cache"
    rule = ("one shared parseable_str instance: every ordered pair (e1, e2) of the 31 entry points on representative "
            "strings, and cross-network pairs (A.e, B.e); e2's result must equal its result on a fresh str; "
            "non-trivial = e2 returns an object or raises")

    def __init__(self, tier, seed):
        Driver.__init__(self, tier, seed)
        self.nets = ["BTC", "POLIS", "GRS"] if tier == "quick" else ["BTC", "POLIS", "GRS", "LTC", "ZEC", "CHC", "XTN", "DCR", "DOGE"]
        self.xnets = [("BTC", "LTC"), ("LTC", "BTC"), ("BTC", "GRS"), ("GRS", "BTC"), ("BTC", "BCH"), ("XTN", "XRT"), ("CHC", "ZEC"), ("ZEC", "CHC"),
                      # networks that share a network_name (a cache keyed by the name alone would mix them up)
                      ("BTC", "XTN"), ("XTN", "BTC"), ("BTC", "XRT"), ("XRT", "BTC"), ("LTC", "XLT"), ("XLT", "LTC"), ("BCH", "XCH"),
                      ("DASH", "TDASH"), ("DCR", "DCRT"), ("DCRT", "DCR"), ("ZEC", "TZEC"), ("DOGE", "XDT")]
        if tier == "thorough":
            self.xnets += [("BTG", "XTG"), ("BTX", "TBTX"), ("CHC", "TCHC"), ("FTC", "FTX"), ("MONA", "TMONA"), ("PIVX", "TPIVX"), ("STAK", "TSTAK"),
                           ("VIA", "TVI"), ("XCH", "BCH"), ("TDASH", "DASH"), ("TZEC", "ZEC"), ("XDT", "DOGE")]
        self.xeps = ["address", "wif", "bip32", "sec", "__call__"]
        self.bound = dict(networks=self.nets, entry_point_pairs=len(EPS) ** 2, strings=[l for l, t in cache_strings("BTC", seed)],
                          cross_network_pairs=["%s->%s" % p for p in self.xnets], cross_network_entry_points=self.xeps)

    def units(self):
        for code in self.nets:
            for e1 in EPS:
                yield dict(part="pair", net=code, e1=e1)
        for a, b in self.xnets:
            yield dict(part="xnet", a=a, b=b)

    def execute(self, unit):
        if unit["part"] == "pair":
            code = unit["net"]
            for label, text in cache_strings(code, self.seed):
                for e2 in EPS:
                    case = dict(axes=dict(part="pair", net=code, e1=unit["e1"], e2=e2, string=label), data=dict(text=text))
                    yield case, self.run(case)
        else:
            a, b = unit["a"], unit["b"]
            for label, text in cache_strings(a, self.seed) + cache_strings(b, self.seed):
                for e1 in self.xeps:
                    for e2 in self.xeps:
                        case = dict(axes=dict(part="xnet", net=a, net2=b, e1=e1, e2=e2, string=label), data=dict(text=text))
                        yield case, self.run(case)

    def run(self, case):
        ax = case["axes"]
        a = ax["net"]
        b = ax.get("net2", a)
        text = case["data"]["text"]
        try:
            from pycoin.networks.parseable_str import parseable_str
            ps = parseable_str(text)
        except Exception as e:
            return BAD("exception", "parseable_str constructed", "EXC %s %s" % (type(e).__name__, e), clause="cache:construct")
        first = result_key(pcall(a, ax["e1"], ps))
        second = result_key(pcall(b, ax["e2"], ps))
        fresh = result_key(pcall(b, ax["e2"], str(text)))
        if second != fresh:
            return BAD("cache-differs", "%s.%s(fresh str) -> %s" % (b, ax["e2"], show(fresh)),
                       "after %s.%s on the shared parseable_str -> %s" % (a, ax["e1"], show(second)), n=3, clause="cache-history", kind=ax["e2"])
        if fresh[0] == "exc":
            return OK("same:raises", n=3)       # the exception itself is C18.b58 / C18.text's finding
        if fresh[1] is None:
            return OK("trivial-same:none" if first[1] is None or first[0] == "exc" else "same:none-after-object", n=3)
        return OK("same:object", n=3)


DRIVERS = [B58, Bech32, Text, Cache]

ASSUMPTIONS = [
    "'all unicode strings' is explored through the stated string grid (which includes strings with lone surrogates)",
    "a network's prefixes are those of the pinned table vf/ref/addr.py (checked against the tree by C08.params)",
    "equality of parsed objects = class family, secret exponent, public pair, compression flag, and for extended keys chain code, "
    "depth, parent fingerprint and child index; for contracts the script bytes and reported type",
    "'re-serialises to text that parses to an equal object' is accepted through the same entry point, the catch-all parse(), or the "
    "parser of the object's own kind; text forms tried: address()/disassemble() for contracts, wif() or as_text() for keys, hwif() for "
    "extended keys",
    "numeric, colon and script text forms carry no checksum: for them only totality, re-serialisation and cache independence are "
    "demanded; what they accept is recorded as outcome classes",
    "GRS-family Base58 (groestl checksum) cannot be produced by the reference; those networks are explored for totality only",
]


def CONFIGURATIONS():
    absent = {}
    if not have_groestl():
        absent["groestlcoin_hash"] = ("not installed: on %s pycoin stubs hierarchical_key/private_key/public_key/address to None and every "
                                      "Base58 parse swallows an ImportError (stdout message suppressed); explored for totality only"
                                      % ", ".join(R.GRS_FAMILY))
    return dict(networks=len(NETS), entry_points=len(EPS), absent=absent)
