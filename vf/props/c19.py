"""C19 - hash primitives give standard digests in every configuration (Mode I, two configurations;
Mode S for Bloom-filter insertion orders).

Drivers
  C19.digests      native configuration (this process): contrib.ripemd160 (always the bundled pure-Python
                   code), encoding.hash.ripemd160 (asserted to resolve to hashlib), hash160, double_sha256
  C19.fallback     the same message grid evaluated by a child interpreter started with
                   PYCOIN_USE_PYTHON_RIPEMD160=1; the child reports what pycoin.encoding.hash.ripemd160
                   resolved to (must be the bundled implementation) and its digests
  C19.murmur       murmur3(data, seed) against MurmurHash3_x86_32 with the seed reduced mod 2^32
  C19.bloom        BloomFilter histories: every sequence of <= 3 insertions x size x function count x tweak
"""
import hashlib
import itertools
import json
import os
import subprocess
import sys

from ..engine import Driver, OK, BAD, ModelInvalid, seed_bytes, VERIF
from ..ref import ripemd160 as refrmd
from ..ref import murmur3 as refmm

BOUNDARY_LENGTHS = (55, 56, 57, 63, 64, 65, 119, 120, 121, 127, 128, 129, 183, 184, 191, 192, 193)
FILLS = ("00", "ff", "counter", "a5")


def make_msg(length, fill):
    if fill == "counter":
        return bytes(i & 0xFF for i in range(length))
    return bytes([int(fill, 16)]) * length


def msg_of_case(case):
    if "hex" in case:
        return bytes.fromhex(case["hex"])
    return make_msg(int(case["length"]), case["fill"])


def message_units(tier, generic):
    """work units (lists of cases); a case is {"hex": ...} for short messages or {"length", "fill"}"""
    yield [dict(hex="")]
    yield [dict(hex="%02x" % a) for a in range(256)]
    for a in range(256):
        yield [dict(hex="%02x%02x" % (a, b)) for b in range(256)]
    top = 300 if tier == "quick" else 2000
    lengths = sorted(set(list(range(3, top + 1)) + list(BOUNDARY_LENGTHS)))
    chunk = 25
    for i in range(0, len(lengths), chunk):
        yield [dict(length=ln, fill=f) for ln in lengths[i:i + chunk] for f in FILLS]
    # a "generic" message per padding boundary (seed-selected content)
    yield [dict(hex=seed_bytes(generic, "c19.msg.%d" % ln, ln).hex()) for ln in BOUNDARY_LENGTHS]
    if tier != "quick":
        for f in FILLS:
            yield [dict(length=10 ** 6, fill=f)]
        yield [dict(length=ln, fill="counter") for ln in (65535, 65536, 100000)]


def expected(msg):
    sha = hashlib.sha256(msg).digest()
    return dict(ripemd160=refrmd.ripemd160(msg).hex(), hash160=refrmd.ripemd160(sha).hex(),
                double_sha256=hashlib.sha256(sha).digest().hex())


def compare(exp, got, resolved_ok, resolved):
    """got: dict name -> hex or 'EXC ...' from the implementation"""
    if not resolved_ok:
        return BAD("wrong-implementation-selected", "see configuration", "ripemd160 resolved to %s" % resolved,
                   clause="selection")
    for name, want in (("contrib", exp["ripemd160"]), ("ripemd160", exp["ripemd160"]), ("hash160", exp["hash160"]),
                       ("double_sha256", exp["double_sha256"])):
        g = got.get(name)
        if g != want:
            return BAD("digest-differs:%s" % name, "%s=%s" % (name, want), "%s=%s" % (name, g), n=4, clause=name)
        # the same message handed over as a bytearray the caller goes on using: same digest (a TypeError would mean the type
        # is not supported, which is outside the property), and the caller's buffer is left alone
        g = got.get(name + "[bytearray]")
        if g is not None and g != want and not g.startswith("EXC TypeError"):
            return BAD("digest-differs:%s" % name, "%s(bytearray)=%s" % (name, want), "%s=%s" % (name, g), n=8, clause=name + ":bytearray")
    if got.get("buffer-after") not in (None, "unchanged"):
        return BAD("argument-mutated", "the caller's bytearray is unchanged after hashing", "buffer is now %s" % got["buffer-after"][:120], n=8,
                   clause="argument-mutated")
    return None


def length_class(n):
    if n <= 2:
        return "short<=2"
    r = n % 64
    if r in (55, 56, 57):
        return "pad-boundary-%d" % r
    if r in (63, 0, 1):
        return "block-boundary-%d" % r
    return "one-pad-block" if r < 56 else "two-pad-blocks"


def impl_digests(mod_hash, mod_contrib, msg):
    """all pycoin calls for one message, each wrapped"""
    out = {}
    for name, f in (("contrib", lambda: mod_contrib.ripemd160(msg)),
                    ("ripemd160", lambda: mod_hash.ripemd160(msg).digest()),
                    ("hash160", lambda: mod_hash.hash160(msg)),
                    ("double_sha256", lambda: mod_hash.double_sha256(msg))):
        try:
            v = f()
            out[name] = bytes(v).hex() if isinstance(v, (bytes, bytearray)) else "NOT-BYTES %r" % (v,)
        except Exception as e:
            out[name] = "EXC %s: %s" % (type(e).__name__, e)
    buf = bytearray(msg)
    for name, f in (("contrib", lambda: mod_contrib.ripemd160(buf)),
                    ("ripemd160", lambda: mod_hash.ripemd160(buf).digest()),
                    ("hash160", lambda: mod_hash.hash160(buf)),
                    ("double_sha256", lambda: mod_hash.double_sha256(buf))):
        try:
            v = f()
            out[name + "[bytearray]"] = bytes(v).hex() if isinstance(v, (bytes, bytearray)) else "NOT-BYTES %r" % (v,)
        except Exception as e:
            out[name + "[bytearray]"] = "EXC %s: %s" % (type(e).__name__, e)
    out["buffer-after"] = "unchanged" if bytes(buf) == bytes(msg) else "%d bytes: %s" % (len(buf), bytes(buf).hex())
    return out


class Digests(Driver):
    id = "C19.digests"
    rule = ("every message of length <= 2, every length 3..L x 4 fills, padding boundaries; native configuration; "
            "non-trivial = message longer than 2 bytes or at a padding/block boundary")
    config = "native"

    def __init__(self, tier, seed):
        Driver.__init__(self, tier, seed)
        self.bound = dict(all_messages_up_to_len=2, lengths="3..%d" % (300 if tier == "quick" else 2000),
                          fills=list(FILLS), boundaries=list(BOUNDARY_LENGTHS),
                          long=[] if tier == "quick" else [65535, 65536, 100000, 10 ** 6], configuration=self.config)

    def units(self):
        return message_units(self.tier, self.seed)

    def _eval(self, msgs):
        """-> list of (resolved_ok, resolved, digests) for this configuration"""
        try:
            import pycoin.encoding.hash as H
            import pycoin.contrib.ripemd160 as C
            resolved = "%s.%s" % (getattr(H.ripemd160, "__module__", "?"), getattr(H.ripemd160, "__qualname__", "?"))
        except Exception as e:
            return [(False, "EXC %s: %s" % (type(e).__name__, e), {})] * len(msgs)
        ok = resolved == "pycoin.encoding.hash.ripemd160_native"
        return [(ok, resolved, impl_digests(H, C, m)) for m in msgs]

    def execute(self, unit):
        msgs = [msg_of_case(c) for c in unit]
        res = self._eval(msgs)
        for case, msg, (rok, resolved, got) in zip(unit, msgs, res):
            bad = compare(expected(msg), got, rok, resolved)
            yield case, bad or OK(length_class(len(msg)), n=4)

    def run(self, case):
        for _, out in self.execute([case]):
            return out

    def nontrivial(self, cls):
        return cls != "short<=2"

    def selfcheck(self):
        n, bad = refrmd.selfcheck(million=self.tier != "quick")
        if bad:
            raise ModelInvalid("ref ripemd160: %s" % bad[:3])
        if not refrmd.native_available():
            raise ModelInvalid("hashlib ripemd160 unavailable: native configuration cannot be exercised")
        return n


# ---------------------------------------------------------------- fallback configuration (child interpreter)
CHILD_CODE = r"""
import sys, json
try:
    import pycoin, pycoin.encoding.hash as H, pycoin.contrib.ripemd160 as C
    resolved = "%s.%s" % (getattr(H.ripemd160, "__module__", "?"), getattr(H.ripemd160, "__qualname__", "?"))
    where = pycoin.__file__
    err = None
except Exception as e:
    err = "EXC %s: %s" % (type(e).__name__, e)
def one(name, f):
    try:
        v = f()
        return bytes(v).hex() if isinstance(v, (bytes, bytearray)) else "NOT-BYTES %r" % (v,)
    except Exception as e:
        return "EXC %s: %s" % (type(e).__name__, e)
for line in sys.stdin:
    req = json.loads(line)
    if err:
        print(json.dumps(dict(error=err))); sys.stdout.flush(); continue
    out = []
    for spec in req:
        if "hex" in spec:
            m = bytes.fromhex(spec["hex"])
        elif spec["fill"] == "counter":
            m = bytes(i & 255 for i in range(spec["length"]))
        else:
            m = bytes([int(spec["fill"], 16)]) * spec["length"]
        d = dict(contrib=one("c", lambda: C.ripemd160(m)), ripemd160=one("r", lambda: H.ripemd160(m).digest()),
                 hash160=one("h", lambda: H.hash160(m)), double_sha256=one("d", lambda: H.double_sha256(m)))
        buf = bytearray(m)
        d["contrib[bytearray]"] = one("c", lambda: C.ripemd160(buf))
        d["ripemd160[bytearray]"] = one("r", lambda: H.ripemd160(buf).digest())
        d["hash160[bytearray]"] = one("h", lambda: H.hash160(buf))
        d["double_sha256[bytearray]"] = one("d", lambda: H.double_sha256(buf))
        d["buffer-after"] = "unchanged" if bytes(buf) == m else "%d bytes: %s" % (len(buf), bytes(buf).hex())
        out.append(d)
    print(json.dumps(dict(resolved=resolved, where=where, env=__import__("os").environ.get("PYCOIN_USE_PYTHON_RIPEMD160"), out=out)))
    sys.stdout.flush()
"""

_children = {}


def child():
    """one child interpreter per (worker) process, started with PYCOIN_USE_PYTHON_RIPEMD160=1"""
    pid = os.getpid()
    p = _children.get(pid)
    if p is None or p.poll() is not None:
        env = dict(os.environ, PYCOIN_USE_PYTHON_RIPEMD160="1", PYTHONHASHSEED="0")
        p = subprocess.Popen([sys.executable, "-c", CHILD_CODE], stdin=subprocess.PIPE, stdout=subprocess.PIPE,
                             env=env, cwd=VERIF, text=True)
        _children.clear()
        _children[pid] = p
    return p


def ask_child(specs):
    p = child()
    p.stdin.write(json.dumps(specs) + "\n")
    p.stdin.flush()
    line = p.stdout.readline()
    if not line:
        return dict(error="child interpreter died (exit %r)" % p.poll())
    return json.loads(line)


class Fallback(Digests):
    id = "C19.fallback"
    rule = ("the C19.digests grid evaluated in an interpreter started with PYCOIN_USE_PYTHON_RIPEMD160=1, after "
            "checking that pycoin.encoding.hash.ripemd160 resolved to the bundled pure-Python class")
    config = "PYCOIN_USE_PYTHON_RIPEMD160=1"

    def _eval(self, msgs_unused):
        raise NotImplementedError

    def execute(self, unit):
        rep = ask_child(unit)
        for i, case in enumerate(unit):
            msg = msg_of_case(case)
            if "error" in rep:
                yield case, BAD("child-failed", "pycoin importable with the fallback selected", rep["error"], clause="child")
                continue
            ok = rep["resolved"] == "pycoin.encoding.hash._PurePythonRIPEMD160" and rep["env"] == "1"
            bad = compare(expected(msg), rep["out"][i], ok, rep["resolved"])
            yield case, bad or OK(length_class(len(msg)), n=4)

    def selfcheck(self):
        rep = ask_child([dict(hex="616263")])
        if "error" in rep:
            return 0        # reported as a disagreement by the exploration, not as a model problem
        import pycoin
        if os.path.dirname(rep["where"]) != os.path.dirname(pycoin.__file__):
            raise ModelInvalid("child interpreter imports a different pycoin: %s vs %s" % (rep["where"], pycoin.__file__))
        return 1


# ---------------------------------------------------------------- murmur3
def seed_alphabet(tier):
    base = [0, 1, 2 ** 31 - 1, 2 ** 31, 2 ** 32 - 1, 2 ** 32, 2 ** 32 + 1, -1, 0x5082EDEE, 2 ** 64 + 5, -(2 ** 32) - 3]
    kmax = 50
    bip37 = [k * 0xFBA4C795 + t for k in range(0, kmax + 1) for t in (0, 1, 2 ** 32 - 1)]
    out = []
    for s in base + bip37:
        if s not in out:
            out.append(s)
    return out


SEEDSETS = {"full": None, "special": None}


def seedset(name):
    if SEEDSETS[name] is None:
        full = seed_alphabet("thorough")
        SEEDSETS["full"] = full
        SEEDSETS["special"] = full[:11] + [k * 0xFBA4C795 + t for k in (1, 2, 49, 50) for t in (0, 1, 2 ** 32 - 1)]
    return SEEDSETS[name]


class Murmur(Driver):
    id = "C19.murmur"
    rule = ("every input of length <= 2 and lengths 3..40 x 4 fills, each under every seed of the seed alphabet "
            "(32-bit edges, wider, negative, BIP37 products k*0xFBA4C795+t); one case = one input under the whole "
            "seed set; non-trivial = input with a tail (length % 4 != 0) or seed outside 0..2^32-1")

    def __init__(self, tier, seed):
        Driver.__init__(self, tier, seed)
        self.short_set = "special" if tier == "quick" else "full"
        self.maxlen = 40 if tier == "quick" else 260
        self.bound = dict(all_inputs_up_to_len=2, lengths="3..%d" % self.maxlen, fills=list(FILLS),
                          seeds_for_len2_grid=len(seedset(self.short_set)), seeds_for_other=len(seedset("full")))

    def units(self):
        yield [dict(hex="", seedset="full")]
        yield [dict(hex="%02x" % a, seedset="full") for a in range(256)]
        for a in range(256):
            yield [dict(hex="%02x%02x" % (a, b), seedset=self.short_set) for b in range(256)]
        for ln in range(3, self.maxlen + 1):
            yield [dict(length=ln, fill=f, seedset="full") for f in FILLS]
        yield [dict(hex=seed_bytes(self.seed, "c19.mm.%d" % ln, ln).hex(), seedset="full") for ln in range(1, 41)]

    def execute(self, unit):
        for case in unit:
            yield case, self.run(case)

    def run(self, case):
        msg = msg_of_case(case)
        seeds = case["seeds"] if "seeds" in case else seedset(case["seedset"])
        try:
            from pycoin.bloomfilter import murmur3
        except Exception as e:
            return BAD("import", "importable", "EXC %s: %s" % (type(e).__name__, e), clause="import")
        for s in seeds:
            s = int(s)
            want = refmm.murmur3_32(msg, s)
            try:
                got = murmur3(msg, s)
            except Exception as e:
                got = "EXC %s: %s" % (type(e).__name__, e)
            if got != want or isinstance(got, bool):
                return BAD("murmur-differs", "murmur3(%s, %d) = %d" % (msg.hex()[:80], s, want), "%r" % (got,),
                           n=len(seeds), clause="murmur3", seed=str(s), length=len(msg))
        return OK("len%%4=%d" % (len(msg) % 4) + ("" if len(msg) >= 4 else "-noblock"), n=len(seeds))

    def nontrivial(self, cls):
        return not cls.startswith("len%4=0")

    def selfcheck(self):
        extra = []
        try:
            import re
            src = open("/repo/tests/bloomfilter_test.py").read()
            for hx, sd, ex in re.findall(r'\(\s*h2b\("([0-9A-Fa-f]*)"\),\s*(0x[0-9A-Fa-f]+|\d+),\s*(0x[0-9A-Fa-f]+|\d+)', src):
                extra.append((hx, int(sd, 0), int(ex, 0)))
        except OSError:
            pass
        n, bad = refmm.selfcheck(extra)
        if bad:
            raise ModelInvalid("ref murmur3: %s" % bad[:3])
        return n


# ---------------------------------------------------------------- bloom filter histories
def bloom_items(seed):
    h160 = bytes.fromhex("751e76e8199196d454941c45d1b3a323f1433bd6")
    txh = bytes.fromhex("79be667ef9dcbbac55a06295ce870b07029bfcdb2dce28d959f2815b16f81798")
    return {
        "empty": ("item", ""),
        "byte0": ("item", "00"),
        "h160": ("hash160", h160.hex()),
        "addr": ("address", h160.hex()),            # the same 20 bytes through add_address (base58 text)
        "addr2": ("address2", h160.hex()),          # ... through the address text of a network with a TWO-byte version prefix
        "spend1": ("spendable", txh.hex(), 1),
        "spendmax": ("spendable", seed_bytes(seed, "c19.bloom.txhash", 32).hex(), 2 ** 32 - 1),
    }


def item_bytes(item):
    """the element BIP37 hashes: raw data, 20-byte hash, or 32-byte tx hash || LE32 output index"""
    if item[0] == "spendable":
        return bytes.fromhex(item[1]) + int(item[2]).to_bytes(4, "little")
    return bytes.fromhex(item[1])


class Bloom(Driver):
    id = "C19.bloom"
    rule = ("state = BloomFilter after a history of insertions; every sequence (with repetition) of <= 3 items from a "
            "7-item alphabet x sizes x hash-function counts x tweaks; after every insertion filter_bytes must equal "
            "the BIP37 filter of the inserted set and every prescribed bit must test true; non-trivial = >= 2 "
            "insertions")

    def __init__(self, tier, seed):
        Driver.__init__(self, tier, seed)
        self.sizes = [1, 2, 3, 8, 36000]
        self.nfuncs = [1, 2, 11, 50]
        self.tweaks = [0, 1, 2 ** 31, 2 ** 32 - 1] + ([] if tier == "quick" else [2 ** 32, 2 ** 32 + 5, 127])
        self.names = ["empty", "byte0", "h160", "addr", "addr2", "spend1", "spendmax"]
        self.maxlen = 3
        self.bound = dict(sizes=self.sizes, hash_function_counts=self.nfuncs, tweaks=self.tweaks, items=self.names,
                          max_insertions=self.maxlen, histories_per_parameter_point=sum(7 ** k for k in range(0, 4)))

    def units(self):
        # one unit = one (size, count): all tweaks are explored inside it, in one process
        for size in self.sizes:
            for nf in self.nfuncs:
                yield dict(size=size, nfuncs=nf)

    def execute(self, unit):
        items = bloom_items(self.seed)
        for tw in self.tweaks:
            for ln in range(0, self.maxlen + 1):
                for seq in itertools.product(self.names, repeat=ln):
                    case = dict(size=unit["size"], nfuncs=unit["nfuncs"], tweak=tw, history=[list(items[x]) for x in seq])
                    yield case, self.run(case)

    def run(self, case):
        size, nf, tw = int(case["size"]), int(case["nfuncs"]), int(case["tweak"])
        hist = [tuple(h) for h in case["history"]]
        step = -1
        try:
            from pycoin.bloomfilter import BloomFilter
            from pycoin.symbols.btc import network
            # a second filter with the same hash-function count and another tweak is created and used first: the
            # filter under test must not be influenced by it (state shared between instances)
            decoy = BloomFilter(size, hash_function_count=nf, tweak=(tw ^ 0x5A5A5A5A) & 0xFFFFFFFF)
            decoy.add_item(b"decoy")
            bf = BloomFilter(size, hash_function_count=nf, tweak=tw)
            done = []
            ncalls = 0
            for step, it in enumerate(hist):
                raw = item_bytes(it)
                if it[0] == "item":
                    bf.add_item(raw)
                elif it[0] == "hash160":
                    bf.add_hash160(raw)
                elif it[0] == "address":
                    bf.add_address(refaddr(raw))
                elif it[0] == "address2":
                    bf.add_address(refaddr(raw, b"\x1c\xb8"))      # Zcash t-address prefix
                else:
                    bf.add_spendable(network.tx.Spendable(1000, b"\x51", bytes.fromhex(it[1]), int(it[2])))
                done.append(raw)
                want = refmm.bip37_filter(done, size, nf, tw)
                got = bytes(bf.filter_bytes)
                ncalls += 1
                if got != want:
                    return BAD("filter-differs", "after %d insertions filter=%s" % (step + 1, short(want)),
                               "filter=%s" % short(got), n=ncalls, clause="filter-bytes", step=step, kind=it[0])
                for d in done:
                    for pos in refmm.bip37_positions(d, size, nf, tw):
                        if bf.check_bit(pos) is not True:
                            return BAD("bit-not-set", "bit %d set for an inserted element" % pos, "check_bit false",
                                       n=ncalls, clause="check-bit", step=step)
                    if not refmm.bip37_contains(got, d, nf, tw):
                        return BAD("peer-no-match", "a BIP37 peer matches every inserted element", "not matched",
                                   n=ncalls, clause="peer-match", step=step)
            params = bf.filter_load_params()
            if (bytes(params[0]), params[1], params[2]) != (refmm.bip37_filter(done, size, nf, tw), nf, tw):
                return BAD("load-params", "(filter, %d, %d)" % (nf, tw), repr(params[1:]), n=ncalls + 1, clause="load-params")
        except Exception as e:
            return BAD("exception", "no exception", "at insertion %d: EXC %s: %s" % (step, type(e).__name__, e),
                       clause="exception")
        distinct = len(set(done))
        return OK("inserted=%d distinct=%d" % (len(hist), distinct) + (" tweak>=2^32" if tw >= 2 ** 32 else ""), n=ncalls + 1)

    def nontrivial(self, cls):
        return not (cls.startswith("inserted=0") or cls.startswith("inserted=1"))

    def selfcheck(self):
        # tests/bloomfilter_test.py test_BloomFilter: 20 bytes, 5 functions, tweak 127
        it = bloom_items(0)
        got = refmm.bip37_filter([item_bytes(it["h160"]), item_bytes(it["spend1"])], 20, 5, 127)
        if got.hex() != "0000400000000008011130000000101100000000":
            raise ModelInvalid("ref bip37 filter differs from the vector in tests/bloomfilter_test.py")
        if refaddr(bytes.fromhex("751e76e8199196d454941c45d1b3a323f1433bd6")) != "1BgGZ9tcN4rm9KBzDn7KprQz87SZ26SAMH":
            raise ModelInvalid("base58check address")
        return 2


def short(b):
    h = bytes(b).hex()
    return h if len(h) <= 64 else "%s..(%d bytes, sha256 %s)" % (h[:32], len(b), hashlib.sha256(bytes(b)).hexdigest()[:16])


def refaddr(h160, prefix=b"\x00"):
    from ..ref import bip32 as refb
    return refb.b58check(prefix + h160)


DRIVERS = [Digests, Fallback, Murmur, Bloom]
ASSUMPTIONS = [
    "hashlib's SHA-256 is the standard one (it is the only SHA-256 available and is used by the reference too)",
    "message lengths beyond the stated bound (2 000 bytes and the listed long ones up to 10^6) are not covered",
    "the pycrypto fallback branch of get_best_ripemd160 (Crypto.Hash.RIPEMD) is not installed and not exercised",
]


def CONFIGURATIONS():
    import importlib.util
    return dict(native="hashlib ripemd160 available: %s" % refrmd.native_available(),
                fallback="child interpreter with PYCOIN_USE_PYTHON_RIPEMD160=1 (selection asserted per unit)",
                absent=["Crypto.Hash.RIPEMD (pycrypto)"] if importlib.util.find_spec("Crypto") is None else [])
