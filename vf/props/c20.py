"""C20 - context-free transaction checks accept exactly the well-formed transactions (Mode I).

C20.check   full product: 0..3 inputs with outpoints from a 7-element alphabet (so duplicates occur at every pair of
            positions and the exact null outpoint / its near misses at every position), single-input script lengths
            across the 2 / 100 coinbase bounds, 0..3 outputs with values from a 10-element alphabet around 0 and the
            coin's MAX_MONEY (so totals cross MAX_MONEY only cumulatively and only at the last output), 5 coin classes.
C20.size    witness-stripped size 999 999 / 1 000 000 / 1 000 001 and total size exactly at / over the limit by witness only.

Oracle: vf.ref.wire.check_transaction - reject on every listed defect, accept when defect-free and total size <= 1 000 000,
unconstrained in between.  Also: check() does not modify the transaction; a coinbase has bad_solution_count() == 0;
is_coinbase() = one input with the null outpoint (all-zero hash AND index 2^32-1).
"""
import itertools

from ..engine import Driver, OK, BAD, ModelInvalid, seed_bytes
from ..ref import wire
from .c07 import network, tx_class, patbytes, exc, COINS

U32 = 2 ** 32 - 1
COIN = 100000000
MAX_MONEY = {"BTC": 21000000 * COIN, "LTC": 21000000 * COIN, "BCH": 21000000 * COIN, "BTG": 21000000 * COIN,
             "GRS": 105000000 * COIN}
# LTC: the library's Litecoin class inherits Bitcoin's MAX_MONEY (21M coins); the property speaks of "per-coin MAX_MONEY
# (Groestlcoin differs)" only, so 21M is what is demanded of the LTC class here.

OUTPOINT_LABELS = ("A0", "A1", "B0", "NULL", "Z0", "Amax", "A65536")


def outpoint(label, A, B):
    return {"A0": (A, 0), "A1": (A, 1), "B0": (B, 0), "NULL": ("00" * 32, U32), "Z0": ("00" * 32, 0), "Amax": (A, U32),
            "A65536": (A, 65536)}[label]


def value_alphabet(M):
    return [0, 1, M // 2, M // 2 + 1, M - 1, M, M + 1, 2 ** 63, 2 ** 64 - 1, -1]


def build(T, R):
    ins = []
    for i in R["ins"]:
        ins.append(T.TxIn(i["prev"], i["index"], i["script"], i["sequence"]))
    outs = [T.TxOut(o["value"], o["script"]) for o in R["outs"]]
    tx = T(R["version"], ins, outs, R["lock_time"])
    for k, i in enumerate(R["ins"]):
        if i["witness"]:
            tx.set_witness(k, list(i["witness"]))
    return tx


def snapshot(tx):
    return (tx.version, tx.lock_time, len(tx.txs_in), len(tx.txs_out),
            tuple((id(i), bytes(i.previous_hash), i.previous_index, bytes(i.script), i.sequence, tuple(bytes(w) for w in i.witness)) for i in tx.txs_in),
            tuple((id(o), o.coin_value, bytes(o.script)) for o in tx.txs_out), tuple(tx.unspents))


def judge(code, R, label, P=None):
    """run pycoin on the reference-form transaction R (or on the already built and edited object P that R describes) and
    compare with the reference verdict"""
    M = MAX_MONEY[code]
    verdict, why = wire.check_transaction(R, M)
    ref_cb = wire.is_coinbase(R)
    T = tx_class(code)
    try:
        if P is None:
            P = build(T, R)
        snap0 = snapshot(P)
    except Exception as e:
        return BAD("construct-raises", "transaction constructs", exc(e), clause="construct")
    from pycoin.coins.exceptions import ValidationFailureError
    n = 1
    # a transaction of the Bitcoin class (the base of every other coin class) is checked first: limits must belong to the
    # class of the transaction being checked, not to whichever class was checked first (state kept on the classes)
    for oc in ("BTC",):
        if oc != code:
            try:
                OT = tx_class(oc)
                OT(1, [OT.TxIn(b"\x07" * 32, 0, b"")], [OT.TxOut(1, b"\x51")]).check()
            except Exception:
                pass
    try:
        P.check()
        impl = "accept"
    except ValidationFailureError as e:
        impl = "reject (%s)" % e
    except Exception as e:
        return BAD("check-raises", "%s %s" % (verdict, why), exc(e), clause="check-exception")
    z0 = any(i["prev"] == wire.NULL_HASH and i["index"] != wire.NULL_INDEX for i in R["ins"])
    try:
        snap1 = snapshot(P)
    except Exception as e:
        return BAD("modified", "transaction unchanged by check()", exc(e), clause="check-modifies")
    if snap1 != snap0:
        return BAD("modified", "transaction unchanged by check()", "fields differ after check()", clause="check-modifies")
    if verdict == "reject" and impl == "accept":
        return BAD("accept-vs-reject", "reject %s" % why, impl, clause="check:" + why[0])
    if verdict == "accept" and impl != "accept":
        return BAD("reject-vs-accept", "accept (no listed defect, total size %d)" % wire.total_size(R), impl,
                   clause="null-outpoint-ignores-index" if (z0 and ("prevout is null" in impl or "coinbase script" in impl)) else "check:spurious-reject",
                   site="check")
    try:
        cb = P.is_coinbase()
        n += 1
    except Exception as e:
        return BAD("is-coinbase-raises", repr(ref_cb), exc(e), clause="is-coinbase")
    if bool(cb) != ref_cb:
        return BAD("is-coinbase-differs", "is_coinbase() = %r (one input with outpoint (0^32, 2^32-1))" % ref_cb, repr(cb),
                   clause="null-outpoint-ignores-index" if z0 else "is-coinbase", site="is_coinbase")
    if ref_cb:
        try:
            bad = P.bad_solution_count()
            n += 1
        except Exception as e:
            return BAD("bad-solution-count-raises", "0 for a coinbase", exc(e), clause="coinbase-unsigned")
        if bad != 0:
            return BAD("coinbase-counted-unsigned", "bad_solution_count() == 0 for a coinbase", repr(bad), clause="coinbase-unsigned")
    if verdict == "unconstrained":
        return OK("unconstrained:%s:%s" % (label, impl.split(" ")[0]), n=n)
    if verdict == "accept":
        return OK("accept:%s%s" % (label, ":coinbase" if ref_cb else ""), n=n)
    return OK("reject:" + "+".join(why), n=n)


class Checks(Driver):
    id = "C20.check"
    rule = ("one state = one transaction of one coin class: every tuple of 0..3 outpoints over 7 labels x single-input script "
            "lengths x every tuple of 0..3 output values over 10 boundary values; non-trivial = anything except a plain accept")

    def __init__(self, tier, seed):
        Driver.__init__(self, tier, seed)
        self.A = ("a1" * 32) if seed == 0 else seed_bytes(seed, "c20.A", 32).hex()
        # B differs from A in its last byte only, and from the all-zero hash in one byte (seed 0)
        self.B = self.A[:62] + "%02x" % (int(self.A[62:], 16) ^ 0x80)
        self.nmax_in = 3
        self.nmax_out = 3
        self.out4 = ("BTC", "GRS") if tier == "thorough" else ()
        self.script_lens = [0, 1, 2, 3, 99, 100, 101]
        self.coins = list(COINS)
        self.bound = dict(inputs="0..3 outpoints, full product over %s" % (OUTPOINT_LABELS,), outputs="0..3 values, full product" + (" (0..4 on BTC and GRS)" if self.out4 else ""),
                          values="0,1,M/2,M/2+1,M-1,M,M+1,2^63,2^64-1,-1 (M = MAX_MONEY of the coin)", single_input_script_lengths=self.script_lens,
                          witness="also with a witness on input 0 for <= 1 output", coins=self.coins, A=self.A, B=self.B)

    def units(self):
        for coin in self.coins:
            yield dict(coin=coin, ins=[], script_len=3)
            for n in range(1, self.nmax_in + 1):
                for labels in itertools.product(OUTPOINT_LABELS, repeat=n):
                    for sl in (self.script_lens if n == 1 else [3]):
                        yield dict(coin=coin, ins=list(labels), script_len=sl)

    def execute(self, unit):
        alph = value_alphabet(MAX_MONEY[unit["coin"]])
        base = dict(unit, A=self.A, B=self.B)
        for n in range(0, self.nmax_out + (2 if unit["coin"] in self.out4 else 1)):
            for vals in itertools.product(alph, repeat=n):
                for w in ((0, 1) if (n <= 1 and unit["ins"]) else (0,)):
                    case = dict(base, values=list(vals), witness=w)
                    yield case, self.run(case)

    def run(self, case):
        ins = []
        for k, lab in enumerate(case["ins"]):
            h, idx = outpoint(lab, case["A"], case["B"])
            ins.append({"prev": bytes.fromhex(h), "index": idx, "script": patbytes(int(case["script_len"]), k), "sequence": U32 - k,
                        "witness": [b"\x01\x02"] if (case.get("witness") and k == 0) else []})
        outs = [{"value": int(v), "script": patbytes(2, 30 + k)} for k, v in enumerate(case["values"])]
        R = {"version": 1, "lock_time": 0, "ins": ins, "outs": outs}
        return judge(case["coin"], R, "w" if case.get("witness") else "plain")

    def nontrivial(self, cls):
        return cls != "accept:plain"

    def selfcheck(self):
        try:
            n = wire.selfcheck()
        except ModelInvalid:
            raise
        except Exception as e:
            raise ModelInvalid("vf.ref.wire: %s: %s" % (type(e).__name__, e))
        # hand-written boundary table for the reference check (values in satoshi, Bitcoin MAX_MONEY)
        M = 21 * 10 ** 14
        A = b"\xa1" * 32

        def tx(ins, vals):
            return {"version": 1, "lock_time": 0, "ins": [{"prev": p, "index": i, "script": b"\x51" * sl, "sequence": 0, "witness": []} for p, i, sl in ins],
                    "outs": [{"value": v, "script": b""} for v in vals]}
        Z = bytes(32)
        table = [
            (tx([(A, 0, 0)], [M]), "accept"), (tx([(A, 0, 0)], [M + 1]), "reject"), (tx([(A, 0, 0)], [M, 0]), "accept"),
            (tx([(A, 0, 0)], [M, 1]), "reject"), (tx([(A, 0, 0)], [M - 1, 1]), "accept"), (tx([(A, 0, 0)], [1, M - 1, 1]), "reject"),
            (tx([(A, 0, 0)], [-1]), "reject"), (tx([(A, 0, 0)], []), "reject"), (tx([], [1]), "reject"),
            (tx([(A, 0, 0), (A, 0, 0)], [1]), "reject"), (tx([(A, 0, 0), (A, 1, 0)], [1]), "accept"),
            (tx([(A, 0, 0), (A, 1, 0), (A, 0, 0)], [1]), "reject"),
            (tx([(Z, U32, 1)], [1]), "reject"), (tx([(Z, U32, 2)], [1]), "accept"), (tx([(Z, U32, 100)], [1]), "accept"),
            (tx([(Z, U32, 101)], [1]), "reject"), (tx([(Z, U32, 50), (A, 0, 0)], [1]), "reject"), (tx([(A, 0, 0), (Z, U32, 50)], [1]), "reject"),
            (tx([(Z, 0, 0)], [1]), "accept"), (tx([(A, U32, 0)], [1]), "accept"), (tx([(Z, 0, 0), (A, 0, 0)], [1]), "accept"),
        ]
        for t, want in table:
            if wire.check_transaction(t, M)[0] != want:
                raise ModelInvalid("reference CheckTransaction: %r should be %s" % (t, want))
            n += 1
        return n


def find_script_len(target, make):
    """script length L such that stripped_size(make(L)) == target"""
    L = target
    for _ in range(6):
        s = wire.stripped_size(make(L))
        if s == target:
            return L
        L -= s - target
    raise ModelInvalid("cannot hit stripped size %d" % target)


class Sizes(Driver):
    id = "C20.size"
    rule = ("one state = one transaction whose witness-stripped / total size sits at 999 999, 1 000 000 or 1 000 001 bytes via one "
            "large script (input, output, or coinbase output) with or without witness data, and with input / output counts on both sides of "
            "the compact-size boundaries 252/253 and 65535/65536; all are non-trivial")

    def __init__(self, tier, seed):
        Driver.__init__(self, tier, seed)
        self.coins = list(COINS) if tier == "thorough" else ["BTC", "GRS", "LTC"]
        self.bound = dict(stripped_targets=[999000, 999991, 999992, 999999, 1000000, 1000001], witness=["none", "w5 (9 bytes in total)", "w2000"],
                          where=["in", "out", "coinbase-out", "252/253 inputs", "252/253 outputs", "300 inputs + 300 outputs", "65535/65536 outputs (BTC)"],
                          coins=self.coins)

    def units(self):
        for coin in self.coins:
            for where in ("in", "out", "coinbase-out"):
                for target in (999000, 999991, 999992, 999999, 1000000, 1000001):
                    for wit in ("none", "w5", "w2000"):
                        yield dict(coin=coin, where=where, stripped=target, witness=wit)
            # element counts on both sides of the 1-byte / 3-byte / 5-byte compact-size forms
            for where in ("in252", "in253", "out252", "out253", "in300-out300", "out65535", "out65536"):
                if coin != "BTC" and where.startswith("out6"):
                    continue
                for target in (999999, 1000000, 1000001, 1000002, 1000008):
                    yield dict(coin=coin, where=where, stripped=target, witness="none")

    @staticmethod
    def make(where, wit, L):
        A = b"\xa1" * 32
        w = [] if wit == "none" else [patbytes(5, 1)] if wit == "w5" else [patbytes(2000, 2)]
        if where == "in":
            ins = [{"prev": A, "index": 0, "script": patbytes(L, 3), "sequence": U32, "witness": w}]
            outs = [{"value": 1, "script": b"\x51"}]
        elif where == "out":
            ins = [{"prev": A, "index": 0, "script": b"", "sequence": U32, "witness": w}]
            outs = [{"value": 1, "script": patbytes(L, 4)}]
        elif where == "coinbase-out":
            ins = [{"prev": bytes(32), "index": U32, "script": b"\x03\x01\x02\x03", "sequence": U32, "witness": w}]
            outs = [{"value": 50 * COIN, "script": patbytes(L, 5)}, {"value": 0, "script": b"\x6a"}]
        else:
            nin = nout = 1
            for part in where.split("-"):
                if part.startswith("in"):
                    nin = int(part[2:])
                else:
                    nout = int(part[3:])
            ins = [{"prev": A, "index": i, "script": patbytes(L, 3) if i == 0 else b"", "sequence": U32, "witness": []} for i in range(nin)]
            outs = [{"value": 1, "script": b"\x51"} for i in range(nout)]
        return {"version": 2, "lock_time": 0, "ins": ins, "outs": outs}

    def run(self, case):
        where, wit, target = case["where"], case["witness"], int(case["stripped"])
        L = find_script_len(target, lambda L: self.make(where, wit, L))
        R = self.make(where, wit, L)
        if wire.stripped_size(R) != len(wire.ser_tx_legacy(R)) or wire.total_size(R) != len(wire.ser_tx(R)):
            raise ModelInvalid("size arithmetic")
        return judge(case["coin"], R, "%s:stripped=%d:total=%d" % (where, wire.stripped_size(R), wire.total_size(R)))

    def nontrivial(self, cls):
        return True


class History(Driver):
    """Mode S: the verdicts must follow the CURRENT inputs of one transaction object, however it was assembled."""
    id = "C20.history"
    rule = ("state = one Tx object built by the constructor in one of 3 shapes (no inputs / coinbase / ordinary) and then edited by <= 3 "
            "operations (append a null-outpoint input, append an ordinary input, remove the last input, rewrite the first input's hash / "
            "index, call check()+is_coinbase() in between); afterwards check(), is_coinbase() and bad_solution_count() are judged on "
            "the final fields; non-trivial = the coinbase status changed along the way")

    OPS = ["append-null", "append-A1", "pop", "idx0=max", "idx0=0", "hash0=zero", "hash0=A", "observe"]

    def __init__(self, tier, seed):
        Driver.__init__(self, tier, seed)
        self.depth = 3 if tier == "quick" else 4
        self.coins = ["BTC", "GRS"] if tier == "quick" else list(COINS)
        self.bound = dict(ops=self.OPS, depth=self.depth, coins=self.coins, starts=["empty", "coinbase", "plain"])

    def units(self):
        for coin in self.coins:
            for start in ("empty", "coinbase", "plain"):
                yield dict(coin=coin, start=start)

    def execute(self, unit):
        for ln in range(1, self.depth + 1):
            for seq in itertools.product(self.OPS, repeat=ln):
                case = dict(coin=unit["coin"], start=unit["start"], ops=list(seq))
                yield case, self.run(case)

    def run(self, case):
        A = b"\xa1" * 32
        mk = lambda prev, idx, sl: {"prev": prev, "index": idx, "script": patbytes(sl, 3), "sequence": U32, "witness": []}
        ins = {"empty": [], "coinbase": [mk(bytes(32), U32, 2)], "plain": [mk(A, 0, 0)]}[case["start"]]
        R = {"version": 1, "lock_time": 0, "ins": ins, "outs": [{"value": 1, "script": b"\x51"}]}
        T = tx_class(case["coin"])
        changes = 0
        try:
            P = build(T, R)
            for op in case["ops"]:
                was = wire.is_coinbase(R)
                if op == "append-null":
                    P.txs_in.append(T.TxIn(bytes(32), U32, patbytes(2, 3), U32))
                    R["ins"].append(mk(bytes(32), U32, 2))
                elif op == "append-A1":
                    P.txs_in.append(T.TxIn(A, 1, b"", U32))
                    R["ins"].append(mk(A, 1, 0))
                elif op == "pop":
                    if R["ins"]:
                        P.txs_in.pop()
                        R["ins"].pop()
                elif op in ("idx0=max", "idx0=0") and R["ins"]:
                    v = U32 if op == "idx0=max" else 0
                    P.txs_in[0].previous_index = v
                    R["ins"][0]["index"] = v
                elif op in ("hash0=zero", "hash0=A") and R["ins"]:
                    v = bytes(32) if op == "hash0=zero" else A
                    P.txs_in[0].previous_hash = v
                    R["ins"][0]["prev"] = v
                elif op == "observe":
                    try:
                        P.check()
                    except Exception:
                        pass
                    P.is_coinbase()
                if wire.is_coinbase(R) != was:
                    changes += 1
        except Exception as e:
            return BAD("history-raises", "the edits work", exc(e), clause="history-raises")
        out = judge(case["coin"], R, "history:changes%d" % min(changes, 2), P=P)
        return out

    def nontrivial(self, cls):
        return "changes0" not in cls

    def selfcheck(self):
        return 0


DRIVERS = [Checks, Sizes, History]
ASSUMPTIONS = [
    "at most 3 inputs and 3 outputs; values and outpoints from the stated boundary alphabets (full product)",
    "coinbase = exactly one input whose outpoint is (32 zero bytes, 0xffffffff) - the Bitcoin definition; null outpoint = that pair",
    "a defect-free transaction with stripped size <= 1 000 000 < total size is left unconstrained (either verdict recorded)",
    "rejection = ValidationFailureError; any other exception from check() is a violation",
    "MAX_MONEY: 21 000 000 coins for the BTC, LTC (the library's LTC class inherits it), BCH, BTG classes, 105 000 000 for GRS",
]


def CONFIGURATIONS():
    return {"tx_classes": {c: "%s.%s MAX_MONEY=%s" % (tx_class(c).__module__, tx_class(c).__name__, getattr(tx_class(c), "MAX_MONEY", "?")) for c in COINS}}
