"""Reference model for C08 / C18: Base58Check, Bech32 / Bech32m segwit addresses (BIP173, BIP350),
standard output-script templates with an exact classifier, WIF / BIP32 payload rules, and the pinned
per-network prefix table.  Standard library only, no pycoin imports.  Deliberately simple: no tables
besides the two alphabets, no caches, no early exits."""
import hashlib

from ..engine import ModelInvalid

# ---------------------------------------------------------------------------------- hashes

def sha256d(b):
    return hashlib.sha256(hashlib.sha256(b).digest()).digest()


def hash160(b):
    return hashlib.new("ripemd160", hashlib.sha256(b).digest()).digest()


# ---------------------------------------------------------------------------------- base58

B58 = "123456789ABCDEFGHJKLMNPQRSTUVWXYZabcdefghijkmnopqrstuvwxyz"


def b58encode(b):
    n = int.from_bytes(b, "big")
    s = ""
    while n:
        n, r = divmod(n, 58)
        s = B58[r] + s
    z = 0
    while z < len(b) and b[z] == 0:
        z += 1
    return "1" * z + s


def b58decode(s):
    """bytes, or None when s contains a character outside the alphabet"""
    n = 0
    for c in s:
        i = B58.find(c)
        if i < 0 or len(c) != 1:
            return None
        n = n * 58 + i
    z = 0
    while z < len(s) and s[z] == "1":
        z += 1
    return b"\0" * z + n.to_bytes((n.bit_length() + 7) // 8, "big")


def b58check_encode(payload):
    return b58encode(payload + sha256d(payload)[:4])


def b58check_decode(s):
    """payload (prefix included) or None"""
    raw = b58decode(s)
    if raw is None or len(raw) < 4:
        return None
    if sha256d(raw[:-4])[:4] != raw[-4:]:
        return None
    return raw[:-4]


# ---------------------------------------------------------------------------------- bech32

CHARSET = "qpzry9x8gf2tvdw0s3jn54khce6mua7l"
BECH32 = 1
BECH32M = 0x2bc830a3


def bech32_polymod(values):
    gen = [0x3b6a57b2, 0x26508e6d, 0x1ea119fa, 0x3d4233dd, 0x2a1462b3]
    chk = 1
    for v in values:
        top = chk >> 25
        chk = (chk & 0x1ffffff) << 5 ^ v
        for i in range(5):
            if (top >> i) & 1:
                chk ^= gen[i]
    return chk


def hrp_expand(hrp):
    return [ord(c) >> 5 for c in hrp] + [0] + [ord(c) & 31 for c in hrp]


def bech32_encode(hrp, data5, const):
    pm = bech32_polymod(hrp_expand(hrp) + list(data5) + [0] * 6) ^ const
    chk = [(pm >> 5 * (5 - i)) & 31 for i in range(6)]
    return hrp + "1" + "".join(CHARSET[d] for d in list(data5) + chk)


def bech32_decode(s):
    """(hrp, data5 without checksum, const) or None (BIP173 rules incl. the 90 character limit)"""
    if len(s) > 90:
        return None
    for c in s:
        if ord(c) < 33 or ord(c) > 126:
            return None
    if s.lower() != s and s.upper() != s:
        return None
    s = s.lower()
    pos = s.rfind("1")
    if pos < 1 or pos + 7 > len(s):
        return None
    hrp, rest = s[:pos], s[pos + 1:]
    data = []
    for c in rest:
        i = CHARSET.find(c)
        if i < 0:
            return None
        data.append(i)
    pm = bech32_polymod(hrp_expand(hrp) + data)
    if pm != BECH32 and pm != BECH32M:
        return None
    return hrp, data[:-6], pm


def to5(b, pad=True):
    acc = 0
    bits = 0
    out = []
    for v in b:
        acc = (acc << 8) | v
        bits += 8
        while bits >= 5:
            bits -= 5
            out.append((acc >> bits) & 31)
    if bits:
        out.append((acc << (5 - bits)) & 31)
    return out


def from5(data5):
    """bytes or None (strict: at most 4 padding bits, all zero)"""
    acc = 0
    bits = 0
    out = bytearray()
    for v in data5:
        acc = (acc << 5) | v
        bits += 5
        if bits >= 8:
            bits -= 8
            out.append((acc >> bits) & 255)
    if bits >= 5:
        return None
    if acc & ((1 << bits) - 1):
        return None
    return bytes(out)


def segwit_encode_raw(hrp, ver, prog, const, variant="plain"):
    """a checksummed string for ANY version / program / constant (valid or not); variant tweaks the 5-bit
    conversion: 'padbits' sets the lowest padding bit (when there is one), 'extragroup' appends a zero group"""
    d = to5(prog)
    if variant == "padbits":
        if (len(prog) * 8) % 5 == 0 or not d:
            return None
        d[-1] |= 1
    elif variant == "extragroup":
        d.append(0)
    return bech32_encode(hrp, [ver] + d, const)


def segwit_encode(hrp, ver, prog):
    return segwit_encode_raw(hrp, ver, prog, BECH32 if ver == 0 else BECH32M)


def segwit_decode(s):
    """(hrp, version, program) for a valid BIP173/BIP350 segwit address of any hrp, else None"""
    t = bech32_decode(s)
    if t is None:
        return None
    hrp, d, const = t
    if len(d) < 1:
        return None
    ver = d[0]
    prog = from5(d[1:])
    if prog is None or len(prog) < 2 or len(prog) > 40:
        return None
    if ver > 16:
        return None
    if ver == 0 and len(prog) not in (20, 32):
        return None
    if ver == 0 and const != BECH32:
        return None
    if ver != 0 and const != BECH32M:
        return None
    return hrp, ver, prog


# ---------------------------------------------------------------------------------- scripts

OP_0, OP_PUSHDATA1, OP_PUSHDATA2, OP_PUSHDATA4 = 0x00, 0x4c, 0x4d, 0x4e
OP_1NEGATE, OP_1, OP_2, OP_16 = 0x4f, 0x51, 0x52, 0x60
OP_RETURN, OP_DUP, OP_EQUAL, OP_EQUALVERIFY = 0x6a, 0x76, 0x87, 0x88
OP_HASH160, OP_CHECKSIG, OP_CHECKMULTISIG = 0xa9, 0xac, 0xae


def push(data, form="min"):
    """the push of `data`; form 'min' = shortest opcode form for the LENGTH (as CScript << vector does),
    or one of 'direct', 'pd1', 'pd2', 'pd4' to force a form"""
    n = len(data)
    if form == "min":
        form = "direct" if n < 76 else "pd1" if n < 256 else "pd2" if n < 65536 else "pd4"
    if form == "direct":
        if n < 1 or n > 75:
            raise ValueError("direct push of %d bytes" % n)
        return bytes([n]) + data
    if form == "pd1":
        return bytes([OP_PUSHDATA1, n]) + data
    if form == "pd2":
        return bytes([OP_PUSHDATA2]) + n.to_bytes(2, "little") + data
    if form == "pd4":
        return bytes([OP_PUSHDATA4]) + n.to_bytes(4, "little") + data
    raise ValueError(form)


def p2pkh(h):
    return bytes([OP_DUP, OP_HASH160]) + push(h) + bytes([OP_EQUALVERIFY, OP_CHECKSIG])


def p2sh(h):
    return bytes([OP_HASH160]) + push(h) + bytes([OP_EQUAL])


def p2wpkh(h):
    return bytes([OP_0]) + push(h)


def p2wsh(h):
    return bytes([OP_0]) + push(h)


def p2tr(x):
    return bytes([OP_1]) + push(x)


def p2pk(sec):
    return push(sec) + bytes([OP_CHECKSIG])


def multisig(m, secs):
    return bytes([OP_1 - 1 + m]) + b"".join(push(s) for s in secs) + bytes([OP_1 - 1 + len(secs), OP_CHECKMULTISIG])


def tokens(script):
    """[(opcode, data or None)] or None when a push runs past the end"""
    out = []
    pc = 0
    while pc < len(script):
        op = script[pc]
        pc += 1
        if 1 <= op <= 75:
            n = op
        elif op in (OP_PUSHDATA1, OP_PUSHDATA2, OP_PUSHDATA4):
            w = {OP_PUSHDATA1: 1, OP_PUSHDATA2: 2, OP_PUSHDATA4: 4}[op]
            if pc + w > len(script):
                return None
            n = int.from_bytes(script[pc:pc + w], "little")
            pc += w
        else:
            out.append((op, None))
            continue
        if pc + n > len(script):
            return None
        out.append((op, script[pc:pc + n]))
        pc += n
    return out


def classify(script):
    """exact template classifier: (kind, params) such that BUILDERS[kind](**params) == script, else
    ('nonstandard', {}).  Kinds: p2pkh p2sh p2wpkh p2wsh p2tr p2pk multisig."""
    n = len(script)
    if n == 25 and script[:3] == bytes([OP_DUP, OP_HASH160, 20]) and script[23:] == bytes([OP_EQUALVERIFY, OP_CHECKSIG]):
        return "p2pkh", dict(h=script[3:23])
    if n == 23 and script[:2] == bytes([OP_HASH160, 20]) and script[22:] == bytes([OP_EQUAL]):
        return "p2sh", dict(h=script[2:22])
    if n == 22 and script[:2] == bytes([OP_0, 20]):
        return "p2wpkh", dict(h=script[2:])
    if n == 34 and script[:2] == bytes([OP_0, 32]):
        return "p2wsh", dict(h=script[2:])
    if n == 34 and script[:2] == bytes([OP_1, 32]):
        return "p2tr", dict(x=script[2:])
    if n in (35, 67) and script[0] == n - 2 and script[-1] == OP_CHECKSIG:
        return "p2pk", dict(sec=script[1:-1])
    t = tokens(script)
    if t and len(t) >= 4 and t[-1] == (OP_CHECKMULTISIG, None) and t[0][1] is None and t[-2][1] is None:
        m = t[0][0] - OP_1 + 1
        k = t[-2][0] - OP_1 + 1
        keys = t[1:-2]
        if 1 <= m <= k <= 16 and len(keys) == k and all(d is not None and len(d) in (33, 65) for op, d in keys):
            secs = [d for op, d in keys]
            if multisig(m, secs) == script:
                return "multisig", dict(m=m, secs=secs)
    return "nonstandard", {}


BUILDERS = dict(p2pkh=p2pkh, p2sh=p2sh, p2wpkh=p2wpkh, p2wsh=p2wsh, p2tr=p2tr, p2pk=p2pk, multisig=multisig)

# ---------------------------------------------------------------------------------- secp256k1 (tiny, affine)

P = 2 ** 256 - 2 ** 32 - 977
N = 0xFFFFFFFFFFFFFFFFFFFFFFFFFFFFFFFEBAAEDCE6AF48A03BBFD25E8CD0364141
GX = 0x79BE667EF9DCBBAC55A06295CE870B07029BFCDB2DCE28D959F2815B16F81798
GY = 0x483ADA7726A3C4655DA4FBFC0E1108A8FD17B448A68554199C47D08FFB10D4B8


def ec_add(a, b):
    if a is None:
        return b
    if b is None:
        return a
    if a[0] == b[0] and (a[1] + b[1]) % P == 0:
        return None
    if a == b:
        lam = 3 * a[0] * a[0] * pow(2 * a[1], -1, P) % P
    else:
        lam = (b[1] - a[1]) * pow(b[0] - a[0], -1, P) % P
    x = (lam * lam - a[0] - b[0]) % P
    return x, (lam * (a[0] - x) - a[1]) % P


def ec_mul(k, pt=(GX, GY)):
    r = None
    while k:
        if k & 1:
            r = ec_add(r, pt)
        pt = ec_add(pt, pt)
        k >>= 1
    return r


def on_curve(x, y):
    return 0 <= x < P and 0 <= y < P and (y * y - x * x * x - 7) % P == 0


def lift_x(x):
    """the two y values for x, or None"""
    if not 0 <= x < P:
        return None
    a = (x * x * x + 7) % P
    y = pow(a, (P + 1) // 4, P)
    if y * y % P != a:
        return None
    return (y, P - y) if y % 2 == 0 else (P - y, y)


def sec(pt, compressed=True):
    if compressed:
        return bytes([2 + (pt[1] & 1)]) + pt[0].to_bytes(32, "big")
    return b"\x04" + pt[0].to_bytes(32, "big") + pt[1].to_bytes(32, "big")


def sec_valid(b):
    """strict SEC1 public key: 02/03 + x (x < p, on curve) or 04 + x + y (on curve)"""
    if len(b) == 33 and b[0] in (2, 3):
        return lift_x(int.from_bytes(b[1:], "big")) is not None
    if len(b) == 65 and b[0] == 4:
        return on_curve(int.from_bytes(b[1:33], "big"), int.from_bytes(b[33:], "big"))
    return False


# ---------------------------------------------------------------------------------- payload rules

def wif_payload_valid(rest):
    """rest = payload after the WIF prefix: 32 bytes, or 33 bytes ending in 01; exponent in [1, n-1]"""
    if len(rest) == 33:
        if rest[32] != 1:
            return False
    elif len(rest) != 32:
        return False
    return 1 <= int.from_bytes(rest[:32], "big") < N


def xkey_payload_valid(rest):
    """rest = the 74 bytes after the 4-byte version: depth(1) fingerprint(4) child(4) chain(32) key(33)"""
    if len(rest) != 74:
        return False
    key = rest[41:]
    if key[0] == 0:
        return 1 <= int.from_bytes(key[1:], "big") < N
    return sec_valid(key) and key[0] in (2, 3)


# ---------------------------------------------------------------------------------- pinned network parameters
# Snapshot of pycoin/symbols/*.py (51 networks), fields: address, p2sh, wif, hrp, bip32 prv/pub, bip49 prv/pub,
# bip84 prv/pub (hex; None = not defined).  selfcheck() binds a sample of rows to published addresses / keys
# (BIP173/BIP350 examples, BIP32 vector 1, well-known mainnet/testnet strings).  The property text does not fix the
# numeric prefixes, so this table is the stated assumption against which "a wrong version byte or HRP in one of
# fifty symbol files" is detected.
_T = """
ARG 17 05 97 - 0488ade4 0488b21e - - - -
AXE 37 10 cc - 0488ade4 0488b21e - - - -
BC 19 - 99 - 02cfbf60 02cfbede - - - -
BCH 00 05 80 - 0488ade4 0488b21e - - - -
BSD 66 05 cc - 0488ade4 0488b21e - - - -
BTC 00 05 80 bc 0488ade4 0488b21e 049d7878 049d7cb2 04b2430c 04b24746
BTCD 3c 2d 44 - 0488ade4 0488b21e - - - -
BTDX 19 05 99 - 0488ade4 0488b21e - - - -
BTG 26 17 80 - 0488ade4 0488b21e - - - -
BTX 03 7d 80 - 0488ade4 0488b21e - - - -
CHA 58 50 d8 - 0488ade4 0488b21e - - - -
CHC 1c 04 9c - 0488ade4 0488b21e - - - -
DASH 4c 10 cc - 02fe52f8 02fe52cc - - - -
DCR 073f 071a 22de - 02fda4e8 02fda926 - - - -
DCRT 0f21 0e6c 230e - 04358397 043587d1 - - - -
DFC 1e 05 9e - 02fa54d7 02fa54ad - - - -
DGB 1e 3f b0 dgb 0488ade4 0488b21e - - - -
DOGE 1e 16 9e - 02fac398 02facafd - - - -
FAI 5f 24 df - 0488ade4 0488b21e - - - -
FTC 0e 60 8e - 0488ade4 0488b21e - - - -
FTX 41 c4 c1 - 04358394 043587cf - - - -
GRS 24 05 80 grs 0488ade4 0488b21e 049d7878 049d7cb2 04b2430c 04b24746
GRSRT 6f c4 ef grsrt 04358394 043587cf 044a4e28 044a5262 045f18bc 045f1cf6
JBS 2b - ab - 037a6460 037a689a - - - -
LTC 30 32 b0 ltc 019d9cfe 019da462 01b26792 01b26ef6 04b2430c 04b24746
MEC 32 05 b2 - 0488ade4 0488b21e - - - -
MONA 32 37 b0 mona 0488ade4 0488b21e - - - -
MZC 32 5c39 e0 - 0488ade4 0488b21e - - - -
PIVX 1e 0064 d4 - 0221312b 022d2533 - - - -
POLIS 37 3c 3c - 03e25d7e 03e25945 - - - -
RIC 3c 05 80 - 0488ade4 0488b21e - - - -
STAK 3f 05 cc - 0488ade4 0488b21e - - - -
STRAT 3f 7d bf - 0488ade4 0488b21e - - - -
TBTX 6f c4 ef - 04358394 043587cf - - - -
TCHC 50 2c d8 - 04358394 043587cf - - - -
TDASH 8c 13 ef - 3a8061a0 3a805837 - - - -
TGRS 6f c4 ef tgrs 04358394 043587cf 044a4e28 044a5262 045f18bc 045f1cf6
TMONA 6f 75 ef tmona 04358394 043587cf - - - -
TPIVX 8b 13 ef - 3a8061a0 3a805837 - - - -
TSTAK 7f 13 ef - 46002a10 a2aec9a6 - - - -
TVI 7f c4 ff - 04358394 043587cf - - - -
TZEC 1d25 1cba ef - 04358394 043587cf - - - -
VIA 47 21 c7 - 0488ade4 0488b21e - - - -
XCH 6f c4 ef tb 04358394 043587cf - - - -
XDT 71 c4 f1 - 0432a9a8 0432a243 - - - -
XLT 6f 3a ef tltc 0436ef7d 0436f6e1 - - - -
XMY 32 09 b2 - 0488ade4 0488b21e - - - -
XRT 6f c4 ef bcrt 04358394 043587cf - - - -
XTG 6f c4 ef tb 0488ade4 0488b21e - - - -
XTN 6f c4 ef tb 04358394 043587cf 044a4e28 044a5262 045f18bc 045f1cf6
ZEC 1cb8 1cbd 80 - 0488ade4 0488b21e - - - -
"""
FIELDS = ("address", "p2sh", "wif", "hrp", "bip32_prv", "bip32_pub", "bip49_prv", "bip49_pub", "bip84_prv", "bip84_pub")
GRS_FAMILY = ("GRS", "GRSRT", "TGRS")      # Base58Check uses the groestl hash: needs the groestlcoin_hash package


def _parse_table():
    out = {}
    for line in _T.strip().splitlines():
        parts = line.split()
        d = {}
        for k, v in zip(FIELDS, parts[1:]):
            if v == "-":
                d[k] = None
            elif k == "hrp":
                d[k] = v
            else:
                d[k] = bytes.fromhex(v)
        out[parts[0]] = d
    return out


NETWORK_PARAMS = _parse_table()
B58_FIELDS = tuple(f for f in FIELDS if f != "hrp")


def produce(params, kind, payload):
    """the address string the network with these parameters produces for (kind, payload), or None when
    the network does not define the needed prefix.  kinds: p2pkh p2sh p2wpkh p2wsh p2tr"""
    if kind == "p2pkh":
        return None if params["address"] is None else b58check_encode(params["address"] + payload)
    if kind == "p2sh":
        return None if params["p2sh"] is None else b58check_encode(params["p2sh"] + payload)
    if params["hrp"] is None:
        return None
    return segwit_encode(params["hrp"], 1 if kind == "p2tr" else 0, payload)


KIND_LEN = dict(p2pkh=20, p2sh=20, p2wpkh=20, p2wsh=32, p2tr=32)


def decode_address(params, text):
    """every (kind, payload) for which the network with these parameters would itself produce `text`
    (bech32: case-insensitively).  A list, normally of length 0 or 1."""
    out = []
    data = b58check_decode(text)
    if data is not None:
        for kind, field in (("p2pkh", "address"), ("p2sh", "p2sh")):
            pre = params[field]
            if pre is not None and data[:len(pre)] == pre and len(data) - len(pre) == 20:
                out.append((kind, data[len(pre):]))
    t = segwit_decode(text)
    if t is not None and params["hrp"] is not None and t[0] == params["hrp"]:
        hrp, ver, prog = t
        if ver == 0 and len(prog) == 20:
            out.append(("p2wpkh", prog))
        elif ver == 0 and len(prog) == 32:
            out.append(("p2wsh", prog))
        elif ver == 1 and len(prog) == 32:
            out.append(("p2tr", prog))
    return out


def script_for(kind, payload):
    return BUILDERS[kind](payload)


def b58_kinds(params, text):
    """every checksummed Base58 kind the text is a well-formed instance of on this network:
    list of (kind, rest) with kind in address:p2pkh address:p2sh wif xkey:bip32_prv ... ;
    plus the list of kinds whose PREFIX matches but whose payload is malformed"""
    good, malformed = [], []
    data = b58check_decode(text)
    if data is None:
        return good, malformed
    for field in B58_FIELDS:
        pre = params[field]
        if pre is None or data[:len(pre)] != pre:
            continue
        rest = data[len(pre):]
        if field in ("address", "p2sh"):
            ok = len(rest) == 20
            name = "address:" + ("p2pkh" if field == "address" else "p2sh")
        elif field == "wif":
            ok = wif_payload_valid(rest)
            name = "wif"
        else:
            ok = xkey_payload_valid(rest) and (rest[41] == 0) == field.endswith("prv")
            name = "xkey:" + field
        (good if ok else malformed).append((name, rest))
    return good, malformed


# ---------------------------------------------------------------------------------- binding vectors

def selfcheck():
    n = 0

    def need(cond, what):
        if not cond:
            raise ModelInvalid("addr reference: " + what)

    # hashes
    need(hash160(b"").hex() == "b472a266d0bd89c13706a4132ccfb16f7c3b9fcb", "hash160 of empty")
    n += 1
    # Base58Check: well-known strings
    genesis_h = bytes.fromhex("62e907b15cbf27d5425399ebf6f0fb50ebb88f18")
    vec = [
        ("BTC", "p2pkh", genesis_h, "1A1zP1eP5QGefi2DMPTfTL5SLmv7DivfNa"),
        ("BTC", "p2pkh", bytes(20), "1111111111111111111114oLvT2"),
        ("BTC", "p2sh", bytes.fromhex("b472a266d0bd89c13706a4132ccfb16f7c3b9fcb"), "3J98t1WpEZ73CNmQviecrnyiWrnqRhWNLy"),
        ("XTN", "p2pkh", bytes.fromhex("243f1394f44554f4ce3fd68649c19adc483ce924"), "mipcBbFg9gMiCh81Kj8tqqdgoZub1ZJRfn"),
        ("BTC", "p2wpkh", bytes.fromhex("751e76e8199196d454941c45d1b3a323f1433bd6"), "bc1qw508d6qejxtdg4y5r3zarvary0c5xw7kv8f3t4"),
        ("XTN", "p2wsh", bytes.fromhex("1863143c14c5166804bd19203356da136c985678cd4d27a1b8c6329604903262"),
         "tb1qrp33g0q5c5txsp9arysrx4k6zdkfs4nce4xj0gdcccefvpysxf3q0sl5k7"),
        ("XTN", "p2wsh", bytes.fromhex("000000c4a5cad46221b2a187905e5266362b99d5e91c6ce24d165dab93e86433"),
         "tb1qqqqqp399et2xygdj5xreqhjjvcmzhxw4aywxecjdzew6hylgvsesrxh6hy"),
        ("XTN", "p2tr", bytes.fromhex("000000c4a5cad46221b2a187905e5266362b99d5e91c6ce24d165dab93e86433"),
         "tb1pqqqqp399et2xygdj5xreqhjjvcmzhxw4aywxecjdzew6hylgvsesf3hn0c"),
        ("BTC", "p2tr", bytes.fromhex("79be667ef9dcbbac55a06295ce870b07029bfcdb2dce28d959f2815b16f81798"),
         "bc1p0xlxvlhemja6c4dqv22uapctqupfhlxm9h8z3k2e72q4k9hcz7vqzk5jj0"),
        ("LTC", "p2pkh", hash160(sec((GX, GY))), "LVuDpNCSSj6pQ7t9Pv6d6sUkLKoqDEVUnJ"),
        ("DOGE", "p2pkh", hash160(sec((GX, GY))), "DFpN6QqFfUm3gKNaxN6tNcab1FArL9cZLE"),
    ]
    for net, kind, payload, text in vec:
        need(produce(NETWORK_PARAMS[net], kind, payload) == text, "produce %s %s -> %s" % (net, kind, text))
        need(decode_address(NETWORK_PARAMS[net], text) == [(kind, payload)], "decode %s" % text)
        n += 2
    need(hash160(sec((GX, GY))).hex() == "751e76e8199196d454941c45d1b3a323f1433bd6", "hash160 of G")
    # BIP173 / BIP350 vectors
    valid = [
        ("BC1QW508D6QEJXTDG4Y5R3ZARVARY0C5XW7KV8F3T4", "0014751e76e8199196d454941c45d1b3a323f1433bd6"),
        ("bc1pw508d6qejxtdg4y5r3zarvary0c5xw7kw508d6qejxtdg4y5r3zarvary0c5xw7kt5nd6y",
         "5128751e76e8199196d454941c45d1b3a323f1433bd6751e76e8199196d454941c45d1b3a323f1433bd6"),
        ("BC1SW50QGDZ25J", "6002751e"),
        ("bc1zw508d6qejxtdg4y5r3zarvaryvaxxpcs", "5210751e76e8199196d454941c45d1b3a323"),
    ]
    for text, spk in valid:
        t = segwit_decode(text)
        need(t is not None, "BIP350 valid %s" % text)
        hrp, ver, prog = t
        got = bytes([ver + 0x50 if ver else 0, len(prog)]) + prog
        need(got.hex() == spk and segwit_encode(hrp, ver, prog) == text.lower(), "BIP350 spk %s" % text)
        n += 1
    invalid = [
        "bc1qw508d6qejxtdg4y5r3zarvary0c5xw7kemeawh",      # v0 with bech32m
        "tb1q0xlxvlhemja6c4dqv22uapctqupfhlxm9h8z3k2e72q4k9hcz7vq24jc47",
        "bc1p38j9r5y49hruaue7wxjce0updqjuyyx0kh56v8s25huc6995vvpql3jow4",   # invalid char
        "BC130XLXVLHEMJA6C4DQV22UAPCTQUPFHLXM9H8Z3K2E72Q4K9HCZ7VQ7ZWS8R",   # version 17
        "bc1pw5dgrnzv",                                                    # program length 1
        "bc1p0xlxvlhemja6c4dqv22uapctqupfhlxm9h8z3k2e72q4k9hcz7v8n0nx0muaewav253zgeav",  # 41 bytes
        "BC1QR508D6QEJXTDG4Y5R3ZARVARYV98GJ9P",                             # v0 with 16 bytes
        "tb1p0xlxvlhemja6c4dqv22uapctqupfhlxm9h8z3k2e72q4k9hcz7vq47Zagq",   # mixed case
        "bc1p0xlxvlhemja6c4dqv22uapctqupfhlxm9h8z3k2e72q4k9hcz7v07qwwzcrf",  # zero padding of more than 4 bits
        "tb1p0xlxvlhemja6c4dqv22uapctqupfhlxm9h8z3k2e72q4k9hcz7vpggkg4j",   # non-zero padding
        "bc1gmk9yu",                                                        # empty data
        "bc1qw508d6qejxtdg4y5r3zarvary0c5xw7kv8f3t5",                       # bad checksum
        "bc10w508d6qejxtdg4y5r3zarvary0c5xw7kw508d6qejxtdg4y5r3zarvary0c5xw7kw5rljs90",   # bech32 for v1+
    ]
    for text in invalid:
        need(segwit_decode(text) is None, "BIP173/350 invalid %s accepted" % text)
        n += 1
    for text in ("A12UEL5L", "a12uel5l", "abcdef1qpzry9x8gf2tvdw0s3jn54khce6mua7lmqqqxw", "?1ezyfcl", "A1LQFN3A", "?1v759aa"):
        need(bech32_decode(text) is not None, "bech32 valid %s" % text)
        n += 1
    # WIF / BIP32
    wif1 = b58check_decode("KwDiBf89QgGbjEhKnhXJuH7LrciVrZi3qYjgd9M7rFU73sVHnoWn")
    need(wif1 is not None and wif1[:1] == b"\x80" and wif_payload_valid(wif1[1:]) and int.from_bytes(wif1[1:33], "big") == 1,
         "WIF of 1 compressed")
    wif1u = b58check_decode("5HpHagT65TZzG1PH3CSu63k8DbpvD8s5ip4nEB3kEsreAnchuDf")
    need(wif1u is not None and len(wif1u) == 33 and wif_payload_valid(wif1u[1:]), "WIF of 1 uncompressed")
    xprv = b58check_decode("xprv9s21ZrQH143K3QTDL4LXw2F7HEK3wJUD2nW2nRk4stbPy6cq3jPPqjiChkVvvNKmPGJxWUtg6LnF5kejMRNNU3TGtRBeJgk33yuGBxrMPHi")
    xpub = b58check_decode("xpub661MyMwAqRbcFtXgS5sYJABqqG9YLmC4Q1Rdap9gSE8NqtwybGhePY2gZ29ESFjqJoCu1Rupje8YtGqsefD265TMg7usUDFdp6W1EGMcet8")
    need(xprv is not None and xprv[:4] == NETWORK_PARAMS["BTC"]["bip32_prv"] and xkey_payload_valid(xprv[4:]), "BIP32 vector 1 xprv")
    need(xpub is not None and xpub[:4] == NETWORK_PARAMS["BTC"]["bip32_pub"] and xkey_payload_valid(xpub[4:]), "BIP32 vector 1 xpub")
    need(ec_mul(int.from_bytes(xprv[4 + 42:], "big")) == (int.from_bytes(xpub[4 + 42:], "big"), lift_x(int.from_bytes(xpub[4 + 42:], "big"))[xpub[4 + 41] & 1]),
         "BIP32 vector 1 key pair")
    n += 5
    # EC
    need(ec_mul(N) is None and ec_mul(N - 1) == (GX, P - GY) and on_curve(*ec_mul(2)), "secp256k1")
    need(lift_x(5) is None and lift_x(1) is not None, "lift_x")
    n += 2
    # templates / classifier
    h20, h32 = bytes(range(20)), bytes(range(32))
    k1, k2 = sec(ec_mul(1)), sec(ec_mul(2), False)
    for kind, params in (("p2pkh", dict(h=h20)), ("p2sh", dict(h=h20)), ("p2wpkh", dict(h=h20)), ("p2wsh", dict(h=h32)),
                         ("p2tr", dict(x=h32)), ("p2pk", dict(sec=k1)), ("p2pk", dict(sec=k2)),
                         ("multisig", dict(m=1, secs=[k1, k2])), ("multisig", dict(m=2, secs=[k1, k2, k1]))):
        s = BUILDERS[kind](**params)
        need(classify(s) == (kind, params), "classify %s" % kind)
        need(classify(s + b"\x61")[0] == "nonstandard" and classify(s[:-1])[0] == "nonstandard", "classify mutation %s" % kind)
        n += 1
    need(p2pkh(h20).hex() == "76a914" + h20.hex() + "88ac" and p2sh(h20).hex() == "a914" + h20.hex() + "87", "templates")
    need(classify(bytes([OP_DUP, OP_HASH160]) + push(h20, "pd1") + bytes([OP_EQUALVERIFY, OP_CHECKSIG]))[0] == "nonstandard", "pd1")
    n += 2
    return n
