"""Reference Base58 / Base58Check (Bitcoin alphabet, 4-byte double-SHA256 checksum).

Written from the definition: the byte string is a big-endian number written in radix 58, and each
leading zero byte is written as one leading '1'.  Strict: no whitespace skipping, any character
outside the 58-letter alphabet makes the string invalid.  No pycoin import."""
import hashlib

ALPHABET = "123456789ABCDEFGHJKLMNPQRSTUVWXYZabcdefghijkmnopqrstuvwxyz"


class Invalid(Exception):
    pass


def encode(data):
    zeros = 0
    while zeros < len(data) and data[zeros] == 0:
        zeros += 1
    num = 0
    for byte in data:
        num = num * 256 + byte
    digits = ""
    while num > 0:
        num, r = num // 58, num % 58
        digits = ALPHABET[r] + digits
    return "1" * zeros + digits


def decode(text):
    """bytes, or None when ``text`` is not a Base58 string"""
    for ch in text:
        if ALPHABET.find(ch) < 0 or len(ch.encode("utf8")) != 1:
            return None
    ones = 0
    while ones < len(text) and text[ones] == "1":
        ones += 1
    num = 0
    for ch in text:
        num = num * 58 + ALPHABET.index(ch)
    body = []
    while num > 0:
        body.append(num % 256)
        num //= 256
    body.reverse()
    return b"\x00" * ones + bytes(body)


def checksum(payload):
    return hashlib.sha256(hashlib.sha256(payload).digest()).digest()[:4]


def encode_check(payload):
    return encode(payload + checksum(payload))


def decode_check(text):
    """payload, or None when ``text`` is not Base58 or does not end in the checksum of what precedes it"""
    raw = decode(text)
    if raw is None or len(raw) < 4:
        return None
    payload, chk = raw[:-4], raw[-4:]
    if checksum(payload) != chk:
        return None
    return payload


_B58 = [
    ("1abcdefghijkmnpqrst", "0001935c7cf22ab9be1962aee48c7b"),
    ("1CASrvcpMMTa4dz4DmYtAqcegCtdkhjvdn", "007a72b6fa63de36c4abc60a68b52d7f33e3d7cd3ec4babd39"),
    ("1111111111111111aaaa11aa", "00000000000000000000000000000000436e7a51290b"),
    ("123456789ABCDEFGHJKLMNPQRSTUVWXYZabcdefghijkmnopqrstuvwxyz",
     "000111d38e5fc9071ffcd20b4a763cc9ae4f252bb4e48fd66a835e252ada93ff480d6dd43dc62a641155a5"),
    # Bitcoin Core base58_encode_decode.json
    ("", ""), ("2g", "61"), ("a3gV", "626262"), ("aPEr", "636363"),
    ("2cFupjhnEsSn59qHXstmK2ffpLv2", "73696d706c792061206c6f6e6720737472696e67"),
    ("1NS17iag9jJgTHD1VXjvLCEnZuQ3rJDE9L", "00eb15231dfceb60925886b67d065299925915aeb172c06647"),
    ("ABnLTmg", "516b6fcd0f"), ("3SEo3LWLoPntC", "bf4f89001e670274dd"), ("3EFU7m", "572e4794"),
    ("EJDM8drfXA6uyA", "ecac89cad93923c02321"), ("Rt5zm", "10c8511e"), ("1111111111", "00000000000000000000"),
]
_B58CHECK = [
    ("14nr3dMd4VwNpFhFECU1A6imi", "0001935c7cf22ab9be1962aee48c7b"),
    ("1CASrvcpMMTa4dz4DmYtAqcegCtdkhjvdn", "007a72b6fa63de36c4abc60a68b52d7f33e3d7cd3e"),
    ("11111111111111114njGbaozZJui9o", "00000000000000000000000000000000436e7a51290b"),
    ("1mLRia5CbfDB9752zxvtrpnkigecaYWUSQNLJGECA8641ywusqomjhfdb6EM7bXGj1Gb",
     "000111d38e5fc9071ffcd20b4a763cc9ae4f252bb4e48fd66a835e252ada93ff480d6dd43dc62a641155a561616161"),
    ("1BvBMSEYstWetqTFn5Au4m4GFg7xJaNVN2", "0077bff20c60e522dfaa3350c39b030a5d004e839a"),   # well-known address
    ("3J98t1WpEZ73CNmQviecrnyiWrnqRhWNLy", "05b472a266d0bd89c13706a4132ccfb16f7c3b9fcb"),
]


def selfcheck():
    n = 0
    for text, hx in _B58:
        b = bytes.fromhex(hx)
        if encode(b) != text or decode(text) != b:
            raise Invalid("ref.base58: vector %s" % text)
        n += 1
    for text, hx in _B58CHECK:
        b = bytes.fromhex(hx)
        if encode_check(b) != text or decode_check(text) != b:
            raise Invalid("ref.base58: check vector %s" % text)
        bogus = text[:-1] + chr(1 + ord(text[-1]))
        if decode_check(bogus) is not None:
            raise Invalid("ref.base58: bogus %s accepted" % bogus)
        n += 1
    for bad in ("0", "O", "I", "l", " 2g", "2g ", "2 g", "2g\n", "é", "2gı"):
        if decode(bad) is not None:
            raise Invalid("ref.base58: %r accepted" % bad)
        n += 1
    if decode_check("") is not None or decode_check("1") is not None or decode_check("111") is not None:
        raise Invalid("ref.base58: short strings")
    return n + 1
