"""Reference Bech32 (BIP173) / Bech32m (BIP350) codec and segwit-address rules, written from the BIP text.

A string is  hrp '1' data(checksum included).  Validity rules implemented one by one in
``bech32_decode`` / ``segwit_decode``; every rejection names its reason so that outcome classes are
informative.  No pycoin import."""

CHARSET = "qpzry9x8gf2tvdw0s3jn54khce6mua7l"
BECH32 = "bech32"
BECH32M = "bech32m"
CONST = {BECH32: 1, BECH32M: 0x2BC830A3}
GEN = (0x3B6A57B2, 0x26508E6D, 0x1EA119FA, 0x3D4233DD, 0x2A1462B3)


class Invalid(Exception):
    pass


def polymod(values):
    """BIP173: checksum register over GF(32) symbols"""
    chk = 1
    for v in values:
        top = chk >> 25
        chk = ((chk & 0x1FFFFFF) << 5) ^ v
        for i in range(5):
            if (top >> i) & 1:
                chk ^= GEN[i]
    return chk


def hrp_expand(hrp):
    hi = [ord(c) >> 5 for c in hrp]
    lo = [ord(c) & 31 for c in hrp]
    return hi + [0] + lo


def create_checksum(hrp, data, spec):
    pm = polymod(hrp_expand(hrp) + list(data) + [0, 0, 0, 0, 0, 0]) ^ CONST[spec]
    return [(pm >> (5 * (5 - i))) & 31 for i in range(6)]


def bech32_encode(hrp, data, spec):
    """string for (hrp, 5-bit data, spec); the hrp is taken as given (callers pass lower case)"""
    syms = list(data) + create_checksum(hrp, data, spec)
    return hrp + "1" + "".join(CHARSET[s] for s in syms)


def bech32_check(text):
    """(reason, hrp, data, spec): reason is None when ``text`` is a valid Bech32 or Bech32m string"""
    for ch in text:
        if ord(ch) < 33 or ord(ch) > 126:
            return ("char-out-of-range", None, None, None)
    has_lower = any("a" <= ch <= "z" for ch in text)
    has_upper = any("A" <= ch <= "Z" for ch in text)
    if has_lower and has_upper:
        return ("mixed-case", None, None, None)
    if len(text) > 90:
        return ("too-long", None, None, None)
    low = text.lower()
    sep = low.rfind("1")
    if sep < 0:
        return ("no-separator", None, None, None)
    if sep == 0:
        return ("empty-hrp", None, None, None)
    datapart = low[sep + 1:]
    if len(datapart) < 6:
        return ("short-checksum", None, None, None)
    syms = []
    for ch in datapart:
        k = CHARSET.find(ch)
        if k < 0:
            return ("bad-data-char", None, None, None)
        syms.append(k)
    hrp = low[:sep]
    pm = polymod(hrp_expand(hrp) + syms)
    if pm == CONST[BECH32]:
        return (None, hrp, syms[:-6], BECH32)
    if pm == CONST[BECH32M]:
        return (None, hrp, syms[:-6], BECH32M)
    return ("bad-checksum", None, None, None)


def bech32_decode(text):
    """(hrp, data, spec) or None"""
    reason, hrp, data, spec = bech32_check(text)
    if reason is not None:
        return None
    return (hrp, data, spec)


def to5(program):
    """8-bit bytes -> 5-bit symbols, zero padded (encoder direction)"""
    acc = 0
    bits = 0
    out = []
    for b in program:
        acc = (acc << 8) | b
        bits += 8
        while bits >= 5:
            bits -= 5
            out.append((acc >> bits) & 31)
            acc &= (1 << bits) - 1
    if bits:
        out.append((acc << (5 - bits)) & 31)
    return out


def to8(symbols):
    """5-bit symbols -> bytes; None unless the left-over is at most 4 bits, all zero (decoder direction)"""
    acc = 0
    bits = 0
    out = []
    for s in symbols:
        acc = (acc << 5) | s
        bits += 5
        while bits >= 8:
            bits -= 8
            out.append((acc >> bits) & 0xFF)
            acc &= (1 << bits) - 1
    if bits >= 5 or acc != 0:
        return None
    return bytes(out)


def program_rule(version, program, spec):
    """reason or None for a decoded (version, program bytes, checksum kind) by BIP141/173/350"""
    if version > 16:
        return "bad-version"
    if len(program) < 2 or len(program) > 40:
        return "bad-program-length"
    if version == 0 and len(program) not in (20, 32):
        return "bad-v0-length"
    if version == 0 and spec != BECH32:
        return "v0-needs-bech32"
    if version != 0 and spec != BECH32M:
        return "v1+-needs-bech32m"
    return None


def segwit_check(hrp, text):
    """(reason, version, program): reason None when ``text`` is a valid segwit address for ``hrp``"""
    return segwit_rule(hrp, bech32_check(text))


def segwit_rule(hrp, checked):
    """the address rules applied to the result of ``bech32_check``"""
    reason, got, data, spec = checked
    if reason is not None:
        return (reason, None, None)
    if got != hrp:
        return ("hrp-mismatch", None, None)
    if len(data) < 1:
        return ("no-version", None, None)
    program = to8(data[1:])
    if program is None:
        return ("bad-padding", None, None)
    r = program_rule(data[0], program, spec)
    if r is not None:
        return (r, None, None)
    return (None, data[0], program)


def segwit_decode(hrp, text):
    reason, version, program = segwit_check(hrp, text)
    if reason is not None:
        return None
    return (version, program)


def hrp_ok(hrp):
    """an hrp an encoder may be given: 1..83 characters in 33..126, no upper case (output must be lower case)"""
    if not 1 <= len(hrp) <= 83:
        return False
    for ch in hrp:
        if ord(ch) < 33 or ord(ch) > 126 or "A" <= ch <= "Z":
            return False
    return True


def segwit_encode(hrp, version, program):
    """address string, or None when (hrp, version, program) has no valid address (incl. > 90 characters)"""
    if not hrp_ok(hrp) or not 0 <= version <= 16:
        return None
    spec = BECH32 if version == 0 else BECH32M
    if program_rule(version, program, spec) is not None:
        return None
    text = bech32_encode(hrp, [version] + to5(program), spec)
    if len(text) > 90:
        return None
    return text


# ------------------------------------------------------------------ vectors (BIP173 and BIP350)

VALID_BECH32 = [
    "A12UEL5L", "a12uel5l",
    "an83characterlonghumanreadablepartthatcontainsthenumber1andtheexcludedcharactersbio1tt5tgs",
    "abcdef1qpzry9x8gf2tvdw0s3jn54khce6mua7lmqqqxw",
    "11qqqqqqqqqqqqqqqqqqqqqqqqqqqqqqqqqqqqqqqqqqqqqqqqqqqqqqqqqqqqqqqqqqqqqqqqqqqqqqqqqqc8247j",
    "split1checkupstagehandshakeupstreamerranterredcaperred2y9e3w", "?1ezyfcl",
]
VALID_BECH32M = [
    "A1LQFN3A", "a1lqfn3a",
    "an83characterlonghumanreadablepartthatcontainsthetheexcludedcharactersbioandnumber11sg7hg6",
    "abcdef1l7aum6echk45nj3s0wdvt2fg8x9yrzpqzd3ryx",
    "11llllllllllllllllllllllllllllllllllllllllllllllllllllllllllllllllllllllllllllllllllludsr8",
    "split1checkupstagehandshakeupstreamerranterredcaperredlc445v", "?1v759aa",
]
INVALID_STRINGS = [
    "\x201nwldj5", "\x7f1axkwrx", "\x801eym55h",
    "an84characterslonghumanreadablepartthatcontainsthenumber1andtheexcludedcharactersbio1569pvx",
    "pzry9x0s0muk", "1pzry9x0s0muk", "x1b4n0q5v", "li1dgmt3", "de1lg7wt\xff", "A1G7SGD8", "10a06t8", "1qzzfhee",
    "\x201xj0phk", "\x7f1g6xzxy", "\x801vctc34",
    "an84characterslonghumanreadablepartthatcontainsthetheexcludedcharactersbioandnumber11d6pts4",
    "qyrz8wqd2c9m", "1qyrz8wqd2c9m", "y1b0jsk6g", "lt1igcx5c0", "in1muywd", "mm1crxm3i", "au1s5cgom", "M1VUXWEZ",
    "16plkw9", "1p2gdwpf",
]
VALID_ADDRESSES = [
    ("BC1QW508D6QEJXTDG4Y5R3ZARVARY0C5XW7KV8F3T4", "0014751e76e8199196d454941c45d1b3a323f1433bd6"),
    ("tb1qrp33g0q5c5txsp9arysrx4k6zdkfs4nce4xj0gdcccefvpysxf3q0sl5k7",
     "00201863143c14c5166804bd19203356da136c985678cd4d27a1b8c6329604903262"),
    ("bc1pw508d6qejxtdg4y5r3zarvary0c5xw7kw508d6qejxtdg4y5r3zarvary0c5xw7kt5nd6y",
     "5128751e76e8199196d454941c45d1b3a323f1433bd6751e76e8199196d454941c45d1b3a323f1433bd6"),
    ("BC1SW50QGDZ25J", "6002751e"),
    ("bc1zw508d6qejxtdg4y5r3zarvaryvaxxpcs", "5210751e76e8199196d454941c45d1b3a323"),
    ("tb1qqqqqp399et2xygdj5xreqhjjvcmzhxw4aywxecjdzew6hylgvsesrxh6hy",
     "0020000000c4a5cad46221b2a187905e5266362b99d5e91c6ce24d165dab93e86433"),
    ("tb1pqqqqp399et2xygdj5xreqhjjvcmzhxw4aywxecjdzew6hylgvsesf3hn0c",
     "5120000000c4a5cad46221b2a187905e5266362b99d5e91c6ce24d165dab93e86433"),
    ("bc1p0xlxvlhemja6c4dqv22uapctqupfhlxm9h8z3k2e72q4k9hcz7vqzk5jj0",
     "512079be667ef9dcbbac55a06295ce870b07029bfcdb2dce28d959f2815b16f81798"),
]
INVALID_ADDRESSES = [
    "tc1p0xlxvlhemja6c4dqv22uapctqupfhlxm9h8z3k2e72q4k9hcz7vq5zuyut",
    "bc1p0xlxvlhemja6c4dqv22uapctqupfhlxm9h8z3k2e72q4k9hcz7vqh2y7hd",
    "tb1z0xlxvlhemja6c4dqv22uapctqupfhlxm9h8z3k2e72q4k9hcz7vqglt7rf",
    "BC1S0XLXVLHEMJA6C4DQV22UAPCTQUPFHLXM9H8Z3K2E72Q4K9HCZ7VQ54WELL",
    "bc1qw508d6qejxtdg4y5r3zarvary0c5xw7kemeawh",
    "tb1q0xlxvlhemja6c4dqv22uapctqupfhlxm9h8z3k2e72q4k9hcz7vq24jc47",
    "bc1p38j9r5y49hruaue7wxjce0updqjuyyx0kh56v8s25huc6995vvpql3jow4",
    "BC130XLXVLHEMJA6C4DQV22UAPCTQUPFHLXM9H8Z3K2E72Q4K9HCZ7VQ7ZWS8R",
    "bc1pw5dgrnzv",
    "bc1p0xlxvlhemja6c4dqv22uapctqupfhlxm9h8z3k2e72q4k9hcz7v8n0nx0muaewav253zgeav",
    "BC1QR508D6QEJXTDG4Y5R3ZARVARYV98GJ9P",
    "tb1p0xlxvlhemja6c4dqv22uapctqupfhlxm9h8z3k2e72q4k9hcz7vq47Zagq",
    "bc1p0xlxvlhemja6c4dqv22uapctqupfhlxm9h8z3k2e72q4k9hcz7v07qwwzcrf",
    "tb1p0xlxvlhemja6c4dqv22uapctqupfhlxm9h8z3k2e72q4k9hcz7vpggkg4j",
    "bc1gmk9yu",
    # BIP173 list
    "tc1qw508d6qejxtdg4y5r3zarvary0c5xw7kg3g4ty", "bc1qw508d6qejxtdg4y5r3zarvary0c5xw7kv8f3t5",
    "BC13W508D6QEJXTDG4Y5R3ZARVARY0C5XW7KN40WF2", "bc1rw5uspcuh",
    "bc10w508d6qejxtdg4y5r3zarvary0c5xw7kw508d6qejxtdg4y5r3zarvary0c5xw7kw5rljs90",
    "BC1QR508D6QEJXTDG4Y5R3ZARVARYV98GJ9P", "tb1qrp33g0q5c5txsp9arysrx4k6zdkfs4nce4xj0gdcccefvpysxf3q0sL5k7",
    "bc1zw508d6qejxtdg4y5r3zarvaryvqyzf3du", "tb1qrp33g0q5c5txsp9arysrx4k6zdkfs4nce4xj0gdcccefvpysxf3pjxtptv",
    "bc1gmk9yu",
]


def selfcheck():
    n = 0
    for spec, lst in ((BECH32, VALID_BECH32), (BECH32M, VALID_BECH32M)):
        for s in lst:
            d = bech32_decode(s)
            if d is None or d[2] != spec or bech32_encode(d[0], d[1], d[2]) != s.lower():
                raise Invalid("ref.bech32: valid vector %r" % s)
            # BIP173: flipping one symbol of the data part must invalidate the string
            pos = s.rfind("1") + 1
            t = s[:pos] + CHARSET[CHARSET.find(s[pos].lower()) ^ 1] + s[pos + 1:]
            if bech32_decode(t.lower() if s.lower() == s else t.upper()) is not None:
                raise Invalid("ref.bech32: corrupted vector accepted %r" % s)
            n += 1
    for s in INVALID_STRINGS:
        if bech32_decode(s) is not None:
            raise Invalid("ref.bech32: invalid vector accepted %r" % s)
        n += 1
    for s, spk in VALID_ADDRESSES:
        hrp = s[:s.rfind("1")].lower()
        d = segwit_decode(hrp, s)
        if d is None:
            raise Invalid("ref.bech32: address rejected %r" % s)
        v, prog = d
        got = bytes([v + 0x50 if v else 0, len(prog)]) + prog
        if got.hex() != spk or segwit_encode(hrp, v, prog) != s.lower():
            raise Invalid("ref.bech32: address vector %r" % s)
        n += 1
    for s in INVALID_ADDRESSES:
        for hrp in ("bc", "tb"):
            if segwit_decode(hrp, s) is not None:
                raise Invalid("ref.bech32: invalid address accepted %r" % s)
        n += 1
    for prog in (b"", b"\x00", b"\xff" * 20, bytes(range(33)), b"\x01\x80"):
        if to8(to5(prog)) != prog:
            raise Invalid("ref.bech32: bit regrouping %r" % prog)
        n += 1
    return n
