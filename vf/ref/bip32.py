"""BIP32 hierarchical derivation (CKDpriv, CKDpub, N, 78-byte serialisation, Base58Check text) and
Electrum v1 ("old seed") derivation, written from the BIP32 text and from Electrum 1.9's
account.py/bitcoin.py.  Carries its own minimal secp256k1 arithmetic (SEC2 constants, textbook
affine group law; a Jacobian ladder only inside scalar multiplication, cross-checked against the
affine law in selfcheck).  No pycoin imports, standard library only."""
import hashlib
import hmac

from . import ripemd160 as _ripemd

# ---------------------------------------------------------------- secp256k1 (SEC 2, section 2.4.1)
P = 2 ** 256 - 2 ** 32 - 977
N = 0xFFFFFFFFFFFFFFFFFFFFFFFFFFFFFFFEBAAEDCE6AF48A03BBFD25E8CD0364141
G = (0x79BE667EF9DCBBAC55A06295CE870B07029BFCDB2DCE28D959F2815B16F81798,
     0x483ADA7726A3C4655DA4FBFC0E1108A8FD17B448A68554199C47D08FFB10D4B8)
INF = None


def inv(a, m):
    a %= m
    if a == 0:
        raise ZeroDivisionError("no inverse of 0")
    return pow(a, m - 2, m)          # m prime


def on_curve(pt):
    if pt is INF:
        return True
    x, y = pt
    return 0 <= x < P and 0 <= y < P and (y * y - x * x * x - 7) % P == 0


def pt_add(A, B):
    if A is INF:
        return B
    if B is INF:
        return A
    x1, y1 = A
    x2, y2 = B
    if x1 == x2:
        if (y1 + y2) % P == 0:
            return INF
        lam = 3 * x1 * x1 * inv(2 * y1, P) % P
    else:
        lam = (y2 - y1) * inv(x2 - x1, P) % P
    x3 = (lam * lam - x1 - x2) % P
    return (x3, (lam * (x1 - x3) - y1) % P)


def pt_neg(A):
    return INF if A is INF else (A[0], (-A[1]) % P)


def pt_mul_affine(k, A):
    """double-and-add with the affine law only (slow; used to validate pt_mul)"""
    k %= N
    R = INF
    for bit in bin(k)[2:]:
        R = pt_add(R, R)
        if bit == "1":
            R = pt_add(R, A)
    return R


def _jdbl(X, Y, Z):
    if Y == 0 or Z == 0:
        return (0, 1, 0)
    S = 4 * X * Y * Y % P
    M = 3 * X * X % P            # a = 0
    X3 = (M * M - 2 * S) % P
    Y3 = (M * (S - X3) - 8 * Y * Y * Y * Y) % P
    return (X3, Y3, 2 * Y * Z % P)


def _jadd_affine(X1, Y1, Z1, x2, y2):
    if Z1 == 0:
        return (x2, y2, 1)
    Z1Z1 = Z1 * Z1 % P
    U2 = x2 * Z1Z1 % P
    S2 = y2 * Z1 * Z1Z1 % P
    H = (U2 - X1) % P
    R = (S2 - Y1) % P
    if H == 0:
        if R == 0:
            return _jdbl(X1, Y1, Z1)
        return (0, 1, 0)
    HH = H * H % P
    HHH = H * HH % P
    V = X1 * HH % P
    X3 = (R * R - HHH - 2 * V) % P
    Y3 = (R * (V - X3) - Y1 * HHH) % P
    return (X3, Y3, Z1 * H % P)


def pt_mul(k, A):
    k %= N
    if k == 0 or A is INF:
        return INF
    X, Y, Z = 0, 1, 0
    for bit in bin(k)[2:]:
        X, Y, Z = _jdbl(X, Y, Z)
        if bit == "1":
            X, Y, Z = _jadd_affine(X, Y, Z, A[0], A[1])
    if Z == 0:
        return INF
    zi = inv(Z, P)
    return (X * zi * zi % P, Y * zi * zi * zi % P)


def lift_x(x, odd):
    """the curve point with this x and y parity, or None"""
    if not 0 <= x < P:
        return None
    alpha = (x * x * x + 7) % P
    y = pow(alpha, (P + 1) // 4, P)
    if y * y % P != alpha:
        return None
    if (y & 1) != (1 if odd else 0):
        y = P - y
    return (x, y)


def ser_p(pt, compressed=True):
    x, y = pt
    if compressed:
        return bytes([2 + (y & 1)]) + x.to_bytes(32, "big")
    return b"\x04" + x.to_bytes(32, "big") + y.to_bytes(32, "big")


def parse_p(sec):
    if len(sec) == 33 and sec[0] in (2, 3):
        return lift_x(int.from_bytes(sec[1:], "big"), sec[0] == 3)
    if len(sec) == 65 and sec[0] == 4:
        pt = (int.from_bytes(sec[1:33], "big"), int.from_bytes(sec[33:], "big"))
        return pt if on_curve(pt) else None
    return None


def hash160(b):
    return _ripemd.ripemd160(hashlib.sha256(b).digest())


# ---------------------------------------------------------------- Base58Check (encode only)
B58 = "123456789ABCDEFGHJKLMNPQRSTUVWXYZabcdefghijkmnopqrstuvwxyz"


def b58check(payload):
    data = payload + hashlib.sha256(hashlib.sha256(payload).digest()).digest()[:4]
    v = int.from_bytes(data, "big")
    out = ""
    while v:
        v, r = divmod(v, 58)
        out = B58[r] + out
    pad = len(data) - len(data.lstrip(b"\0"))
    return "1" * pad + out


# ---------------------------------------------------------------- BIP32
HARDENED = 0x80000000


class InvalidChild(Exception):
    """parse256(I_L) >= n or resulting key is zero / point at infinity: BIP32 says this child is invalid"""


class Refused(Exception):
    """hardened child asked from a public-only node"""


def node(depth, fpr, index, chain, k=None, K=None):
    """a node is a dict: depth, fpr (4 bytes), index (ser32 value incl. hardened bit), chain (32 bytes),
    k (private int or None), K (public point)"""
    if K is None:
        K = pt_mul(k, G)
    return dict(depth=depth, fpr=fpr, index=index, chain=chain, k=k, K=K)


def master(seed):
    I = hmac.new(b"Bitcoin seed", seed, hashlib.sha512).digest()
    k = int.from_bytes(I[:32], "big")
    if k == 0 or k >= N:
        raise InvalidChild("invalid master")
    return node(0, b"\0\0\0\0", 0, I[32:], k=k)


def fingerprint(nd):
    return hash160(ser_p(nd["K"]))[:4]


def ckd_priv(nd, i):
    """CKDpriv((k_par, c_par), i); i is the full 32-bit child number"""
    assert nd["k"] is not None and 0 <= i < 2 ** 32
    if i >= HARDENED:
        data = b"\0" + nd["k"].to_bytes(32, "big") + i.to_bytes(4, "big")
    else:
        data = ser_p(nd["K"]) + i.to_bytes(4, "big")
    I = hmac.new(nd["chain"], data, hashlib.sha512).digest()
    il = int.from_bytes(I[:32], "big")
    k = (il + nd["k"]) % N
    if il >= N or k == 0:
        raise InvalidChild()
    return node(nd["depth"] + 1, fingerprint(nd), i, I[32:], k=k)


def ckd_pub(nd, i):
    """CKDpub((K_par, c_par), i)"""
    assert 0 <= i < 2 ** 32
    if i >= HARDENED:
        raise Refused()
    I = hmac.new(nd["chain"], ser_p(nd["K"]) + i.to_bytes(4, "big"), hashlib.sha512).digest()
    il = int.from_bytes(I[:32], "big")
    K = pt_add(pt_mul(il, G), nd["K"])
    if il >= N or K is INF:
        raise InvalidChild()
    return node(nd["depth"] + 1, fingerprint(nd), i, I[32:], K=K)


def neuter(nd):
    return dict(nd, k=None)


def derive(nd, path):
    """path: list of (index 0..2^31-1, hardened bool); private derivation when the node is private"""
    for idx, hard in path:
        i = idx + (HARDENED if hard else 0)
        nd = ckd_priv(nd, i) if nd["k"] is not None else ckd_pub(nd, i)
    return nd


def serialize(nd, private):
    """the 74 bytes after the 4 version bytes"""
    if private and nd["k"] is None:
        raise Refused()
    key = (b"\0" + nd["k"].to_bytes(32, "big")) if private else ser_p(nd["K"])
    assert 0 <= nd["depth"] <= 255
    return bytes([nd["depth"]]) + nd["fpr"] + nd["index"].to_bytes(4, "big") + nd["chain"] + key


def text(nd, version, private):
    assert len(version) == 4
    return b58check(version + serialize(nd, private))


MAINNET = dict(prv=bytes.fromhex("0488ade4"), pub=bytes.fromhex("0488b21e"))
TESTNET = dict(prv=bytes.fromhex("04358394"), pub=bytes.fromhex("043587cf"))
# BIP49 / BIP84 version bytes (from the BIPs / SLIP-132)
BIP49_MAINNET = dict(prv=bytes.fromhex("049d7878"), pub=bytes.fromhex("049d7cb2"))
BIP49_TESTNET = dict(prv=bytes.fromhex("044a4e28"), pub=bytes.fromhex("044a5262"))
BIP84_MAINNET = dict(prv=bytes.fromhex("04b2430c"), pub=bytes.fromhex("04b24746"))
BIP84_TESTNET = dict(prv=bytes.fromhex("045f18bc"), pub=bytes.fromhex("045f1cf6"))


def parse_path(s):
    """m/0'/1/2h style of the BIP32 test vectors -> [(idx, hardened)]"""
    out = []
    for c in s.split("/"):
        if c in ("m", ""):
            continue
        hard = c[-1] in "'hH"
        out.append((int(c[:-1] if hard else c), hard))
    return out


# ---------------------------------------------------------------- path range grammar (pycoin's documented one)
def expand_ranges(path_range, hardening_chars="'pH"):
    """documented grammar of subkeys(): components separated by '/', each a comma list of items,
    an item is N or A-B with an optional hardening mark at its end; result = cartesian product in
    order, hardening always spelled with the last hardening character.  Returns list of strings."""
    if path_range == "":
        return [""]
    per_component = []
    for comp in path_range.split("/"):
        alts = []
        for item in comp.split(","):
            mark = ""
            if item[-1:] and item[-1] in hardening_chars:
                mark = hardening_chars[-1]
                item = item[:-1]
            if "-" in item:
                lo, hi = item.split("-", 1)
                for v in range(int(lo), int(hi) + 1):
                    alts.append("%d%s" % (v, mark))
            else:
                alts.append("%s%s" % (item, mark))
        per_component.append(alts)
    out = None
    for alts in per_component:
        out = list(alts) if out is None else [o + "/" + a for o in out for a in alts]
    return out


RANGE_EXAMPLES = [
    ("0/1H/0-4", ['0/1H/0', '0/1H/1', '0/1H/2', '0/1H/3', '0/1H/4']),
    ("0/2,5,9-11", ['0/2', '0/5', '0/9', '0/10', '0/11']),
    ("3H/2/5/15-20p", ['3H/2/5/15H', '3H/2/5/16H', '3H/2/5/17H', '3H/2/5/18H', '3H/2/5/19H', '3H/2/5/20H']),
    ("5-6/7-8p,15/1-2", ['5/7H/1', '5/7H/2', '5/8H/1', '5/8H/2', '5/15/1', '5/15/2',
                         '6/7H/1', '6/7H/2', '6/8H/1', '6/8H/2', '6/15/1', '6/15/2']),
]


# ---------------------------------------------------------------- Electrum v1
def electrum_stretch(seed_hex_text):
    """Electrum 1.x stretch_key: the 32-character hex *text* is hashed, 100000 rounds"""
    seed = seed_hex_text.encode("utf8")
    x = seed
    for _ in range(100000):
        x = hashlib.sha256(x + seed).digest()
    return int.from_bytes(x, "big")


def electrum_mpk(point):
    """master public key: the 64 bytes x||y"""
    return point[0].to_bytes(32, "big") + point[1].to_bytes(32, "big")


def electrum_sequence(mpk, n, for_change):
    data = ("%d:%d:" % (n, for_change)).encode("ascii") + mpk
    return int.from_bytes(hashlib.sha256(hashlib.sha256(data).digest()).digest(), "big")


def electrum_priv(master_k, n, for_change):
    mpk = electrum_mpk(pt_mul(master_k, G))
    return (master_k + electrum_sequence(mpk, n, for_change)) % N


def electrum_pub(master_point, n, for_change):
    z = electrum_sequence(electrum_mpk(master_point), n, for_change)
    return pt_add(master_point, pt_mul(z, G))


# ---------------------------------------------------------------- binding vectors
# BIP32 test vectors 1, 2, 3 (from the BIP text; vectors 1 and 2 also appear in /repo/BIP32.txt and
# tests/btc/bip32_test.py, which the C09 driver cross-reads as data)
VECTORS = [
    ("000102030405060708090a0b0c0d0e0f", [
        ("m", "xpub661MyMwAqRbcFtXgS5sYJABqqG9YLmC4Q1Rdap9gSE8NqtwybGhePY2gZ29ESFjqJoCu1Rupje8YtGqsefD265TMg7usUDFdp6W1EGMcet8",
         "xprv9s21ZrQH143K3QTDL4LXw2F7HEK3wJUD2nW2nRk4stbPy6cq3jPPqjiChkVvvNKmPGJxWUtg6LnF5kejMRNNU3TGtRBeJgk33yuGBxrMPHi"),
        ("m/0'", "xpub68Gmy5EdvgibQVfPdqkBBCHxA5htiqg55crXYuXoQRKfDBFA1WEjWgP6LHhwBZeNK1VTsfTFUHCdrfp1bgwQ9xv5ski8PX9rL2dZXvgGDnw",
         "xprv9uHRZZhk6KAJC1avXpDAp4MDc3sQKNxDiPvvkX8Br5ngLNv1TxvUxt4cV1rGL5hj6KCesnDYUhd7oWgT11eZG7XnxHrnYeSvkzY7d2bhkJ7"),
        ("m/0'/1", "xpub6ASuArnXKPbfEwhqN6e3mwBcDTgzisQN1wXN9BJcM47sSikHjJf3UFHKkNAWbWMiGj7Wf5uMash7SyYq527Hqck2AxYysAA7xmALppuCkwQ",
         "xprv9wTYmMFdV23N2TdNG573QoEsfRrWKQgWeibmLntzniatZvR9BmLnvSxqu53Kw1UmYPxLgboyZQaXwTCg8MSY3H2EU4pWcQDnRnrVA1xe8fs"),
        ("m/0'/1/2'", "xpub6D4BDPcP2GT577Vvch3R8wDkScZWzQzMMUm3PWbmWvVJrZwQY4VUNgqFJPMM3No2dFDFGTsxxpG5uJh7n7epu4trkrX7x7DogT5Uv6fcLW5",
         "xprv9z4pot5VBttmtdRTWfWQmoH1taj2axGVzFqSb8C9xaxKymcFzXBDptWmT7FwuEzG3ryjH4ktypQSAewRiNMjANTtpgP4mLTj34bhnZX7UiM"),
        ("m/0'/1/2'/2", "xpub6FHa3pjLCk84BayeJxFW2SP4XRrFd1JYnxeLeU8EqN3vDfZmbqBqaGJAyiLjTAwm6ZLRQUMv1ZACTj37sR62cfN7fe5JnJ7dh8zL4fiyLHV",
         "xprvA2JDeKCSNNZky6uBCviVfJSKyQ1mDYahRjijr5idH2WwLsEd4Hsb2Tyh8RfQMuPh7f7RtyzTtdrbdqqsunu5Mm3wDvUAKRHSC34sJ7in334"),
        ("m/0'/1/2'/2/1000000000", "xpub6H1LXWLaKsWFhvm6RVpEL9P4KfRZSW7abD2ttkWP3SSQvnyA8FSVqNTEcYFgJS2UaFcxupHiYkro49S8yGasTvXEYBVPamhGW6cFJodrTHy",
         "xprvA41z7zogVVwxVSgdKUHDy1SKmdb533PjDz7J6N6mV6uS3ze1ai8FHa8kmHScGpWmj4WggLyQjgPie1rFSruoUihUZREPSL39UNdE3BBDu76"),
    ]),
    ("fffcf9f6f3f0edeae7e4e1dedbd8d5d2cfccc9c6c3c0bdbab7b4b1aeaba8a5a29f9c999693908d8a8784817e7b7875726f6c696663605d5a5754514e4b484542", [
        ("m", "xpub661MyMwAqRbcFW31YEwpkMuc5THy2PSt5bDMsktWQcFF8syAmRUapSCGu8ED9W6oDMSgv6Zz8idoc4a6mr8BDzTJY47LJhkJ8UB7WEGuduB",
         "xprv9s21ZrQH143K31xYSDQpPDxsXRTUcvj2iNHm5NUtrGiGG5e2DtALGdso3pGz6ssrdK4PFmM8NSpSBHNqPqm55Qn3LqFtT2emdEXVYsCzC2U"),
        ("m/0", "xpub69H7F5d8KSRgmmdJg2KhpAK8SR3DjMwAdkxj3ZuxV27CprR9LgpeyGmXUbC6wb7ERfvrnKZjXoUmmDznezpbZb7ap6r1D3tgFxHmwMkQTPH",
         "xprv9vHkqa6EV4sPZHYqZznhT2NPtPCjKuDKGY38FBWLvgaDx45zo9WQRUT3dKYnjwih2yJD9mkrocEZXo1ex8G81dwSM1fwqWpWkeS3v86pgKt"),
        ("m/0/2147483647'", "xpub6ASAVgeehLbnwdqV6UKMHVzgqAG8Gr6riv3Fxxpj8ksbH9ebxaEyBLZ85ySDhKiLDBrQSARLq1uNRts8RuJiHjaDMBU4Zn9h8LZNnBC5y4a",
         "xprv9wSp6B7kry3Vj9m1zSnLvN3xH8RdsPP1Mh7fAaR7aRLcQMKTR2vidYEeEg2mUCTAwCd6vnxVrcjfy2kRgVsFawNzmjuHc2YmYRmagcEPdU9"),
        ("m/0/2147483647'/1", "xpub6DF8uhdarytz3FWdA8TvFSvvAh8dP3283MY7p2V4SeE2wyWmG5mg5EwVvmdMVCQcoNJxGoWaU9DCWh89LojfZ537wTfunKau47EL2dhHKon",
         "xprv9zFnWC6h2cLgpmSA46vutJzBcfJ8yaJGg8cX1e5StJh45BBciYTRXSd25UEPVuesF9yog62tGAQtHjXajPPdbRCHuWS6T8XA2ECKADdw4Ef"),
        ("m/0/2147483647'/1/2147483646'", "xpub6ERApfZwUNrhLCkDtcHTcxd75RbzS1ed54G1LkBUHQVHQKqhMkhgbmJbZRkrgZw4koxb5JaHWkY4ALHY2grBGRjaDMzQLcgJvLJuZZvRcEL",
         "xprvA1RpRA33e1JQ7ifknakTFpgNXPmW2YvmhqLQYMmrj4xJXXWYpDPS3xz7iAxn8L39njGVyuoseXzU6rcxFLJ8HFsTjSyQbLYnMpCqE2VbFWc"),
        ("m/0/2147483647'/1/2147483646'/2", "xpub6FnCn6nSzZAw5Tw7cgR9bi15UV96gLZhjDstkXXxvCLsUXBGXPdSnLFbdpq8p9HmGsApME5hQTZ3emM2rnY5agb9rXpVGyy3bdW6EEgAtqt",
         "xprvA2nrNbFZABcdryreWet9Ea4LvTJcGsqrMzxHx98MMrotbir7yrKCEXw7nadnHM8Dq38EGfSh6dqA9QWTyefMLEcBYJUuekgW4BYPJcr9E7j"),
    ]),
    ("4b381541583be4423346c643850da4b320e46a87ae3d2a4e6da11eba819cd4acba45d239319ac14f863b8d5ab5a0d0c64d2e8a1e7d1457df2e5a3c51c73235be", [
        ("m", "xpub661MyMwAqRbcEZVB4dScxMAdx6d4nFc9nvyvH3v4gJL378CSRZiYmhRoP7mBy6gSPSCYk6SzXPTf3ND1cZAceL7SfJ1Z3GC8vBgp2epUt13",
         "xprv9s21ZrQH143K25QhxbucbDDuQ4naNntJRi4KUfWT7xo4EKsHt2QJDu7KXp1A3u7Bi1j8ph3EGsZ9Xvz9dGuVrtHHs7pXeTzjuxBrCmmhgC6"),
        ("m/0'", "xpub68NZiKmJWnxxS6aaHmn81bvJeTESw724CRDs6HbuccFQN9Ku14VQrADWgqbhhTHBaohPX4CjNLf9fq9MYo6oDaPPLPxSb7gwQN3ih19Zm4Y",
         "xprv9uPDJpEQgRQfDcW7BkF7eTya6RPxXeJCqCJGHuCJ4GiRVLzkTXBAJMu2qaMWPrS7AANYqdq6vcBcBUdJCVVFceUvJFjaPdGZ2y9WACViL4L"),
    ]),
]


def selfcheck():
    """returns (count, failures)"""
    bad = []
    n = 0
    # group law sanity: ladder vs affine, order, small multiples
    n += 1
    if not on_curve(G) or pt_mul(N, G) is not INF or pt_mul_affine(N - 1, G) != pt_neg(G):
        bad.append("generator/order")
    acc = INF
    for k in range(1, 20):
        acc = pt_add(acc, G)
        n += 1
        if pt_mul(k, G) != acc or pt_mul_affine(k, G) != acc or not on_curve(acc):
            bad.append("small multiple %d" % k)
    for k in (2 ** 255 + 12345, N - 2, 0xDEADBEEF * 2 ** 200 + 17, (N + 1) // 2):
        n += 1
        a = pt_mul(k, G)
        if a != pt_mul_affine(k, G):
            bad.append("ladder vs affine")
        b = pt_mul(7, a)
        if b != pt_mul_affine(7, a) or b != pt_mul(7 * k, G):
            bad.append("non-generator multiple")
        if parse_p(ser_p(a)) != a or parse_p(ser_p(a, False)) != a:
            bad.append("sec round trip")
    # 2G from SEC vectors
    n += 1
    if pt_mul(2, G)[0] != 0xC6047F9441ED7D6D3045406E95C07CD85C778E4B8CEF3CA7ABAC09B95C709EE5:
        bad.append("2G")
    for seed_hex, chain in VECTORS:
        m = master(bytes.fromhex(seed_hex))
        for path, xpub, xprv in chain:
            n += 1
            nd = derive(m, parse_path(path))
            if text(nd, MAINNET["pub"], False) != xpub or text(nd, MAINNET["prv"], True) != xprv:
                bad.append("BIP32 vector %s %s" % (seed_hex[:8], path))
            # public derivation of the trailing normal steps from the last hardened ancestor
            pp = parse_path(path)
            cut = max([i + 1 for i, (_, h) in enumerate(pp) if h] + [0])
            pub = derive(neuter(derive(m, pp[:cut])), pp[cut:])
            if text(pub, MAINNET["pub"], False) != xpub:
                bad.append("BIP32 vector CKDpub %s %s" % (seed_hex[:8], path))
    for s, exp in RANGE_EXAMPLES:
        n += 1
        if expand_ranges(s) != exp:
            bad.append("range example %s: %r" % (s, expand_ranges(s)))
    # Electrum commutation inside the model
    mk = 0x1234567890ABCDEF1234567890ABCDEF1234567890ABCDEF1234567890ABCDEF
    for (k, c) in ((0, 0), (1, 1), (3, 0)):
        n += 1
        if pt_mul(electrum_priv(mk, k, c), G) != electrum_pub(pt_mul(mk, G), k, c):
            bad.append("electrum commutation")
    return n, bad
