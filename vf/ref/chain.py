"""Brute-force maximum-total-weight chain descending from an anchor (reference model for C15)."""
from ..engine import ModelInvalid


def best_chains(delivered, anchor):
    """delivered: {label: (parent_label, weight)}.  Returns (max weight, set of chains as tuples,
    nearest-to-anchor first) over ALL chains descending from the anchor, the empty chain included."""
    kids = {}
    for h, (p, w) in delivered.items():
        kids.setdefault(p, []).append(h)
    best = [0, {()}]

    def rec(node, chain, wt):
        if wt > best[0]:
            best[0] = wt
            best[1] = {tuple(chain)}
        elif wt == best[0]:
            best[1].add(tuple(chain))
        for k in kids.get(node, []):
            rec(k, chain + [k], wt + delivered[k][1])
    rec(anchor, [], 0)
    return best[0], best[1]


def selfcheck():
    w, b = best_chains({1: (0, 1), 2: (1, 1), 3: (1, 2), 4: (9, 50)}, 0)
    if w != 3 or b != {(1, 3)}:
        raise ModelInvalid("chain reference")
    w, b = best_chains({1: (0, 1), 2: (0, 1)}, 0)
    if w != 1 or b != {(1,), (2,)}:
        raise ModelInvalid("chain reference ties")
    return 2
