"""Reference strict DER codec for ECDSA signatures  SEQUENCE { INTEGER r, INTEGER s }
(X.690: definite minimal lengths, minimal two's-complement integers).  No pycoin imports."""


class DERError(ValueError):
    pass


def enc_len(n):
    if n < 0x80:
        return bytes([n])
    body = n.to_bytes((n.bit_length() + 7) // 8, "big")
    return bytes([0x80 | len(body)]) + body


def enc_int(v):
    """minimal two's complement; v may be any integer"""
    if v >= 0:
        body = v.to_bytes(v.bit_length() // 8 + 1, "big")      # always leaves a 0 sign bit
    else:
        body = v.to_bytes((v + 1).bit_length() // 8 + 1, "big", signed=True)
    return b"\x02" + enc_len(len(body)) + body


def encode(r, s):
    body = enc_int(r) + enc_int(s)
    return b"\x30" + enc_len(len(body)) + body


def _read_len(b, i):
    """strict DER length at b[i:]: returns (length, next index)"""
    if i >= len(b):
        raise DERError("truncated length")
    f = b[i]
    if f < 0x80:
        return f, i + 1
    nb = f & 0x7F
    if nb == 0:
        raise DERError("indefinite length")
    if i + 1 + nb > len(b):
        raise DERError("truncated long length")
    if b[i + 1] == 0:
        raise DERError("length with leading zero")
    v = int.from_bytes(b[i + 1:i + 1 + nb], "big")
    if v < 0x80:
        raise DERError("long form for short length")
    return v, i + 1 + nb


def _read_int(b, i, end):
    if i >= end or b[i] != 0x02:
        raise DERError("integer tag expected")
    ln, j = _read_len(b[:end], i + 1)
    if ln == 0:
        raise DERError("empty integer")
    if j + ln > end:
        raise DERError("integer overruns sequence")
    body = b[j:j + ln]
    if ln > 1 and ((body[0] == 0x00 and body[1] < 0x80) or (body[0] == 0xFF and body[1] >= 0x80)):
        raise DERError("non-minimal integer")
    return int.from_bytes(body, "big", signed=True), j + ln


def decode(b):
    """strict: returns (r, s) (possibly negative) or raises DERError"""
    b = bytes(b)
    if len(b) < 1 or b[0] != 0x30:
        raise DERError("sequence tag expected")
    ln, i = _read_len(b, 1)
    end = i + ln
    if end > len(b):
        raise DERError("sequence overruns input")
    if end < len(b):
        raise DERError("trailing bytes after sequence")
    r, i = _read_int(b, i, end)
    s, i = _read_int(b, i, end)
    if i != end:
        raise DERError("trailing bytes inside sequence")
    return r, s


def selfcheck():
    """hand-checked encodings (X.690 examples of INTEGER; a Bitcoin-style signature) and the
    round trip on a boundary grid"""
    n = 0
    for v, hx in ((0, "020100"), (1, "020101"), (127, "02017f"), (128, "02020080"), (255, "020200ff"), (256, "02020100"),
                  (-1, "0201ff"), (-128, "020180"), (-129, "0202ff7f"), (32767, "02027fff"), (32768, "0203008000")):
        if enc_int(v).hex() != hx:
            raise ValueError("der enc_int(%d) = %s" % (v, enc_int(v).hex()))
        n += 1
    if encode(1, 2).hex() != "3006020101020102":
        raise ValueError("der encode(1,2)")
    big = 2 ** 255
    e = encode(big, big)
    if e[:2].hex() != "3046" or len(e) != 72 or e[2:5].hex() != "022100":
        raise ValueError("der encode(2^255, 2^255)")
    e = encode(2 ** 1023, 1)     # 129-byte integer: long-form lengths
    if e[:7].hex() != "308187" + "02818100":
        raise ValueError("der long form: %s" % e[:7].hex())
    n += 3
    grid = [0, 1, 127, 128, 255, 256, 2 ** 255 - 1, 2 ** 255, 2 ** 256 - 1, 2 ** 264, -1, -128, -129, 2 ** 1023]
    for r in grid:
        for s in grid:
            e = encode(r, s)
            if decode(e) != (r, s):
                raise ValueError("der round trip %d %d" % (r, s))
            for bad in (e + b"\x00", e[:-1], b"\x31" + e[1:], e[:1] + b"\x81" + e[1:] if e[1] < 0x80 else e[:1] + b"\x82\x00" + e[2:]):
                try:
                    decode(bad)
                except DERError:
                    continue
                raise ValueError("der accepted malformed %s" % bad.hex())
            n += 1
    return n
