"""Reference short-Weierstrass arithmetic over F_p:  y^2 = x^3 + a*x + b.

Textbook affine group law, written for obviousness, not speed.  A curve is the tuple
(p, a, b); a point is None (the point at infinity) or a pair (x, y) of ints in [0, p).
No pycoin imports, no caches, no tables (except the explicitly brute-force group table that
toy-curve checks ask for).
"""


def is_prime(m):
    if m < 2:
        return False
    i = 2
    while i * i <= m:
        if m % i == 0:
            return False
        i += 1
    return True


def inv(x, m):
    """inverse of x modulo the prime m (built-in modular inverse); x must not be 0 mod m"""
    x %= m
    if x == 0:
        raise ZeroDivisionError("0 has no inverse mod %d" % m)
    return pow(x, -1, m)


def on_curve(P, p, a, b):
    if P is None:
        return True
    x, y = P
    return 0 <= x < p and 0 <= y < p and (y * y - (x * x * x + a * x + b)) % p == 0


def canon(P, p):
    """reduce a possibly unreduced representative to the canonical one"""
    if P is None or P[0] is None:
        return None
    return (P[0] % p, P[1] % p)


def neg(P, p):
    if P is None:
        return None
    return (P[0], (-P[1]) % p)


def add(P, Q, p, a):
    if P is None:
        return Q
    if Q is None:
        return P
    x1, y1 = P
    x2, y2 = Q
    if x1 == x2:
        if (y1 + y2) % p == 0:
            return None
        lam = (3 * x1 * x1 + a) * inv(2 * y1, p) % p
    else:
        lam = (y2 - y1) * inv(x2 - x1, p) % p
    x3 = (lam * lam - x1 - x2) % p
    y3 = (lam * (x1 - x3) - y1) % p
    return (x3, y3)


def mul_repeated(k, P, p, a, order):
    """k*P by |k mod order| additions - the definition.  Only for small orders."""
    k %= order
    R = None
    for _ in range(k):
        R = add(R, P, p, a)
    return R


def mul(k, P, p, a):
    """k*P for any integer k by plain binary double-and-add (no reduction of k needed)."""
    if k < 0:
        return mul(-k, neg(P, p), p, a)
    R = None
    Q = P
    while k:
        if k & 1:
            R = add(R, Q, p, a)
        Q = add(Q, Q, p, a)
        k >>= 1
    return R


def jacobian_mul(k, P, p, a):
    """independent second implementation (Jacobian coordinates, left-to-right) used only to
    cross-check `mul` in selfcheck"""
    if P is None or k == 0:
        return None
    if k < 0:
        return jacobian_mul(-k, neg(P, p), p, a)

    def dbl(X, Y, Z):
        if Y == 0 or Z == 0:
            return (0, 1, 0)
        S = 4 * X * Y * Y % p
        M = (3 * X * X + a * pow(Z, 4, p)) % p
        X3 = (M * M - 2 * S) % p
        Y3 = (M * (S - X3) - 8 * pow(Y, 4, p)) % p
        return (X3, Y3, 2 * Y * Z % p)

    def addj(X1, Y1, Z1, x2, y2):
        if Z1 == 0:
            return (x2, y2, 1)
        Z1Z1 = Z1 * Z1 % p
        U2 = x2 * Z1Z1 % p
        S2 = y2 * Z1 * Z1Z1 % p
        if U2 == X1:
            if S2 == Y1:
                return dbl(X1, Y1, Z1)
            return (0, 1, 0)
        H = (U2 - X1) % p
        R = (S2 - Y1) % p
        H2 = H * H % p
        H3 = H * H2 % p
        X3 = (R * R - H3 - 2 * X1 * H2) % p
        Y3 = (R * (X1 * H2 - X3) - Y1 * H3) % p
        return (X3, Y3, Z1 * H % p)

    X, Y, Z = 0, 1, 0
    for bit in bin(k)[2:]:
        X, Y, Z = dbl(X, Y, Z)
        if bit == "1":
            X, Y, Z = addj(X, Y, Z, P[0], P[1])
    if Z == 0:
        return None
    zi = inv(Z, p)
    return (X * zi * zi % p, Y * zi * zi * zi % p)


def points(p, a, b):
    """every point of the curve by trying every (x, y): [None, (x,y), ...] sorted"""
    out = [None]
    for x in range(p):
        for y in range(p):
            if (y * y - (x * x * x + a * x + b)) % p == 0:
                out.append((x, y))
    return out


def points_with_x(x, p, a, b):
    """the affine points with that x, even y first (brute force over y)"""
    ys = [y for y in range(p) if (y * y - (x * x * x + a * x + b)) % p == 0]
    return sorted([(x, y) for y in ys], key=lambda P: (P[1] & 1, P[1]))


def group_table(p, a, b):
    pts = points(p, a, b)
    return {(P, Q): add(P, Q, p, a) for P in pts for Q in pts}


def sqrt_3mod4(v, p):
    """square root for p = 3 mod 4, or None"""
    v %= p
    y = pow(v, (p + 1) // 4, p)
    if y * y % p != v:
        return None
    return y


def lift_x(x, p, a, b):
    """the 0, 1 or 2 points with this x on a big curve (p = 3 mod 4), even y first"""
    y = sqrt_3mod4(x * x * x + a * x + b, p)
    if y is None:
        return []
    if y == 0:
        return [(x, 0)]
    ys = sorted([y, p - y], key=lambda v: v & 1)
    return [(x, ys[0]), (x, ys[1])]


def toy_curves(pmin, pmax, amax=2, bmax=7):
    """every curve y^2 = x^3 + a x + b over F_p, pmin <= p <= pmax prime, p = 3 mod 4,
    0 <= a <= min(amax, p-1), 1 <= b <= min(bmax, p-1), non-singular, whose group has prime
    order n >= 5.  Yields (p, a, b, n), in increasing (p, a, b)."""
    for p in range(max(pmin, 3), pmax + 1):
        if p % 4 != 3 or not is_prime(p):
            continue
        for a in range(0, min(amax, p - 1) + 1):
            for b in range(1, min(bmax, p - 1) + 1):
                if (4 * a * a * a + 27 * b * b) % p == 0:
                    continue
                n = len(points(p, a, b))
                if n >= 5 and is_prime(n):
                    yield (p, a, b, n)


# ------------------------------------------------------------------ production curves
SECP256K1 = dict(
    name="secp256k1",
    p=0xFFFFFFFFFFFFFFFFFFFFFFFFFFFFFFFFFFFFFFFFFFFFFFFFFFFFFFFEFFFFFC2F, a=0, b=7,
    G=(0x79BE667EF9DCBBAC55A06295CE870B07029BFCDB2DCE28D959F2815B16F81798,
       0x483ADA7726A3C4655DA4FBFC0E1108A8FD17B448A68554199C47D08FFB10D4B8),
    n=0xFFFFFFFFFFFFFFFFFFFFFFFFFFFFFFFEBAAEDCE6AF48A03BBFD25E8CD0364141)
SECP256R1 = dict(
    name="secp256r1",
    p=0xFFFFFFFF00000001000000000000000000000000FFFFFFFFFFFFFFFFFFFFFFFF,
    a=0xFFFFFFFF00000001000000000000000000000000FFFFFFFFFFFFFFFFFFFFFFFC,
    b=0x5AC635D8AA3A93E7B3EBBD55769886BC651D06B0CC53B0F63BCE3C3E27D2604B,
    G=(0x6B17D1F2E12C4247F8BCE6E563A440F277037D812DEB33A0F4A13945D898C296,
       0x4FE342E2FE1A7F9B8EE7EB4A7C0F9E162BCE33576B315ECECBB6406837BF51F5),
    n=0xFFFFFFFF00000000FFFFFFFFFFFFFFFFBCE6FAADA7179E84F3B9CAC2FC632551)
BLS12_381_G1 = dict(
    name="bls12_381_g1",
    p=0x1A0111EA397FE69A4B1BA7B6434BACD764774B84F38512BF6730D2A0F6B0F6241EABFFFEB153FFFFB9FEFFFFFFFFAAAB,
    a=0, b=4,
    G=(0x17F1D3A73197D7942695638C4FA9AC0FC3688C4F9774B905A14E3A3F171BAC586C55E83FF97A1AEFFB3AF00ADB22C6BB,
       0x08B3F481E3AAA0F1A09E30ED741D8AE4FCF5E095D5D00AF600DB18CB2C04B3EDD03CC744A2888AE40CAA232946C5E7E1),
    n=0x73EDA753299D7D483339D80809A1D80553BDA402FFFE5BFEFFFFFFFF00000001)
# a user-constructed curve whose group order is wider than 256 bits (NIST P-384, FIPS 186-4 D.1.2.4; p % 4 == 3 as pycoin's
# Generator requires); pycoin ships no module for it - the C02 drivers build Generator(p, a, b, G, n) from these constants.
# Binding: selfcheck() verifies G on the curve, n*G = infinity and (n-1)*G = -G like for the shipped curves.
NIST_P384 = dict(
    name="nist_p384",
    p=2 ** 384 - 2 ** 128 - 2 ** 96 + 2 ** 32 - 1,
    a=2 ** 384 - 2 ** 128 - 2 ** 96 + 2 ** 32 - 1 - 3,
    b=0xB3312FA7E23EE7E4988E056BE3F82D19181D9C6EFE8141120314088F5013875AC656398D8A2ED19D2A85C8EDD3EC2AEF,
    G=(0xAA87CA22BE8B05378EB1C71EF320AD746E1D3B628BA79B9859F741E082542A385502F25DBF55296C3A545E3872760AB7,
       0x3617DE4A96262C6F5D9E98BF9292DC29F8F41DBD289A147CE9DA3113B5F0B8C00A60B1CE1D7E819D7A431D7C90EA0E5F),
    n=0xFFFFFFFFFFFFFFFFFFFFFFFFFFFFFFFFFFFFFFFFFFFFFFFFC7634D81F4372DDF581A0DB248B0A77AECEC196ACCC52973)
PRODUCTION = {c["name"]: c for c in (SECP256K1, SECP256R1, BLS12_381_G1, NIST_P384)}


def _parse_vectors(path, hex_xy):
    """(k, x, y) triples from the VECTORS text block of a repo test file (used as data)"""
    out = []
    with open(path) as f:
        text = f.read()
    body = text.split('VECTORS = """', 1)[1].split('"""', 1)[0]
    for block in body.strip().split("\n\n"):
        lines = [l.strip() for l in block.strip().split("\n")]
        if len(lines) != 3 or not lines[0].startswith("k = "):
            continue
        ks = lines[0][4:]
        k = int(ks, 16) if ks.startswith("0x") else int(ks)
        x = int(lines[1][4:], 16)
        y = int(lines[2][4:], 16)
        out.append((k, x, y))
    return out


def selfcheck(tests_dir="/repo/tests/ecdsa", toy_pmax=31):
    """group axioms on toy curves; known multiples of the secp256k1 / secp256r1 generators as
    transcribed in the repo's tests.  Returns the number of facts checked; raises ValueError."""
    checked = 0
    ncurves = 0
    for (p, a, b, n) in toy_curves(3, toy_pmax):
        ncurves += 1
        pts = points(p, a, b)
        if len(pts) != n:
            raise ValueError("toy order")
        tbl = group_table(p, a, b)
        S = set(pts)
        for P in pts:
            if tbl[(P, None)] != P or tbl[(None, P)] != P:
                raise ValueError("identity %r" % ((p, a, b, P),))
            if tbl[(P, neg(P, p))] is not None:
                raise ValueError("inverse %r" % ((p, a, b, P),))
            if not on_curve(P, p, a, b):
                raise ValueError("membership")
            for Q in pts:
                if tbl[(P, Q)] not in S or tbl[(P, Q)] != tbl[(Q, P)]:
                    raise ValueError("closure/commutativity %r" % ((p, a, b, P, Q),))
            checked += 1
        if n <= 19:
            for P in pts:
                for Q in pts:
                    for R in pts:
                        if tbl[(tbl[(P, Q)], R)] != tbl[(P, tbl[(Q, R)])]:
                            raise ValueError("associativity %r" % ((p, a, b, P, Q, R),))
            checked += 1
        for P in pts[1:]:
            acc = None
            for k in range(0, n + 2):
                if mul(k, P, p, a) != acc or jacobian_mul(k, P, p, a) != acc or mul_repeated(k, P, p, a, n) != acc:
                    raise ValueError("multiples %r" % ((p, a, b, P, k),))
                if mul(-k, P, p, a) != neg(acc, p):
                    raise ValueError("negative multiples %r" % ((p, a, b, P, k),))
                acc = add(acc, P, p, a)
            if mul(n, P, p, a) is not None:
                raise ValueError("order")
            checked += 1
        for x in range(p):
            if points_with_x(x, p, a, b) != lift_x(x, p, a, b):
                raise ValueError("lift_x %r" % ((p, a, b, x),))
    if ncurves < 5:
        raise ValueError("toy curve finder found only %d curves" % ncurves)
    import os
    for cname, fn in (("secp256k1", "secp256k1_test.py"), ("secp256r1", "secp256r1_test.py")):
        c = PRODUCTION[cname]
        vec = _parse_vectors(os.path.join(tests_dir, fn), True)
        if len(vec) < 20:
            raise ValueError("too few vectors in %s" % fn)
        for k, x, y in vec:
            if mul(k, c["G"], c["p"], c["a"]) != (x, y) or jacobian_mul(k, c["G"], c["p"], c["a"]) != (x, y):
                raise ValueError("%s multiple k=%d" % (cname, k))
            checked += 1
    for c in PRODUCTION.values():
        if not on_curve(c["G"], c["p"], c["a"], c["b"]) or mul(c["n"], c["G"], c["p"], c["a"]) is not None:
            raise ValueError("%s: n*G != infinity" % c["name"])
        if mul(c["n"] - 1, c["G"], c["p"], c["a"]) != neg(c["G"], c["p"]):
            raise ValueError("%s: (n-1)*G != -G" % c["name"])
        checked += 2
    return checked
