"""Reference merkle root and BIP37 partial merkle tree (honest builder + verifier).  No pycoin imports.

Bitcoin merkle root: leaves are the transaction hashes (internal byte order); each level pairs neighbours with
double-SHA256(left || right); a level of odd length pairs its LAST element with itself.

BIP37 partial merkle tree: depth-first traversal from the root; at each node one flag bit is appended: 1 if the
node is an ancestor of (or is) a matched leaf, else 0; for a 0 node or a leaf the node's hash is appended and
the traversal does not descend; bits are packed LSB-first into bytes, padding bits are 0.
"""
import hashlib


class ProofError(Exception):
    pass


def dsha256(b):
    return hashlib.sha256(hashlib.sha256(b).digest()).digest()


def merkle_root(hashes):
    level = [bytes(h) for h in hashes]
    if not level:
        raise ValueError("no hashes")
    while len(level) > 1:
        if len(level) % 2 == 1:
            level = level + [level[-1]]
        level = [dsha256(level[i] + level[i + 1]) for i in range(0, len(level), 2)]
    return level[0]


def tree_width(n, height):
    return (n + (1 << height) - 1) >> height


def tree_height(n):
    h = 0
    while tree_width(n, h) > 1:
        h += 1
    return h


def node_hash(height, pos, txids):
    if height == 0:
        return txids[pos]
    left = node_hash(height - 1, pos * 2, txids)
    if pos * 2 + 1 < tree_width(len(txids), height - 1):
        right = node_hash(height - 1, pos * 2 + 1, txids)
    else:
        right = left
    return dsha256(left + right)


def build_proof(txids, match):
    """-> (hashes, flag_bytes (list of int), number_of_flag_bits)"""
    n = len(txids)
    assert n >= 1 and len(match) == n
    bits = []
    hashes = []

    def traverse(height, pos):
        parent_of_match = False
        for p in range(pos << height, min((pos + 1) << height, n)):
            if match[p]:
                parent_of_match = True
        bits.append(1 if parent_of_match else 0)
        if height == 0 or not parent_of_match:
            hashes.append(node_hash(height, pos, txids))
        else:
            traverse(height - 1, pos * 2)
            if pos * 2 + 1 < tree_width(n, height - 1):
                traverse(height - 1, pos * 2 + 1)

    traverse(tree_height(n), 0)
    flags = [0] * ((len(bits) + 7) // 8)
    for i, b in enumerate(bits):
        if b:
            flags[i // 8] |= 1 << (i % 8)
    return hashes, flags, len(bits)


def verify_proof(n, hashes, flags, root):
    """BIP37 verification -> list of matched txids in order; raises ProofError"""
    if n < 1:
        raise ProofError("no transactions")
    state = {"bit": 0, "hash": 0}
    matched = []

    def take_bit():
        i = state["bit"]
        if i >= len(flags) * 8:
            raise ProofError("out of flag bits")
        state["bit"] = i + 1
        return (flags[i // 8] >> (i % 8)) & 1

    def take_hash():
        i = state["hash"]
        if i >= len(hashes):
            raise ProofError("out of hashes")
        state["hash"] = i + 1
        return hashes[i]

    def traverse(height, pos):
        flag = take_bit()
        if height == 0 or not flag:
            h = take_hash()
            if height == 0 and flag:
                matched.append(h)
            return h
        left = traverse(height - 1, pos * 2)
        if pos * 2 + 1 < tree_width(n, height - 1):
            right = traverse(height - 1, pos * 2 + 1)
            if left == right:
                raise ProofError("identical left and right")
        else:
            right = left
        return dsha256(left + right)

    got = traverse(tree_height(n), 0)
    if state["hash"] != len(hashes):
        raise ProofError("unused hashes")
    if (state["bit"] + 7) // 8 != len(flags):
        raise ProofError("unused flag bytes")
    for i in range(state["bit"], len(flags) * 8):
        if (flags[i // 8] >> (i % 8)) & 1:
            raise ProofError("padding bit set")
    if got != root:
        raise ProofError("root mismatch")
    return matched


def selfcheck(repo="/repo"):
    """roots published in pycoin/merkle.py:test_merkle (blocks 71043, 71038) read as data; builder o verifier identity"""
    import os
    import re
    with open(os.path.join(repo, "pycoin", "merkle.py")) as f:
        src = f.read()
    body = src[src.index("def test_merkle"):]
    hx = [bytes.fromhex(h)[::-1] for h in re.findall(r"h2b_rev\(\"([0-9a-f]{64})\"\)", body)]
    assert len(hx) == 8, "expected 8 hashes in test_merkle, found %d" % len(hx)
    n = 0
    assert merkle_root([hx[0]]) == hx[0]
    assert merkle_root([hx[2], hx[3]]) == hx[1]
    assert merkle_root([hx[5], hx[6], hx[7]]) == hx[4]
    n += 3
    # definition cross-check: three leaves = H(H(a,b), H(c,c))
    a, b, c = hx[5], hx[6], hx[7]
    assert merkle_root([a, b, c]) == dsha256(dsha256(a + b) + dsha256(c + c))
    n += 1
    for k in range(1, 8):
        txids = [hashlib.sha256(b"selfcheck-%d-%d" % (k, i)).digest() for i in range(k)]
        root = merkle_root(txids)
        assert node_hash(tree_height(k), 0, txids) == root
        for mask in range(1 << k):
            match = [(mask >> i) & 1 for i in range(k)]
            hashes, flags, nbits = build_proof(txids, match)
            assert verify_proof(k, hashes, flags, root) == [t for t, m in zip(txids, match) if m]
            n += 1
    return n
