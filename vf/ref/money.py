"""Value-conservation reference: split-pool arithmetic and satoshi <-> BTC / mBTC decimal text, in
integer arithmetic only (no decimal, no float).  No pycoin imports."""

MAX_SATOSHI = 21 * 10 ** 14
BTC_DIGITS = 8
MBTC_DIGITS = 5


def split_pool(pool, j):
    """share `pool` satoshi among j >= 1 unspecified outputs: every share positive, shares differ by
    at most one, earlier outputs receive the remainder.  None when that is impossible (pool < j)."""
    assert j >= 1
    if pool < j:
        return None
    base = pool // j
    extra = pool - base * j
    return [base + 1 if i < extra else base for i in range(j)]


def expected_outputs(input_values, payables, fee):
    """payables: list of amounts, 0 meaning 'unspecified'.  Returns list of output amounts or None
    (must be refused).  With no unspecified output the amounts are returned unchanged."""
    j = sum(1 for v in payables if v == 0)
    if j == 0:
        return list(payables)
    pool = sum(input_values) - sum(payables) - fee
    shares = split_pool(pool, j)
    if shares is None:
        return None
    it = iter(shares)
    return [next(it) if v == 0 else v for v in payables]


def to_fixed(sat, digits):
    """exact decimal text of sat / 10^digits with exactly `digits` fractional digits"""
    assert sat >= 0
    q, r = divmod(sat, 10 ** digits)
    return "%d.%0*d" % (q, digits, r)


def to_shortest(sat, digits):
    """decimal text with the trailing fractional zeros removed ("1", "0.5", "0.00000001")"""
    t = to_fixed(sat, digits).rstrip("0")
    return t[:-1] if t.endswith(".") else t


def texts(sat, digits):
    """every decimal spelling with 0..digits fractional digits that denotes exactly sat / 10^digits"""
    full = to_fixed(sat, digits)
    out = [full]
    t = full
    while t[-1] == "0":
        t = t[:-1]
        out.append(t[:-1] if t.endswith(".") else t)
        if t.endswith("."):
            break
    return out


def from_text(text, digits):
    """satoshi for a decimal text with at most `digits` fractional digits (exact)"""
    if "." in text:
        a, b = text.split(".")
    else:
        a, b = text, ""
    assert len(b) <= digits and (a + b).isdigit()
    return int(a or "0") * 10 ** digits + int((b + "0" * digits)[:digits] or "0")


def selfcheck():
    bad = []
    n = 0
    for pool, j, exp in ((1, 1, [1]), (0, 1, None), (5, 2, [3, 2]), (6, 3, [2, 2, 2]), (7, 3, [3, 2, 2]),
                         (8, 3, [3, 3, 2]), (2, 3, None), (3, 3, [1, 1, 1]), (-1, 2, None)):
        n += 1
        if split_pool(pool, j) != exp:
            bad.append("split %d/%d" % (pool, j))
    for pool in range(0, 40):
        for j in range(1, 6):
            n += 1
            s = split_pool(pool, j)
            if s is None:
                if pool >= j:
                    bad.append("refused %d/%d" % (pool, j))
            elif sum(s) != pool or min(s) < 1 or max(s) - min(s) > 1 or s != sorted(s, reverse=True):
                bad.append("law %d/%d" % (pool, j))
    n += 1
    if expected_outputs([10], [0, 3, 0], 2) != [3, 3, 2] or expected_outputs([10], [0, 9], 1) is not None:
        bad.append("expected_outputs")
    for sat, d, full, short in ((0, 8, "0.00000000", "0"), (1, 8, "0.00000001", "0.00000001"),
                                (150000000, 8, "1.50000000", "1.5"), (MAX_SATOSHI, 8, "21000000.00000000", "21000000"),
                                (123, 5, "0.00123", "0.00123"), (100000, 5, "1.00000", "1")):
        n += 1
        if to_fixed(sat, d) != full or to_shortest(sat, d) != short:
            bad.append("text %d" % sat)
        for t in texts(sat, d):
            if from_text(t, d) != sat:
                bad.append("from_text %s" % t)
    n += 1
    if texts(150000000, 8) != ["1.50000000", "1.5000000", "1.500000", "1.50000", "1.5000", "1.500", "1.50", "1.5"]:
        bad.append("texts")
    if texts(100000000, 8)[-1] != "1" or len(texts(100000000, 8)) != 9:
        bad.append("texts integer")
    return n, bad
