"""Bitcoin "signed message" reference: magic hash, 65-byte compact recoverable signature semantics
(Bitcoin Core: MessageHash / CPubKey::RecoverCompact, libsecp256k1 recoverable-signature parse and
recover; SEC1 4.1.6), strict base64.  No pycoin imports."""
import base64
import hashlib

from . import bip32 as k1     # own minimal secp256k1 arithmetic lives there

P, N, G = k1.P, k1.N, k1.G


def compact_size(n):
    if n < 253:
        return bytes([n])
    if n <= 0xFFFF:
        return b"\xfd" + n.to_bytes(2, "little")
    if n <= 0xFFFFFFFF:
        return b"\xfe" + n.to_bytes(4, "little")
    return b"\xff" + n.to_bytes(8, "little")


def magic_hash(network_name, message_text):
    """SHA256d( ser_string("<name> Signed Message:\\n") || ser_string(utf8(message)) ) as an integer"""
    magic = ("%s Signed Message:\n" % network_name).encode("utf8")
    msg = message_text.encode("utf8")
    data = compact_size(len(magic)) + magic + compact_size(len(msg)) + msg
    return int.from_bytes(hashlib.sha256(hashlib.sha256(data).digest()).digest(), "big")


def strict_b64decode(text):
    """bytes if text is canonical RFC 4648 base64 (standard alphabet, correct padding, no other
    characters), else None"""
    if not isinstance(text, str):
        return None
    try:
        raw = text.encode("ascii")
    except UnicodeEncodeError:
        return None
    if len(raw) % 4:
        return None
    try:
        out = base64.b64decode(raw, validate=True)
    except Exception:
        return None
    if base64.b64encode(out) != raw:
        return None          # non-zero padding bits
    return out


def recover_compact(sig65, e):
    """(public point, compressed flag) or None.
    header 27..34: recid = (h-27) & 3, compressed = (h-27) & 4; r, s in [1, n-1];
    R.x = r + (recid >> 1) * n must be < p and on the curve, R.y parity = recid & 1;
    Q = r^-1 (s R - e G), must not be infinity."""
    if len(sig65) != 65:
        return None
    h = sig65[0]
    if not 27 <= h <= 34:
        return None
    recid = (h - 27) & 3
    compressed = bool((h - 27) & 4)
    r = int.from_bytes(sig65[1:33], "big")
    s = int.from_bytes(sig65[33:65], "big")
    if not (1 <= r < N and 1 <= s < N):
        return None
    x = r + (recid >> 1) * N
    if x >= P:
        return None
    R = k1.lift_x(x, recid & 1)
    if R is None:
        return None
    rinv = k1.inv(r, N)
    Q = k1.pt_add(k1.pt_mul(s * rinv % N, R), k1.pt_neg(k1.pt_mul(e * rinv % N, G)))
    if Q is k1.INF:
        return None
    return Q, compressed


def ecdsa_verify(Q, e, r, s):
    if not (1 <= r < N and 1 <= s < N) or Q is k1.INF or not k1.on_curve(Q):
        return False
    w = k1.inv(s, N)
    X = k1.pt_add(k1.pt_mul(e * w % N, G), k1.pt_mul(r * w % N, Q))
    return X is not k1.INF and X[0] % N == r


def ecdsa_sign_with_k(d, e, k):
    """(header recid, r, s) for nonce k - used only to manufacture test signatures in selfcheck"""
    R = k1.pt_mul(k, G)
    r = R[0] % N
    s = k1.inv(k, N) * (e + d * r) % N
    recid = (R[1] & 1) | (2 if R[0] >= N else 0)
    return recid, r, s


def pubkey_bytes(Q, compressed):
    return k1.ser_p(Q, compressed)


def key_hash160(Q, compressed):
    return k1.hash160(k1.ser_p(Q, compressed))


ARMOUR = ("-----BEGIN {net} SIGNED MESSAGE-----\n{msg}\n-----BEGIN SIGNATURE-----\n{addr}\n{sig}\n"
          "-----END {net} SIGNED MESSAGE-----")


def armour_side_conditions(message):
    """the property's side conditions for the armoured form: one newline style, no armour marker line"""
    if "\r\n" in message:
        if "\n" in message.replace("\r\n", "") or "\r" in message.replace("\r\n", ""):
            return False
    elif "\r" in message:
        return False
    if "-----BEGIN" in message or "-----END" in message or "SIGNED MESSAGE-----" in message:
        return False
    return True


WILD = [
    ("Bitcoin", "This is an example of a signed message.", "1HZwkjkeaoZfTSaJxDw6aKkxp45agDiEzN", b"\x00",
     "HCT1esk/TWlF/o9UNzLDANqsPXntkMErf7erIrjH5IBOZP98cNcmWmnW0GpSAi3wbr6CwpUAN4ctNn1T71UBwSc="),
]


def selfcheck():
    bad = []
    n = 0
    # compact sizes
    for v, hx in ((0, "00"), (252, "fc"), (253, "fdfd00"), (65535, "fdffff"), (65536, "fe00000100")):
        n += 1
        if compact_size(v).hex() != hx:
            bad.append("compact_size %d" % v)
    # the well-known magic prefix serialisation
    n += 1
    want = hashlib.sha256(hashlib.sha256(b"\x18Bitcoin Signed Message:\n\x05hello").digest()).digest()
    if magic_hash("Bitcoin", "hello") != int.from_bytes(want, "big"):
        bad.append("magic hash")
    # sign (own nonce) -> recover -> verify, all four header variants that occur
    e = magic_hash("Bitcoin", "hello")
    for d in (1, 2, N - 1, 0xC0FFEE):
        Q = k1.pt_mul(d, G)
        for k in (3, 0x1234567, N - 2):
            recid, r, s = ecdsa_sign_with_k(d, e, k)
            for comp in (False, True):
                n += 1
                sig = bytes([27 + recid + (4 if comp else 0)]) + r.to_bytes(32, "big") + s.to_bytes(32, "big")
                got = recover_compact(sig, e)
                if got != (Q, comp) or not ecdsa_verify(Q, e, r, s):
                    bad.append("recover d=%x k=%x" % (d, k))
                wrong = bytes([27 + (recid ^ 1) + (4 if comp else 0)]) + sig[1:]
                g2 = recover_compact(wrong, e)
                if g2 is not None and g2[0] == Q:
                    bad.append("wrong recid recovers the signer")
    # signatures found in the wild (quoted in tests/msg_signing_test.py)
    for name, msg, addr, ver, sig in WILD:
        n += 1
        got = recover_compact(strict_b64decode(sig) or b"", magic_hash(name, msg))
        if got is None or k1.b58check(ver + key_hash160(*got)) != addr:
            bad.append("wild signature for %s" % addr)
    # strict base64
    for t, ok in (("", True), ("AA==", True), ("AB==", False), ("AA=", False), ("A", False), ("AAAA", True),
                  ("AA AA", False), ("AAAA\n", False), ("-_-_", False), ("é", False)):
        n += 1
        if (strict_b64decode(t) is not None) != ok:
            bad.append("strict base64 %r" % t)
    return n, bad
