"""MurmurHash3_x86_32 (Austin Appleby, public domain, MurmurHash3.cpp) and the BIP37 bloom-filter
bit addressing.  All arithmetic is done on values reduced to 32 bits after every step, exactly as
uint32_t arithmetic in the C++ source.  No pycoin imports."""

M32 = 0xFFFFFFFF
C1 = 0xCC9E2D51
C2 = 0x1B873593
BIP37_SEED_MUL = 0xFBA4C795
BIP37_MAX_FILTER_BYTES = 36000
BIP37_MAX_HASH_FUNCS = 50


def rotl32(x, r):
    return ((x << r) & M32) | (x >> (32 - r))


def fmix32(h):
    h ^= h >> 16
    h = (h * 0x85EBCA6B) & M32
    h ^= h >> 13
    h = (h * 0xC2B2AE35) & M32
    h ^= h >> 16
    return h


def murmur3_32(data, seed):
    """seed is a uint32_t in the C++ interface: a wider or negative Python int is reduced mod 2^32"""
    data = bytes(data)
    h1 = seed % (1 << 32)
    nblocks = len(data) // 4
    for i in range(nblocks):
        k1 = int.from_bytes(data[4 * i:4 * i + 4], "little")
        k1 = (k1 * C1) & M32
        k1 = rotl32(k1, 15)
        k1 = (k1 * C2) & M32
        h1 ^= k1
        h1 = rotl32(h1, 13)
        h1 = (h1 * 5 + 0xE6546B64) & M32
    tail = data[4 * nblocks:]
    if tail:
        k1 = int.from_bytes(tail, "little")      # tail[0] | tail[1] << 8 | tail[2] << 16
        k1 = (k1 * C1) & M32
        k1 = rotl32(k1, 15)
        k1 = (k1 * C2) & M32
        h1 ^= k1
    h1 ^= len(data) & M32
    return fmix32(h1)


def bip37_seed(hash_index, tweak):
    """nHashNum * 0xFBA4C795 + nTweak in unsigned 32-bit arithmetic"""
    return (hash_index * BIP37_SEED_MUL + tweak) % (1 << 32)


def bip37_positions(item, size_bytes, nfuncs, tweak):
    """bit indices (in insertion order, repeats possible) that BIP37 sets for one element"""
    nbits = size_bytes * 8
    return [murmur3_32(item, bip37_seed(i, tweak)) % nbits for i in range(nfuncs)]


def bip37_filter(items, size_bytes, nfuncs, tweak):
    """filter bytes after inserting items into an empty filter: vData[i >> 3] |= 1 << (i & 7)"""
    v = bytearray(size_bytes)
    for it in items:
        for pos in bip37_positions(it, size_bytes, nfuncs, tweak):
            v[pos >> 3] |= 1 << (pos & 7)
    return bytes(v)


def bip37_contains(filter_bytes, item, nfuncs, tweak):
    """what a peer evaluates for an element (CBloomFilter::contains)"""
    for pos in bip37_positions(item, len(filter_bytes), nfuncs, tweak):
        if not filter_bytes[pos >> 3] & (1 << (pos & 7)):
            return False
    return True


# https://stackoverflow.com/questions/14747343/murmurhash3-test-vectors (also in tests/bloomfilter_test.py)
VECTORS = [
    ("", 0, 0),
    ("", 1, 0x514E28B7),
    ("", 0xFFFFFFFF, 0x81F16F39),
    ("FFFFFFFF", 0, 0x76293B50),
    ("21436587", 0, 0xF55B516B),
    ("21436587", 0x5082EDEE, 0x2362F9DE),
    ("214365", 0, 0x7E4A8634),
    ("2143", 0, 0xA0F7B07A),
    ("21", 0, 0x72661CF4),
    ("00000000", 0, 0x2362F9DE),
    ("000000", 0, 0x85F0B427),
    ("0000", 0, 0x30F4C306),
    ("00", 0, 0x514E28B7),
]

# Bitcoin Core src/test/bloom_tests.cpp (bloom_create_insert_serialize, ..._with_tweak): serialised
# filter = compact-size length, vData, nHashFuncs LE32, nTweak LE32, nFlags
CORE_BLOOM = [
    (3, 5, 0, ["99108ad8ed9bb6274d3980bab5a85c048f0950c8", "b5a2c786d9ef4658287ced5914b37a1b4aa32eee",
               "b9300670b4c5366e95b2699e8b18bc75e5f729c5"], "614e9b"),
    (3, 5, 2147483649, ["99108ad8ed9bb6274d3980bab5a85c048f0950c8", "b5a2c786d9ef4658287ced5914b37a1b4aa32eee",
                        "b9300670b4c5366e95b2699e8b18bc75e5f729c5"], "ce4299"),
]


def selfcheck(extra_vectors=()):
    """returns (count, failures); extra_vectors: (hex data, seed, expected) triples read from test files"""
    bad = []
    n = 0
    for hx, seed, exp in list(VECTORS) + list(extra_vectors):
        n += 1
        if murmur3_32(bytes.fromhex(hx), seed) != exp:
            bad.append("murmur3 %s seed %d" % (hx, seed))
    for size, nf, tweak, items, exp in CORE_BLOOM:
        n += 1
        got = bip37_filter([bytes.fromhex(i) for i in items], size, nf, tweak)
        if got.hex() != exp:
            bad.append("core bloom tweak %d: %s" % (tweak, got.hex()))
        if not all(bip37_contains(got, bytes.fromhex(i), nf, tweak) for i in items):
            bad.append("core bloom contains")
    return n, bad
