"""Reference RFC 6979 nonce generation (section 3.2, HMAC with any hashlib hash, SHA-256 by
default) and textbook ECDSA sign / verify / recover (SEC1 4.1) over the arithmetic in vf.ref.ec.

Conventions (those of the property text): the message hash is given as an integer z that stands
for a `hlen`-bit string (hlen = 256 for SHA-256).  RFC 6979's bits2int/bits2octets are applied to
that string inside the nonce derivation.  The ECDSA equations themselves use z reduced mod n (the
property's verification formula is stated on z itself; on 256-bit curves this coincides with
bits2int).  A curve is a dict with keys p, a, b, G, n.
"""
import hashlib
import hmac

from . import ec


def bits2int(bs, qlen):
    v = int.from_bytes(bs, "big")
    blen = 8 * len(bs)
    if blen > qlen:
        v >>= blen - qlen
    return v


def int2octets(v, rolen):
    return v.to_bytes(rolen, "big")


def bits2octets(bs, q, qlen, rolen):
    z1 = bits2int(bs, qlen)
    z2 = z1 % q
    return int2octets(z2, rolen)


def nonce_stream(q, x, z, hashfn=hashlib.sha256):
    """yield the successive RFC 6979 candidate nonces k_1, k_2, ... in [1, q-1] for private key x
    and hash value z (an int standing for a digest_size-byte string).  The caller takes the first
    one that is 'suitable' (gives r != 0 and s != 0): this is steps a-h of section 3.2 including
    the continuation K = HMAC_K(V || 0x00); V = HMAC_K(V) after an unsuitable k."""
    hlen = hashfn().digest_size
    qlen = q.bit_length()
    rolen = (qlen + 7) // 8
    h1 = z.to_bytes(hlen, "big")
    V = b"\x01" * hlen
    K = b"\x00" * hlen
    xo = int2octets(x, rolen)
    ho = bits2octets(h1, q, qlen, rolen)
    K = hmac.new(K, V + b"\x00" + xo + ho, hashfn).digest()
    V = hmac.new(K, V, hashfn).digest()
    K = hmac.new(K, V + b"\x01" + xo + ho, hashfn).digest()
    V = hmac.new(K, V, hashfn).digest()
    while True:
        T = b""
        while 8 * len(T) < qlen:
            V = hmac.new(K, V, hashfn).digest()
            T += V
        k = bits2int(T, qlen)
        if 1 <= k < q:
            yield k
        K = hmac.new(K, V + b"\x00", hashfn).digest()
        V = hmac.new(K, V, hashfn).digest()


def nonce(q, x, z, hashfn=hashlib.sha256):
    """the first RFC 6979 nonce (what a `generate_k` function returns)"""
    for k in nonce_stream(q, x, z, hashfn):
        return k


def rs_for_nonce(curve, d, z, k):
    """(r, s, R) produced by nonce k; r or s may be 0 (unsuitable nonce)"""
    p, a, n = curve["p"], curve["a"], curve["n"]
    R = ec.mul(k, curve["G"], p, a)
    if R is None:
        return 0, 0, R
    r = R[0] % n
    s = ec.inv(k, n) * (z + r * d) % n
    return r, s, R


def sign(curve, d, z, hashfn=hashlib.sha256, max_tries=1000):
    """deterministic ECDSA: returns dict(r, s, k, R, tries) using the first suitable nonce of the
    RFC 6979 stream; None when max_tries candidates were all unsuitable."""
    tries = 0
    for k in nonce_stream(curve["n"], d, z, hashfn):
        tries += 1
        r, s, R = rs_for_nonce(curve, d, z, k)
        if r != 0 and s != 0:
            return dict(r=r, s=s, k=k, R=R, tries=tries)
        if tries >= max_tries:
            return None


def verify_detail(curve, Q, z, r, s):
    """the property's predicate: 1 <= r, s < n and x((z/s)G + (r/s)Q) mod n == r, with the reason.
    Q is None (infinity) or an affine point with coordinates already reduced."""
    p, a, n = curve["p"], curve["a"], curve["n"]
    if not (1 <= r < n and 1 <= s < n):
        return False, "range"
    w = ec.inv(s, n)
    u1 = z * w % n
    u2 = r * w % n
    X = ec.add(ec.mul(u1, curve["G"], p, a), ec.mul(u2, Q, p, a), p, a)
    if X is None:
        return False, "sum-infinity"
    if X[0] % n == r:
        return True, "valid"
    return False, "x-mismatch"


def verify(curve, Q, z, r, s):
    return verify_detail(curve, Q, z, r, s)[0]


def recover_bruteforce(curve, z, r, s):
    """toy curves: every group element Q != infinity under which (r, s) verifies for z"""
    return [Q for Q in ec.points(curve["p"], curve["a"], curve["b"])[1:] if verify(curve, Q, z, r, s)]


def valid_nonces(curve, d, z):
    """toy curves: all k in [1, n-1] that give r != 0 and s != 0"""
    out = []
    for k in range(1, curve["n"]):
        r, s, R = rs_for_nonce(curve, d, z, k)
        if r != 0 and s != 0:
            out.append(k)
    return out


def selfcheck():
    """RFC 6979 A.1 (q of 163 bits), A.2.3 (P-192, five hashes x two messages), A.2.5 (P-224)
    nonce vectors as transcribed in /repo/tests/ecdsa/rfc6979_test.py, the secp256k1 d=1,z=1
    signature of tests/ecdsa/ecdsa_test.py, and sign o verify on toy curves exhaustively."""
    n = 0

    def want(got, exp, what):
        if got != exp:
            raise ValueError("rfc6979 vector %s: got %x expected %x" % (what, got, exp))

    sample = int.from_bytes(hashlib.sha256(b"sample").digest(), "big")
    want(sample, 0xAF2BDBE1AA9B6EC1E2ADE1D694F41FC71A831D0268E9891562113D8A62ADD1BF, "sha256(sample)")
    want(nonce(0x4000000000000000000020108A2E0CC0D99F8A5EF, 0x09A4D6792295A7F730FC3F2B49CBC0F62E862272F, sample),
         0x23AF4074C90A02B3FE61D286D5C87F425E6BDD81B, "A.1")
    n += 1
    q = 0xFFFFFFFFFFFFFFFFFFFFFFFF99DEF836146BC9B1B4D22831
    x = 0x6FAB034934E4C0FC9AE67F5B5659A9D7D1FEFD187EE09FD4
    for msg, vals in ((b"sample", ((hashlib.sha1, 0x37D7CA00D2C7B0E5E412AC03BD44BA837FDD5B28CD3B0021),
                                   (hashlib.sha224, 0x4381526B3FC1E7128F202E194505592F01D5FF4C5AF015D8),
                                   (hashlib.sha256, 0x32B1B6D7D42A05CB449065727A84804FB1A3E34D8F261496),
                                   (hashlib.sha384, 0x4730005C4FCB01834C063A7B6760096DBE284B8252EF4311),
                                   (hashlib.sha512, 0xA2AC7AB055E4F20692D49209544C203A7D1F2C0BFBC75DB1))),
                      (b"test", ((hashlib.sha1, 0xD9CF9C3D3297D3260773A1DA7418DB5537AB8DD93DE7FA25),
                                 (hashlib.sha224, 0xF5DC805F76EF851800700CCE82E7B98D8911B7D510059FBE),
                                 (hashlib.sha256, 0x5C4CE89CF56D9E7C77C8585339B006B97B5F0680B4306C6C),
                                 (hashlib.sha384, 0x5AFEFB5D3393261B828DB6C91FBC68C230727B030C975693),
                                 (hashlib.sha512, 0x0758753A5254759C7CFBAD2E2D9B0792EEE44136C9480527)))):
        for hf, k in vals:
            want(nonce(q, x, int.from_bytes(hf(msg).digest(), "big"), hf), k, "A.2.3 %s %s" % (msg, hf().name))
            n += 1
    want(nonce(0xFFFFFFFFFFFFFFFFFFFFFFFFFFFF16A2E0B8F03E13DD29455C5C2A3D,
               0xF220266E1105BFE3083E03EC7A3A654651F45E37167E88600BF257C1, sample),
         0xAD3029E0278F80643DE33917CE6908C70A8FF50A411F06E41DEDFCDC, "A.2.5")
    n += 1
    # RFC 6979 A.2.5 also publishes the P-256 signature of "sample" with SHA-256 (not in the repo's
    # tests, quoted from the RFC): binds sign() as a whole
    c = ec.SECP256R1
    sg = sign(c, 0xC9AFA9D845BA75166B5C215767B1D6934E50C3DB36E89B127B8A622B120F6721, sample)
    want(sg["k"], 0xA6E3C57DD01ABE90086538398355DD4C3B17AA873382B0F24D6129493D8AAD60, "A.2.5 P-256 k")
    want(sg["r"], 0xEFD48B2AACB6A8FD1140DD9CD45E81D69D2C877B56AAF991C34D0EA84EAF3716, "A.2.5 P-256 r")
    want(sg["s"], 0xF7CB1C942D657C41D436C7A1B6E29F65F3E900DBB9AFF4064DC4AB2F843ACDA8, "A.2.5 P-256 s")
    n += 3
    # tests/ecdsa/ecdsa_test.py test_sign_simple: secp256k1, d = 1, z = 1
    c = ec.SECP256K1
    sg = sign(c, 1, 1)
    want(sg["r"], 46340862580836590753275244201733144181782255593078084106116359912084275628184, "k1 d=1 z=1 r")
    if sg["s"] not in (81369331955758484632176499244870227132558660296342819670803726373940306621624,
                       34422757281557710791394485763817680720278903982732084711801436767577854872713):
        raise ValueError("k1 d=1 z=1 s")
    if not verify(c, c["G"], 1, sg["r"], sg["s"]) or verify(c, c["G"], 1, sg["r"], sg["s"] ^ 1) \
            or verify(c, c["G"], 2, sg["r"], sg["s"]) or not verify(c, c["G"], 1, sg["r"], c["n"] - sg["s"]):
        raise ValueError("k1 verify")
    n += 2
    # toy curves: every suitable nonce gives a signature that verifies under d*G and (when n is
    # large enough for keys to differ) recover contains d*G
    for (p, a, b, order) in ec.toy_curves(3, 11):
        G = ec.points(p, a, b)[1]
        cv = dict(p=p, a=a, b=b, G=G, n=order)
        for d in range(1, order):
            Q = ec.mul(d, G, p, a)
            for z in range(1, order + 2):
                for k in valid_nonces(cv, d, z):
                    r, s, R = rs_for_nonce(cv, d, z, k)
                    if not verify(cv, Q, z, r, s) or Q not in recover_bruteforce(cv, z, r, s):
                        raise ValueError("toy sign/verify %r" % ((p, a, b, d, z, k),))
                    if verify(cv, Q, z, r, 0) or verify(cv, Q, z, 0, s) or verify(cv, Q, z, r + order, s):
                        raise ValueError("toy range %r" % ((p, a, b, d, z, k),))
                sg = sign(cv, d, z)
                if sg is not None and not verify(cv, Q, z, sg["r"], sg["s"]):
                    raise ValueError("toy sign %r" % ((p, a, b, d, z),))
        n += 1
    return n
