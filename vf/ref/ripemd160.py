"""RIPEMD-160 written from the specification (Dobbertin, Bosselaers, Preneel: "RIPEMD-160, a
strengthened version of RIPEMD", 1996), independent of pycoin/contrib/ripemd160.py.

The message-word order is *generated* from the two permutations the paper defines
(rho and pi(i) = 9i+5 mod 16) and the rotation amounts come from the paper's table, which is
indexed by round and by *message word* (the same table serves both lines); the flat 80-entry
tables used by most ports are therefore never written down here.  No pycoin imports."""
import hashlib

RHO = (7, 4, 13, 1, 10, 6, 15, 3, 12, 0, 9, 5, 2, 14, 11, 8)
PI = tuple((9 * i + 5) % 16 for i in range(16))

# rotation amount for message word X_i in round 1..5 (paper, table of shifts)
SHIFT = (
    (11, 14, 15, 12, 5, 8, 7, 9, 11, 13, 14, 15, 6, 7, 9, 8),
    (12, 13, 11, 15, 6, 9, 9, 7, 12, 15, 11, 13, 7, 8, 7, 7),
    (13, 15, 14, 11, 7, 7, 6, 8, 13, 14, 13, 12, 5, 5, 6, 9),
    (14, 11, 12, 14, 8, 6, 5, 5, 15, 12, 15, 14, 9, 9, 8, 6),
    (15, 12, 13, 13, 9, 5, 8, 6, 14, 11, 12, 11, 8, 6, 5, 5),
)

K_LEFT = (0x00000000, 0x5A827999, 0x6ED9EBA1, 0x8F1BBCDC, 0xA953FD4E)    # 0, 2^30*sqrt(2,3,5,7)
K_RIGHT = (0x50A28BE6, 0x5C4DD124, 0x6D703EF3, 0x7A6D76E9, 0x00000000)   # 2^30*cbrt(2,3,5,7), 0

IV = (0x67452301, 0xEFCDAB89, 0x98BADCFE, 0x10325476, 0xC3D2E1F0)
M32 = 0xFFFFFFFF


def word_order():
    """(left, right): five rounds of 16 message-word indices each"""
    left = [tuple(range(16))]
    right = [PI]
    for _ in range(4):
        left.append(tuple(RHO[i] for i in left[-1]))
        right.append(tuple(RHO[i] for i in right[-1]))
    return left, right


LEFT, RIGHT = word_order()


def f(j, x, y, z):
    if j == 0:
        return x ^ y ^ z
    if j == 1:
        return (x & y) | ((x ^ M32) & z)
    if j == 2:
        return (x | (y ^ M32)) ^ z
    if j == 3:
        return (x & z) | (y & (z ^ M32))
    return x ^ (y | (z ^ M32))


def rol(x, n):
    x &= M32
    return ((x << n) | (x >> (32 - n))) & M32


def compress(h, block):
    assert len(block) == 64
    X = [int.from_bytes(block[4 * i:4 * i + 4], "little") for i in range(16)]
    left, right = LEFT, RIGHT
    A, B, C, D, E = h
    A2, B2, C2, D2, E2 = h
    for rnd in range(5):
        for i in range(16):
            w = left[rnd][i]
            T = (rol((A + f(rnd, B, C, D) + X[w] + K_LEFT[rnd]) & M32, SHIFT[rnd][w]) + E) & M32
            A, E, D, C, B = E, D, rol(C, 10), B, T
            w = right[rnd][i]
            T = (rol((A2 + f(4 - rnd, B2, C2, D2) + X[w] + K_RIGHT[rnd]) & M32, SHIFT[rnd][w]) + E2) & M32
            A2, E2, D2, C2, B2 = E2, D2, rol(C2, 10), B2, T
    T = (h[1] + C + D2) & M32
    return (T, (h[2] + D + E2) & M32, (h[3] + E + A2) & M32, (h[4] + A + B2) & M32, (h[0] + B + C2) & M32)


def pad(n):
    """MD4-style padding for a message of n bytes: 0x80, zeros up to 56 mod 64, 64-bit LE bit length"""
    zeros = (55 - n) % 64
    return b"\x80" + b"\x00" * zeros + ((8 * n) % (1 << 64)).to_bytes(8, "little")


def ripemd160(data):
    data = bytes(data)
    msg = data + pad(len(data))
    assert len(msg) % 64 == 0
    h = IV
    for off in range(0, len(msg), 64):
        h = compress(h, msg[off:off + 64])
    return b"".join(x.to_bytes(4, "little") for x in h)


def hash160(data):
    return ripemd160(hashlib.sha256(bytes(data)).digest())


# https://homes.esat.kuleuven.be/~bosselae/ripemd160.html
VECTORS = [
    (b"", "9c1185a5c5e9fc54612808977ee8f548b2258d31"),
    (b"a", "0bdc9d2d256b3ee9daae347be6f4dc835a467ffe"),
    (b"abc", "8eb208f7e05d987a9b044a8e98c6b087f15a0bfc"),
    (b"message digest", "5d0689ef49d2fae572b881b123a85ffa21595f36"),
    (b"abcdefghijklmnopqrstuvwxyz", "f71c27109c692c1b56bbdceb5b9d2865b3708dbc"),
    (b"abcdbcdecdefdefgefghfghighijhijkijkljklmklmnlmnomnopnopq", "12a053384a9c0c88e405a06c27dcf49ada62eb2b"),
    (b"ABCDEFGHIJKLMNOPQRSTUVWXYZabcdefghijklmnopqrstuvwxyz0123456789", "b0e20b6e3116640286ed3a87a5713079b21f5189"),
    (b"1234567890" * 8, "9b752e45573d4b39f4dbd3323cab82bf63326bfb"),
]
MILLION_A = "52783243c1697bdbe16d37f97f68f08325dc1528"


def native_available():
    try:
        hashlib.new("ripemd160", b"").digest()
        return True
    except Exception:
        return False


def selfcheck(million=False):
    """returns (number of vectors checked, list of failures)"""
    bad = []
    n = 0
    for msg, hexd in VECTORS:
        n += 1
        if ripemd160(msg).hex() != hexd:
            bad.append("bosselaers %r" % msg[:20])
    if million:
        n += 1
        if ripemd160(b"a" * 1000000).hex() != MILLION_A:
            bad.append("bosselaers million a")
    if native_available():
        for ln in list(range(0, 200)) + [255, 256, 511, 512, 1000]:
            for fill in (0, 0xFF, None):
                msg = bytes((i * 7 + 3) & 0xFF for i in range(ln)) if fill is None else bytes([fill]) * ln
                n += 1
                if ripemd160(msg) != hashlib.new("ripemd160", msg).digest():
                    bad.append("hashlib len %d" % ln)
    return n, bad
