"""Reference consensus script interpreter (pre-taproot): EvalScript, VerifyScript, witness v0, CScriptNum,
CheckMinimalPush, IsValidSignatureEncoding, IsLowDERSignature, IsDefinedHashtype, CheckPubKeyEncoding, lax DER
parsing, public-key parsing (incl. hybrid), FindAndDelete.  Written from Bitcoin Core's interpreter.cpp /
script.cpp / pubkey.cpp.  No pycoin imports.  Bound to ground truth by selfcheck(): every vector of
/repo/tests/btc/data/script_tests.json, tx_valid.json, tx_invalid.json (read as data).

Vintage rule (DESIGN.md C03): an *executed* NOP2/NOP3 whose CLTV/CSV flag is unset while
DISCOURAGE_UPGRADABLE_NOPS is set fails in the repository's vectors (old Core) and succeeds in current Core; the
interpreter follows the vectors and sets checker.vintage so that drivers can treat the verdict as unconstrained."""
import hashlib, struct
from .sighash import ser, sighash_legacy, sighash_bip143, dsha, sha256, digest_be

# ---------------- flags (same bit values as pycoin/Core for the ones pycoin defines)
P2SH=1<<0; STRICTENC=1<<1; DERSIG=1<<2; LOW_S=1<<3; NULLDUMMY=1<<4; SIGPUSHONLY=1<<5
MINIMALDATA=1<<6; DISCOURAGE_UPGRADABLE_NOPS=1<<7; CLEANSTACK=1<<8; CLTV=1<<9; CSV=1<<10
WITNESS=1<<11; DISCOURAGE_UPGRADABLE_WITNESS_PROGRAM=1<<12; MINIMALIF=1<<13; NULLFAIL=1<<14
WITNESS_PUBKEYTYPE=1<<15
FLAGNAMES=dict(P2SH=P2SH,STRICTENC=STRICTENC,DERSIG=DERSIG,LOW_S=LOW_S,NULLDUMMY=NULLDUMMY,SIGPUSHONLY=SIGPUSHONLY,
 MINIMALDATA=MINIMALDATA,DISCOURAGE_UPGRADABLE_NOPS=DISCOURAGE_UPGRADABLE_NOPS,CLEANSTACK=CLEANSTACK,
 CHECKLOCKTIMEVERIFY=CLTV,CHECKSEQUENCEVERIFY=CSV,WITNESS=WITNESS,
 DISCOURAGE_UPGRADABLE_WITNESS_PROGRAM=DISCOURAGE_UPGRADABLE_WITNESS_PROGRAM,MINIMALIF=MINIMALIF,NULLFAIL=NULLFAIL,
 WITNESS_PUBKEYTYPE=WITNESS_PUBKEYTYPE)

class ScriptFail(Exception):
    def __init__(self, code): self.code=code

BASE=0; WITNESS_V0=1
sha256=lambda b: hashlib.sha256(b).digest()
dsha=lambda b: sha256(sha256(b))
def ripemd160(b): return hashlib.new("ripemd160",b).digest()
def hash160(b): return ripemd160(sha256(b))

# ---------------- secp256k1
P=0xFFFFFFFFFFFFFFFFFFFFFFFFFFFFFFFFFFFFFFFFFFFFFFFFFFFFFFFEFFFFFC2F
N=0xFFFFFFFFFFFFFFFFFFFFFFFFFFFFFFFEBAAEDCE6AF48A03BBFD25E8CD0364141
G=(0x79BE667EF9DCBBAC55A06295CE870B07029BFCDB2DCE28D959F2815B16F81798,0x483ADA7726A3C4655DA4FBFC0E1108A8FD17B448A68554199C47D08FFB10D4B8)
def jdbl(p):
    x,y,z=p
    if y==0: return (0,1,0)
    s=4*x*y*y%P; m=3*x*x%P
    x2=(m*m-2*s)%P; y2=(m*(s-x2)-8*y*y*y*y)%P; z2=2*y*z%P
    return (x2,y2,z2)
def jadd(p,q):
    if p[2]==0: return q
    if q[2]==0: return p
    x1,y1,z1=p; x2,y2,z2=q
    z1z1=z1*z1%P; z2z2=z2*z2%P
    u1=x1*z2z2%P; u2=x2*z1z1%P; s1=y1*z2*z2z2%P; s2=y2*z1*z1z1%P
    if u1==u2:
        if s1!=s2: return (0,1,0)
        return jdbl(p)
    h=(u2-u1)%P; r=(s2-s1)%P
    h2=h*h%P; h3=h*h2%P; u1h2=u1*h2%P
    x3=(r*r-h3-2*u1h2)%P; y3=(r*(u1h2-x3)-s1*h3)%P; z3=h*z1*z2%P
    return (x3,y3,z3)
def jmul(k,pt):
    r=(0,1,0); a=(pt[0],pt[1],1)
    while k:
        if k&1: r=jadd(r,a)
        a=jdbl(a); k>>=1
    return r
def toaff(p):
    if p[2]==0: return None
    zi=pow(p[2],-1,P); return (p[0]*zi*zi%P, p[1]*zi*zi*zi%P)
_vcache={}
_gtab=[]
def _gtable():
    # fixed-base table: _gtab[i][j] = j * 16^i * G (Jacobian), 64 windows of 4 bits
    if not _gtab:
        base=(G[0],G[1],1)
        for i in range(64):
            row=[(0,1,0)]
            for j in range(1,16): row.append(jadd(row[-1],base))
            _gtab.append(row)
            base=jadd(row[15],base)
    return _gtab
def jmul_g(k):
    t=_gtable(); r=(0,1,0); i=0
    while k:
        d=k&15
        if d: r=jadd(r,t[i][d])
        k>>=4; i+=1
    return r
def jmul_w(k,pt):
    # 4-bit fixed-window multiplication of an arbitrary point
    tab=[(0,1,0),(pt[0],pt[1],1)]
    for j in range(2,16): tab.append(jadd(tab[-1],tab[1]))
    r=(0,1,0)
    for i in range(252,-1,-4):
        if r[2]: r=jdbl(jdbl(jdbl(jdbl(r))))
        d=(k>>i)&15
        if d: r=jadd(r,tab[d])
    return r
def ecdsa_verify(Q,z,r,s):
    key=(Q,z,r,s)
    if key in _vcache: return _vcache[key]
    ok=False
    if 1<=r<N and 1<=s<N:
        w=pow(s,-1,N)
        R=toaff(jadd(jmul_g(z*w%N),jmul_w(r*w%N,Q)))
        ok = R is not None and R[0]%N==r
    if len(_vcache)>200000: _vcache.clear()
    _vcache[key]=ok
    return ok
def ecdsa_verify_plain(Q,z,r,s):
    """the textbook double-and-add version; selfcheck compares the windowed one against it"""
    if not (1<=r<N and 1<=s<N): return False
    w=pow(s,-1,N)
    R=toaff(jadd(jmul(z*w%N,G),jmul(r*w%N,Q)))
    return R is not None and R[0]%N==r
def parse_pubkey(b):
    if len(b)==33 and b[0] in (2,3):
        x=int.from_bytes(b[1:],'big')
        if x>=P: return None
        y2=(x*x*x+7)%P; y=pow(y2,(P+1)//4,P)
        if y*y%P!=y2: return None
        if (y&1)!=(b[0]&1): y=P-y
        return (x,y)
    if len(b)==65 and b[0] in (4,6,7):
        x=int.from_bytes(b[1:33],'big'); y=int.from_bytes(b[33:],'big')
        if x>=P or y>=P: return None
        if (y*y-x*x*x-7)%P: return None
        if b[0] in (6,7) and (y&1)!=(b[0]&1): return None
        return (x,y)
    return None
def parse_der_lax(inp):
    """port of ecdsa_signature_parse_der_lax; returns (r,s) or None (parse failure). overflow -> (0,0)"""
    n=len(inp); pos=0
    if pos==n or inp[pos]!=0x30: return None
    pos+=1
    if pos==n: return None
    lenbyte=inp[pos]; pos+=1
    if lenbyte&0x80:
        lenbyte-=0x80
        if lenbyte>n-pos: return None
        pos+=lenbyte
    out=[]
    for _ in range(2):
        if pos==n or inp[pos]!=0x02: return None
        pos+=1
        if pos==n: return None
        lenbyte=inp[pos]; pos+=1
        if lenbyte&0x80:
            lenbyte-=0x80
            if lenbyte>n-pos: return None
            while lenbyte>0 and inp[pos]==0: pos+=1; lenbyte-=1
            if lenbyte>=8: return None
            ln=0
            while lenbyte>0: ln=(ln<<8)+inp[pos]; pos+=1; lenbyte-=1
        else: ln=lenbyte
        if ln>n-pos: return None
        out.append((pos,ln)); pos+=ln
    vals=[]; overflow=False
    for (p0,ln) in out:
        while ln>0 and inp[p0]==0: ln-=1; p0+=1
        if ln>32: overflow=True; vals.append(0)
        else: vals.append(int.from_bytes(inp[p0:p0+ln],'big'))
    r,s=vals
    if not overflow and (r>=N or s>=N): overflow=True
    if overflow: return (0,0)
    return (r,s)

# ---------------- script primitives
OP_0=0;OP_PUSHDATA1=0x4c;OP_PUSHDATA2=0x4d;OP_PUSHDATA4=0x4e;OP_1NEGATE=0x4f;OP_RESERVED=0x50;OP_1=0x51;OP_16=0x60
OP_NOP=0x61;OP_VER=0x62;OP_IF=0x63;OP_NOTIF=0x64;OP_VERIF=0x65;OP_VERNOTIF=0x66;OP_ELSE=0x67;OP_ENDIF=0x68;OP_VERIFY=0x69;OP_RETURN=0x6a
OP_TOALTSTACK=0x6b;OP_FROMALTSTACK=0x6c;OP_2DROP=0x6d;OP_2DUP=0x6e;OP_3DUP=0x6f;OP_2OVER=0x70;OP_2ROT=0x71;OP_2SWAP=0x72
OP_IFDUP=0x73;OP_DEPTH=0x74;OP_DROP=0x75;OP_DUP=0x76;OP_NIP=0x77;OP_OVER=0x78;OP_PICK=0x79;OP_ROLL=0x7a;OP_ROT=0x7b;OP_SWAP=0x7c;OP_TUCK=0x7d
OP_CAT=0x7e;OP_SUBSTR=0x7f;OP_LEFT=0x80;OP_RIGHT=0x81;OP_SIZE=0x82;OP_INVERT=0x83;OP_AND=0x84;OP_OR=0x85;OP_XOR=0x86;OP_EQUAL=0x87;OP_EQUALVERIFY=0x88
OP_RESERVED1=0x89;OP_RESERVED2=0x8a;OP_1ADD=0x8b;OP_1SUB=0x8c;OP_2MUL=0x8d;OP_2DIV=0x8e;OP_NEGATE=0x8f;OP_ABS=0x90;OP_NOT=0x91;OP_0NOTEQUAL=0x92
OP_ADD=0x93;OP_SUB=0x94;OP_MUL=0x95;OP_DIV=0x96;OP_MOD=0x97;OP_LSHIFT=0x98;OP_RSHIFT=0x99;OP_BOOLAND=0x9a;OP_BOOLOR=0x9b
OP_NUMEQUAL=0x9c;OP_NUMEQUALVERIFY=0x9d;OP_NUMNOTEQUAL=0x9e;OP_LESSTHAN=0x9f;OP_GREATERTHAN=0xa0;OP_LESSTHANOREQUAL=0xa1;OP_GREATERTHANOREQUAL=0xa2
OP_MIN=0xa3;OP_MAX=0xa4;OP_WITHIN=0xa5;OP_RIPEMD160=0xa6;OP_SHA1=0xa7;OP_SHA256=0xa8;OP_HASH160=0xa9;OP_HASH256=0xaa;OP_CODESEPARATOR=0xab
OP_CHECKSIG=0xac;OP_CHECKSIGVERIFY=0xad;OP_CHECKMULTISIG=0xae;OP_CHECKMULTISIGVERIFY=0xaf
OP_NOP1=0xb0;OP_CLTV=0xb1;OP_CSV=0xb2;OP_NOP4=0xb3;OP_NOP10=0xb9
DISABLED={OP_CAT,OP_SUBSTR,OP_LEFT,OP_RIGHT,OP_INVERT,OP_AND,OP_OR,OP_XOR,OP_2MUL,OP_2DIV,OP_MUL,OP_DIV,OP_MOD,OP_LSHIFT,OP_RSHIFT}

def get_op(script,pc):
    """returns (opcode,data,newpc) or None on failure"""
    n=len(script)
    if pc>=n: return None
    op=script[pc]; pc+=1; data=None
    if op<=OP_PUSHDATA4:
        if op<OP_PUSHDATA1: sz=op
        elif op==OP_PUSHDATA1:
            if n-pc<1: return None
            sz=script[pc]; pc+=1
        elif op==OP_PUSHDATA2:
            if n-pc<2: return None
            sz=script[pc]|(script[pc+1]<<8); pc+=2
        else:
            if n-pc<4: return None
            sz=int.from_bytes(script[pc:pc+4],'little'); pc+=4
        if n-pc<sz: return None
        data=bytes(script[pc:pc+sz]); pc+=sz
    return op,data,pc
def push_data(d):  # CScript() << vector
    n=len(d)
    if n<OP_PUSHDATA1: return bytes([n])+d
    if n<=0xff: return b"\x4c"+bytes([n])+d
    if n<=0xffff: return b"\x4d"+struct.pack("<H",n)+d
    return b"\x4e"+struct.pack("<L",n)+d
def is_push_only(script):
    pc=0
    while pc<len(script):
        r=get_op(script,pc)
        if r is None: return False
        op,d,pc=r
        if op>OP_16: return False
    return True
def find_and_delete(script,b):
    if not b: return script,0
    res=bytearray(); pc=0; pc2=0; n=len(script); found=0
    while True:
        res+=script[pc2:pc]
        while n-pc>=len(b) and script[pc:pc+len(b)]==b:
            pc+=len(b); found+=1
        pc2=pc
        r=get_op(script,pc)
        if r is None: break
        pc=r[2]
    if found: res+=script[pc2:]
    return (bytes(res),found) if found else (script,0)
def cast_to_bool(v):
    for i,b in enumerate(v):
        if b!=0:
            if i==len(v)-1 and b==0x80: return False
            return True
    return False
def num_decode(v,minimal,maxsize=4):
    if len(v)>maxsize: raise ScriptFail("UNKNOWN_ERROR")  # script number overflow
    if minimal and len(v)>0:
        if (v[-1]&0x7f)==0:
            if len(v)<=1 or (v[-2]&0x80)==0: raise ScriptFail("UNKNOWN_ERROR")
    if not v: return 0
    r=int.from_bytes(v,'little')
    if v[-1]&0x80: return -(r & ~(0x80<<(8*(len(v)-1))))
    return r
def num_encode(x):
    if x==0: return b""
    neg=x<0; a=abs(x); out=bytearray()
    while a: out.append(a&0xff); a>>=8
    if out[-1]&0x80: out.append(0x80 if neg else 0)
    elif neg: out[-1]|=0x80
    return bytes(out)
def check_minimal_push(data,op):
    n=len(data)
    if n==0: return op==OP_0
    if n==1 and 1<=data[0]<=16: return False
    if n==1 and data[0]==0x81: return False
    if n<=75: return op==n
    if n<=255: return op==OP_PUSHDATA1
    if n<=65535: return op==OP_PUSHDATA2
    return True
def valid_sig_encoding(sig):
    n=len(sig)
    if n<9 or n>73: return False
    if sig[0]!=0x30: return False
    if sig[1]!=n-3: return False
    lenR=sig[3]
    if 5+lenR>=n: return False
    lenS=sig[5+lenR]
    if lenR+lenS+7!=n: return False
    if sig[2]!=0x02: return False
    if lenR==0: return False
    if sig[4]&0x80: return False
    if lenR>1 and sig[4]==0 and not (sig[5]&0x80): return False
    if sig[lenR+4]!=0x02: return False
    if lenS==0: return False
    if sig[lenR+6]&0x80: return False
    if lenS>1 and sig[lenR+6]==0 and not (sig[lenR+7]&0x80): return False
    return True
def check_sig_encoding(sig,flags,forkid=False):
    if len(sig)==0: return
    if flags&(DERSIG|LOW_S|STRICTENC) and not valid_sig_encoding(sig): raise ScriptFail("SIG_DER")
    if flags&LOW_S:
        # IsLowDERSignature: valid encoding already checked
        rs=parse_der_lax(sig[:-1])
        if rs is None: raise ScriptFail("SIG_DER")
        # CPubKey::CheckLowS: ecdsa_signature_parse_der_lax turns a signature whose R or S overflows the group order
        # into the all-zero signature, which secp256k1_ecdsa_signature_normalize does not call high
        if rs[0]<N and rs[1]<N and rs[1]>N//2: raise ScriptFail("SIG_HIGH_S")
    if flags&STRICTENC:
        ht=sig[-1]&~0x80
        if forkid: ht&=~0x40    # fork-id coins: the fork-id bit is part of every defined hash type
        if ht<1 or ht>3: raise ScriptFail("SIG_HASHTYPE")
def check_pubkey_encoding(pk,flags,sigversion):
    if flags&STRICTENC:
        ok = (len(pk)==33 and pk[0] in (2,3)) or (len(pk)==65 and pk[0]==4)
        if not ok: raise ScriptFail("PUBKEYTYPE")
    if flags&WITNESS_PUBKEYTYPE and sigversion==WITNESS_V0:
        if not (len(pk)==33 and pk[0] in (2,3)): raise ScriptFail("WITNESS_PUBKEYTYPE")

class Checker:
    """tx context.  legacy_f(tx,idx,code,ht) / witness_f(tx,idx,code,amount,ht) return the uint256-LE digest;
    they default to Bitcoin's and are replaced for fork-id coins by the drivers (None = refuse = signature invalid)."""
    vintage=False
    def __init__(self,tx,idx,amount,legacy_f=None,witness_f=None,verify_f=None):
        self.tx=tx; self.idx=idx; self.amount=amount
        self.legacy_f=legacy_f or sighash_legacy; self.witness_f=witness_f or sighash_bip143
        self.verify_f=verify_f or ecdsa_verify
    def check_sig(self,sig,pk,code,sigversion):
        Q=parse_pubkey(pk)
        if Q is None: return False
        if len(sig)==0: return False
        ht=sig[-1]
        rs=parse_der_lax(sig[:-1])
        if rs is None: return False
        if sigversion==WITNESS_V0: z=self.witness_f(self.tx,self.idx,code,self.amount,ht)
        else: z=self.legacy_f(self.tx,self.idx,code,ht)
        if z is None: return False
        # uint256 is serialised little-endian; the ECDSA message is the 32 bytes as they are, read big-endian
        z=int.from_bytes(z.to_bytes(32,"little"),"big")
        return self.verify_f(Q,z,rs[0],rs[1])
    def check_locktime(self,n):
        lt=self.tx["lock"]
        if not ((lt<500000000 and n<500000000) or (lt>=500000000 and n>=500000000)): return False
        if n>lt: return False
        if self.tx["ins"][self.idx][3]==0xffffffff: return False
        return True
    def check_sequence(self,n):
        seq=self.tx["ins"][self.idx][3]
        if (self.tx["version"]&0xffffffff)<2: return False
        if seq&(1<<31): return False
        mask=(1<<22)|0xffff
        a=seq&mask; b=n&mask
        if not ((a<(1<<22) and b<(1<<22)) or (a>=(1<<22) and b>=(1<<22))): return False
        if b>a: return False
        return True

def eval_script(stack,script,flags,checker,sigversion):
    if len(script)>10000: raise ScriptFail("SCRIPT_SIZE")
    pc=0; begincode=0; vfexec=[]; alt=[]; nop=0
    minimal=bool(flags&MINIMALDATA)
    def need(n):
        if len(stack)<n: raise ScriptFail("INVALID_STACK_OPERATION")
    while pc<len(script):
        fexec = all(vfexec)
        r=get_op(script,pc)
        if r is None: raise ScriptFail("BAD_OPCODE")
        op,data,pc=r
        if data is not None and len(data)>520: raise ScriptFail("PUSH_SIZE")
        if op>OP_16:
            nop+=1
            if nop>201: raise ScriptFail("OP_COUNT")
        if op in DISABLED: raise ScriptFail("DISABLED_OPCODE")
        if fexec and 0<=op<=OP_PUSHDATA4:
            if minimal and not check_minimal_push(data,op): raise ScriptFail("MINIMALDATA")
            stack.append(data)
        elif fexec or (OP_IF<=op<=OP_ENDIF):
            if op==OP_1NEGATE or OP_1<=op<=OP_16:
                stack.append(num_encode(op-(OP_1-1)))
            elif op==OP_NOP: pass
            elif op==OP_CLTV:
                if not flags&CLTV:
                    if flags&DISCOURAGE_UPGRADABLE_NOPS:   # vintage rule, see module docstring
                        checker.vintage=True; raise ScriptFail("DISCOURAGE_UPGRADABLE_NOPS")
                else:
                    need(1)
                    n=num_decode(stack[-1],minimal,5)
                    if n<0: raise ScriptFail("NEGATIVE_LOCKTIME")
                    if not checker.check_locktime(n): raise ScriptFail("UNSATISFIED_LOCKTIME")
            elif op==OP_CSV:
                if not flags&CSV:
                    if flags&DISCOURAGE_UPGRADABLE_NOPS:
                        checker.vintage=True; raise ScriptFail("DISCOURAGE_UPGRADABLE_NOPS")
                else:
                    need(1)
                    n=num_decode(stack[-1],minimal,5)
                    if n<0: raise ScriptFail("NEGATIVE_LOCKTIME")
                    if not (n&(1<<31)):
                        if not checker.check_sequence(n): raise ScriptFail("UNSATISFIED_LOCKTIME")
            elif op==OP_NOP1 or OP_NOP4<=op<=OP_NOP10:
                if flags&DISCOURAGE_UPGRADABLE_NOPS: raise ScriptFail("DISCOURAGE_UPGRADABLE_NOPS")
            elif op in (OP_IF,OP_NOTIF):
                v=False
                if fexec:
                    if len(stack)<1: raise ScriptFail("UNBALANCED_CONDITIONAL")
                    vch=stack[-1]
                    if sigversion==WITNESS_V0 and flags&MINIMALIF:
                        if len(vch)>1: raise ScriptFail("MINIMALIF")
                        if len(vch)==1 and vch[0]!=1: raise ScriptFail("MINIMALIF")
                    v=cast_to_bool(vch)
                    if op==OP_NOTIF: v=not v
                    stack.pop()
                vfexec.append(v)
            elif op==OP_ELSE:
                if not vfexec: raise ScriptFail("UNBALANCED_CONDITIONAL")
                vfexec[-1]=not vfexec[-1]
            elif op==OP_ENDIF:
                if not vfexec: raise ScriptFail("UNBALANCED_CONDITIONAL")
                vfexec.pop()
            elif op==OP_VERIFY:
                need(1)
                if cast_to_bool(stack[-1]): stack.pop()
                else: raise ScriptFail("VERIFY")
            elif op==OP_RETURN: raise ScriptFail("OP_RETURN")
            elif op==OP_TOALTSTACK: need(1); alt.append(stack.pop())
            elif op==OP_FROMALTSTACK:
                if not alt: raise ScriptFail("INVALID_ALTSTACK_OPERATION")
                stack.append(alt.pop())
            elif op==OP_2DROP: need(2); stack.pop(); stack.pop()
            elif op==OP_2DUP: need(2); stack.extend([stack[-2],stack[-1]])
            elif op==OP_3DUP: need(3); stack.extend([stack[-3],stack[-2],stack[-1]])
            elif op==OP_2OVER: need(4); stack.extend([stack[-4],stack[-3]])
            elif op==OP_2ROT:
                need(6); a=stack[-6]; b=stack[-5]; del stack[-6:-4]; stack.extend([a,b])
            elif op==OP_2SWAP:
                need(4); stack[-4],stack[-2]=stack[-2],stack[-4]; stack[-3],stack[-1]=stack[-1],stack[-3]
            elif op==OP_IFDUP:
                need(1)
                if cast_to_bool(stack[-1]): stack.append(stack[-1])
            elif op==OP_DEPTH: stack.append(num_encode(len(stack)))
            elif op==OP_DROP: need(1); stack.pop()
            elif op==OP_DUP: need(1); stack.append(stack[-1])
            elif op==OP_NIP: need(2); del stack[-2]
            elif op==OP_OVER: need(2); stack.append(stack[-2])
            elif op in (OP_PICK,OP_ROLL):
                need(2)
                n=num_decode(stack[-1],minimal); stack.pop()
                if n<0 or n>=len(stack): raise ScriptFail("INVALID_STACK_OPERATION")
                v=stack[-n-1]
                if op==OP_ROLL: del stack[-n-1]
                stack.append(v)
            elif op==OP_ROT: need(3); stack.append(stack.pop(-3))
            elif op==OP_SWAP: need(2); stack[-1],stack[-2]=stack[-2],stack[-1]
            elif op==OP_TUCK: need(2); stack.insert(-2,stack[-1])
            elif op==OP_SIZE: need(1); stack.append(num_encode(len(stack[-1])))
            elif op in (OP_EQUAL,OP_EQUALVERIFY):
                need(2); a=stack.pop(); b=stack.pop(); eq=a==b
                stack.append(b"\x01" if eq else b"")
                if op==OP_EQUALVERIFY:
                    if eq: stack.pop()
                    else: raise ScriptFail("EQUALVERIFY")
            elif op in (OP_1ADD,OP_1SUB,OP_NEGATE,OP_ABS,OP_NOT,OP_0NOTEQUAL):
                need(1); n=num_decode(stack[-1],minimal)
                if op==OP_1ADD: n+=1
                elif op==OP_1SUB: n-=1
                elif op==OP_NEGATE: n=-n
                elif op==OP_ABS: n=abs(n)
                elif op==OP_NOT: n=int(n==0)
                else: n=int(n!=0)
                stack.pop(); stack.append(num_encode(n))
            elif OP_ADD<=op<=OP_MAX and op not in DISABLED:
                need(2); a=num_decode(stack[-2],minimal); b=num_decode(stack[-1],minimal)
                if op==OP_ADD: n=a+b
                elif op==OP_SUB: n=a-b
                elif op==OP_BOOLAND: n=int(a!=0 and b!=0)
                elif op==OP_BOOLOR: n=int(a!=0 or b!=0)
                elif op in (OP_NUMEQUAL,OP_NUMEQUALVERIFY): n=int(a==b)
                elif op==OP_NUMNOTEQUAL: n=int(a!=b)
                elif op==OP_LESSTHAN: n=int(a<b)
                elif op==OP_GREATERTHAN: n=int(a>b)
                elif op==OP_LESSTHANOREQUAL: n=int(a<=b)
                elif op==OP_GREATERTHANOREQUAL: n=int(a>=b)
                elif op==OP_MIN: n=min(a,b)
                elif op==OP_MAX: n=max(a,b)
                else: raise ScriptFail("BAD_OPCODE")
                stack.pop(); stack.pop(); stack.append(num_encode(n))
                if op==OP_NUMEQUALVERIFY:
                    if cast_to_bool(stack[-1]): stack.pop()
                    else: raise ScriptFail("NUMEQUALVERIFY")
            elif op==OP_WITHIN:
                need(3); a=num_decode(stack[-3],minimal); b=num_decode(stack[-2],minimal); c=num_decode(stack[-1],minimal)
                del stack[-3:]; stack.append(b"\x01" if b<=a<c else b"")
            elif op in (OP_RIPEMD160,OP_SHA1,OP_SHA256,OP_HASH160,OP_HASH256):
                need(1); v=stack.pop()
                stack.append({OP_RIPEMD160:ripemd160,OP_SHA1:lambda b:hashlib.sha1(b).digest(),OP_SHA256:sha256,OP_HASH160:hash160,OP_HASH256:dsha}[op](v))
            elif op==OP_CODESEPARATOR: begincode=pc
            elif op in (OP_CHECKSIG,OP_CHECKSIGVERIFY):
                need(2); sig=stack[-2]; pk=stack[-1]
                code=bytes(script[begincode:])
                if sigversion==BASE and not (getattr(checker,'forkid_keeps_sig',False) and len(sig) and sig[-1]&0x40):
                    code,_=find_and_delete(code,push_data(sig))
                check_sig_encoding(sig,flags,getattr(checker,'forkid',False)); check_pubkey_encoding(pk,flags,sigversion)
                ok=checker.check_sig(sig,pk,code,sigversion)
                if not ok and flags&NULLFAIL and len(sig): raise ScriptFail("NULLFAIL")
                stack.pop(); stack.pop(); stack.append(b"\x01" if ok else b"")
                if op==OP_CHECKSIGVERIFY:
                    if ok: stack.pop()
                    else: raise ScriptFail("CHECKSIGVERIFY")
            elif op in (OP_CHECKMULTISIG,OP_CHECKMULTISIGVERIFY):
                i=1
                need(i)
                nk=num_decode(stack[-i],minimal)
                if nk<0 or nk>20: raise ScriptFail("PUBKEY_COUNT")
                nop+=nk
                if nop>201: raise ScriptFail("OP_COUNT")
                i+=1; ikey=i; ikey2=nk+2; i+=nk
                need(i)
                ns=num_decode(stack[-i],minimal)
                if ns<0 or ns>nk: raise ScriptFail("SIG_COUNT")
                i+=1; isig=i; i+=ns
                need(i)
                code=bytes(script[begincode:])
                for k in range(ns):
                    sk=stack[-isig-k]
                    if sigversion==BASE and not (getattr(checker,'forkid_keeps_sig',False) and len(sk) and sk[-1]&0x40):
                        code,_=find_and_delete(code,push_data(sk))
                ok=True; nsig=ns; nkey=nk
                while ok and nsig>0:
                    sig=stack[-isig]; pk=stack[-ikey]
                    check_sig_encoding(sig,flags,getattr(checker,'forkid',False)); check_pubkey_encoding(pk,flags,sigversion)
                    if checker.check_sig(sig,pk,code,sigversion): isig+=1; nsig-=1
                    ikey+=1; nkey-=1
                    if nsig>nkey: ok=False
                while i>1:
                    if not ok and flags&NULLFAIL and ikey2==0 and len(stack[-1]): raise ScriptFail("NULLFAIL")
                    if ikey2>0: ikey2-=1
                    stack.pop(); i-=1
                need(1)
                if flags&NULLDUMMY and len(stack[-1]): raise ScriptFail("SIG_NULLDUMMY")
                stack.pop(); stack.append(b"\x01" if ok else b"")
                if op==OP_CHECKMULTISIGVERIFY:
                    if ok: stack.pop()
                    else: raise ScriptFail("CHECKMULTISIGVERIFY")
            else:
                raise ScriptFail("BAD_OPCODE")
        if len(stack)+len(alt)>1000: raise ScriptFail("STACK_SIZE")
    if vfexec: raise ScriptFail("UNBALANCED_CONDITIONAL")

def witness_program(script):
    if len(script)<4 or len(script)>42: return None
    if script[0]!=OP_0 and not (OP_1<=script[0]<=OP_16): return None
    if script[1]+2==len(script):
        return (0 if script[0]==0 else script[0]-0x50, bytes(script[2:]))
    return None
def is_p2sh(s): return len(s)==23 and s[0]==OP_HASH160 and s[1]==0x14 and s[22]==OP_EQUAL
def verify_witness_program(witness,ver,prog,flags,checker):
    if ver==0:
        if len(prog)==32:
            if not witness: raise ScriptFail("WITNESS_PROGRAM_WITNESS_EMPTY")
            script=witness[-1]; stack=list(witness[:-1])
            if sha256(script)!=prog: raise ScriptFail("WITNESS_PROGRAM_MISMATCH")
        elif len(prog)==20:
            if len(witness)!=2: raise ScriptFail("WITNESS_PROGRAM_MISMATCH")
            script=b"\x76\xa9\x14"+prog+b"\x88\xac"; stack=list(witness)
        else: raise ScriptFail("WITNESS_PROGRAM_WRONG_LENGTH")
        for it in stack:
            if len(it)>520: raise ScriptFail("PUSH_SIZE")
        eval_script(stack,script,flags,checker,WITNESS_V0)
        if len(stack)!=1: raise ScriptFail("CLEANSTACK")
        if not cast_to_bool(stack[-1]): raise ScriptFail("EVAL_FALSE")
        return
    if flags&DISCOURAGE_UPGRADABLE_WITNESS_PROGRAM: raise ScriptFail("DISCOURAGE_UPGRADABLE_WITNESS_PROGRAM")
    return
def verify_script(scriptsig,spk,witness,flags,checker):
    if flags&SIGPUSHONLY and not is_push_only(scriptsig): raise ScriptFail("SIG_PUSHONLY")
    stack=[]
    eval_script(stack,scriptsig,flags,checker,BASE)
    copy=list(stack) if flags&P2SH else None
    eval_script(stack,spk,flags,checker,BASE)
    if not stack or not cast_to_bool(stack[-1]): raise ScriptFail("EVAL_FALSE")
    had=False
    if flags&WITNESS:
        wp=witness_program(spk)
        if wp:
            had=True
            if len(scriptsig)!=0: raise ScriptFail("WITNESS_MALLEATED")
            verify_witness_program(witness,wp[0],wp[1],flags,checker)
            stack=stack[:1]
    if flags&P2SH and is_p2sh(spk):
        if not is_push_only(scriptsig): raise ScriptFail("SIG_PUSHONLY")
        stack=copy
        redeem=stack.pop()
        eval_script(stack,redeem,flags,checker,BASE)
        if not stack or not cast_to_bool(stack[-1]): raise ScriptFail("EVAL_FALSE")
        if flags&WITNESS:
            wp=witness_program(redeem)
            if wp:
                had=True
                if scriptsig!=push_data(redeem): raise ScriptFail("WITNESS_MALLEATED_P2SH")
                verify_witness_program(witness,wp[0],wp[1],flags,checker)
                stack=stack[:1]
    if flags&CLEANSTACK:
        if len(stack)!=1: raise ScriptFail("CLEANSTACK")
    if flags&WITNESS:
        if not had and witness: raise ScriptFail("WITNESS_UNEXPECTED")
def verdict(scriptsig,spk,witness,flags,tx,idx,amount):
    try:
        verify_script(scriptsig,spk,witness,flags,Checker(tx,idx,amount)); return "OK"
    except ScriptFail as e: return e.code


# ---------------- assembler for the Core test-vector script text format
_NAMES={}
def _init_names():
    g=globals()
    for k,v in list(g.items()):
        if k.startswith("OP_") and isinstance(v,int): _NAMES[k]=v
    more=dict(OP_FALSE=0,OP_TRUE=0x51,OP_NOP2=0xb1,OP_NOP3=0xb2,OP_CHECKLOCKTIMEVERIFY=0xb1,OP_CHECKSEQUENCEVERIFY=0xb2,
              OP_NOP5=0xb4,OP_NOP6=0xb5,OP_NOP7=0xb6,OP_NOP8=0xb7,OP_NOP9=0xb8,OP_2=0x52,OP_3=0x53,OP_4=0x54,OP_5=0x55,OP_6=0x56,
              OP_7=0x57,OP_8=0x58,OP_9=0x59,OP_10=0x5a,OP_11=0x5b,OP_12=0x5c,OP_13=0x5d,OP_14=0x5e,OP_15=0x5f,
              OP_INVALIDOPCODE=0xff,OP_PUBKEYHASH=0xfd,OP_PUBKEY=0xfe)
    _NAMES.update(more)
_init_names()
def asm(text):
    """ParseScript of Core's core_read.cpp"""
    out=b""
    for w in text.split():
        if not w: continue
        if w.lstrip("-").isdigit():
            n=int(w)
            if n==-1 or 1<=n<=16: out+=bytes([n+0x50])
            elif n==0: out+=b"\x00"
            else: out+=push_data(num_encode(n))
        elif w.startswith("0x"): out+=bytes.fromhex(w[2:])
        elif len(w)>=2 and w[0]=="'" and w[-1]=="'": out+=push_data(w[1:-1].encode())
        elif "OP_"+w in _NAMES: out+=bytes([_NAMES["OP_"+w]])
        elif w in _NAMES: out+=bytes([_NAMES[w]])
        else: raise ValueError("asm: "+w)
    return out
def flags_of(s):
    v=0
    for f in s.split(","):
        if f and f!="NONE": v|=FLAGNAMES[f]
    return v
def credit_spend(scriptsig,spk,witness,amount):
    credit=dict(version=1,lock=0,ins=[(b"\0"*32,0xffffffff,b"\x00\x00",0xffffffff,[])],outs=[(amount,spk)])
    h=dsha(ser(credit,False))
    return dict(version=1,lock=0,ins=[(h,0,scriptsig,0xffffffff,list(witness))],outs=[(amount,b"")])

def parse_tx(b):
    import io
    def rd_cs(f):
        v=f.read(1)[0]
        if v==253: return struct.unpack("<H",f.read(2))[0]
        if v==254: return struct.unpack("<L",f.read(4))[0]
        if v==255: return struct.unpack("<Q",f.read(8))[0]
        return v
    f=io.BytesIO(b); ver=struct.unpack("<L",f.read(4))[0]
    pos=f.tell(); m=f.read(2); wit=False
    if m[0]==0 and m[1]!=0: wit=True
    else: f.seek(pos)
    ins=[]
    for _ in range(rd_cs(f)):
        h=f.read(32); i=struct.unpack("<L",f.read(4))[0]; s=f.read(rd_cs(f)); q=struct.unpack("<L",f.read(4))[0]
        ins.append([h,i,s,q,[]])
    outs=[]
    for _ in range(rd_cs(f)):
        v=struct.unpack("<Q",f.read(8))[0]; s=f.read(rd_cs(f)); outs.append((v,s))
    if wit:
        for i in ins: i[4]=[f.read(rd_cs(f)) for _ in range(rd_cs(f))]
    lock=struct.unpack("<L",f.read(4))[0]
    assert f.read()==b""
    return dict(version=ver,ins=[tuple(i) for i in ins],outs=outs,lock=lock)
def check_tx(tx,max_money=21000000*10**8):
    """CheckTransaction (context free)"""
    if not tx["ins"] or not tx["outs"]: return False
    if len(ser(tx,False))>1000000: return False
    tot=0
    for v,s in tx["outs"]:
        if v>max_money: return False
        tot+=v
        if tot>max_money: return False
    ops=[(i[0],i[1]) for i in tx["ins"]]
    if len(set(ops))!=len(ops): return False
    cb=len(tx["ins"])==1 and tx["ins"][0][0]==b"\0"*32 and tx["ins"][0][1]==0xffffffff
    if cb:
        if not 2<=len(tx["ins"][0][2])<=100: return False
    else:
        for h,i in ops:
            if h==b"\0"*32 and i==0xffffffff: return False
    return True

_selfchecked=[None]
def selfcheck(datadir="/repo/tests/btc/data"):
    """run every Core vector shipped with the repository through this interpreter; returns count; raises ModelInvalid"""
    import json, os
    from ..engine import ModelInvalid
    if _selfchecked[0] is not None: return _selfchecked[0]
    n=0; bad=[]
    for v in json.load(open(os.path.join(datadir,"script_tests.json"))):
        if len(v)<4: continue
        wit=[];amount=0
        if isinstance(v[0],list):
            wit=[bytes.fromhex(x) for x in v[0][:-1]]; amount=int(round(v[0][-1]*1e8)); v=v[1:]
        ss,spk,fl,exp=asm(v[0]),asm(v[1]),flags_of(v[2]),v[3]
        tx=credit_spend(ss,spk,wit,amount)
        got=verdict(ss,spk,wit,fl,tx,0,amount)
        n+=1
        if (got=="OK")!=(exp=="OK"): bad.append(("script_tests",v[0][:40],v[1][:40],v[2],exp,got))
    for name,expect in (("tx_valid",True),("tx_invalid",False)):
        for v in json.load(open(os.path.join(datadir,name+".json"))):
            if len(v)!=3: continue
            prev={}
            for p in v[0]:
                prev[(bytes.fromhex(p[0])[::-1],p[1]&0xffffffff)]=(asm(p[2]),p[3] if len(p)>3 else 0)
            tx=parse_tx(bytes.fromhex(v[1])); fl=flags_of(v[2]); n+=1
            ok=check_tx(tx)
            if ok:
                for idx,i in enumerate(tx["ins"]):
                    spk,amt=prev[(i[0],i[1])]
                    if verdict(i[2],spk,i[4],fl,tx,idx,amt)!="OK": ok=False;break
            if ok!=expect: bad.append((name,v[1][:40],v[2]))
    for k in (1,2,3,15,16,17,N-1,N-2,(1<<255)+12345,0xdeadbeef<<200):
        if toaff(jmul_g(k))!=toaff(jmul(k,G)) or toaff(jmul_w(k,(G[0],G[1])))!=toaff(jmul(k,G)): raise ModelInvalid("windowed multiplication")
    d=0x1234567; Qd=toaff(jmul(d,G))
    for z in (1,N-1,1<<255,77):
        r_,s_=ecdsa_sign(d,z)
        for (zz,rr,ss) in ((z,r_,s_),(z+1,r_,s_),(z,r_,N-s_),(z,r_+1,s_)):
            _vcache.clear()
            if ecdsa_verify(Qd,zz,rr,ss)!=ecdsa_verify_plain(Qd,zz,rr,ss): raise ModelInvalid("windowed verify")
    if bad: raise ModelInvalid("reference interpreter disagrees with %d Core vectors: %r"%(len(bad),bad[:3]))
    if n<1400: raise ModelInvalid("too few vectors found: %d"%n)
    _selfchecked[0]=n
    return n


# ---------------- signing helpers for the harness (not used by the interpreter)
def ecdsa_sign(d, z, k=None):
    """textbook ECDSA with a deterministic, harness-chosen nonce; returns low-S (r, s)"""
    if k is None:
        k = int.from_bytes(sha256(b"vf-nonce" + d.to_bytes(32, "big") + (z % (1 << 256)).to_bytes(32, "big")), "big") % (N - 1) + 1
    R_ = toaff(jmul(k, G))
    r = R_[0] % N
    s = pow(k, -1, N) * (z + r * d) % N
    assert r and s
    if s > N // 2:
        s = N - s
    return r, s
def der_int(v):
    b = v.to_bytes((v.bit_length() + 7) // 8 or 1, "big")
    if b[0] & 0x80: b = b"\x00" + b
    return b"\x02" + bytes([len(b)]) + b
def der_sig(r, s):
    body = der_int(r) + der_int(s)
    return b"\x30" + bytes([len(body)]) + body
def pubkey_of(d):
    return toaff(jmul(d, G))
def sec(Q, compressed=True):
    x, y = Q
    if compressed: return bytes([2 + (y & 1)]) + x.to_bytes(32, "big")
    return b"\x04" + x.to_bytes(32, "big") + y.to_bytes(32, "big")
