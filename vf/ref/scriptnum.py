"""Reference model for script numbers, data pushes and script tokenizing.

Written from Bitcoin Core (script/script.h CScriptNum::serialize / set_vch, IsMinimallyEncoded;
script/script.cpp GetScriptOp; script/interpreter.cpp CheckMinimalPush).  Plain functions over
ints and bytes; no pycoin import; no tables, caches or shortcuts."""
import json
import os

OP_0 = 0x00
OP_PUSHDATA1 = 0x4C
OP_PUSHDATA2 = 0x4D
OP_PUSHDATA4 = 0x4E
OP_1NEGATE = 0x4F
OP_RESERVED = 0x50
OP_1 = 0x51
OP_16 = 0x60

# name -> byte for every opcode Bitcoin Core names before taproot (script/script.h enum opcodetype);
# aliases listed after the canonical name
CORE_OPCODES = [
    ("OP_0", 0x00), ("OP_PUSHDATA1", 0x4C), ("OP_PUSHDATA2", 0x4D), ("OP_PUSHDATA4", 0x4E), ("OP_1NEGATE", 0x4F),
    ("OP_RESERVED", 0x50), ("OP_1", 0x51), ("OP_2", 0x52), ("OP_3", 0x53), ("OP_4", 0x54), ("OP_5", 0x55),
    ("OP_6", 0x56), ("OP_7", 0x57), ("OP_8", 0x58), ("OP_9", 0x59), ("OP_10", 0x5A), ("OP_11", 0x5B),
    ("OP_12", 0x5C), ("OP_13", 0x5D), ("OP_14", 0x5E), ("OP_15", 0x5F), ("OP_16", 0x60),
    ("OP_NOP", 0x61), ("OP_VER", 0x62), ("OP_IF", 0x63), ("OP_NOTIF", 0x64), ("OP_VERIF", 0x65),
    ("OP_VERNOTIF", 0x66), ("OP_ELSE", 0x67), ("OP_ENDIF", 0x68), ("OP_VERIFY", 0x69), ("OP_RETURN", 0x6A),
    ("OP_TOALTSTACK", 0x6B), ("OP_FROMALTSTACK", 0x6C), ("OP_2DROP", 0x6D), ("OP_2DUP", 0x6E), ("OP_3DUP", 0x6F),
    ("OP_2OVER", 0x70), ("OP_2ROT", 0x71), ("OP_2SWAP", 0x72), ("OP_IFDUP", 0x73), ("OP_DEPTH", 0x74),
    ("OP_DROP", 0x75), ("OP_DUP", 0x76), ("OP_NIP", 0x77), ("OP_OVER", 0x78), ("OP_PICK", 0x79), ("OP_ROLL", 0x7A),
    ("OP_ROT", 0x7B), ("OP_SWAP", 0x7C), ("OP_TUCK", 0x7D),
    ("OP_CAT", 0x7E), ("OP_SUBSTR", 0x7F), ("OP_LEFT", 0x80), ("OP_RIGHT", 0x81), ("OP_SIZE", 0x82),
    ("OP_INVERT", 0x83), ("OP_AND", 0x84), ("OP_OR", 0x85), ("OP_XOR", 0x86), ("OP_EQUAL", 0x87),
    ("OP_EQUALVERIFY", 0x88), ("OP_RESERVED1", 0x89), ("OP_RESERVED2", 0x8A),
    ("OP_1ADD", 0x8B), ("OP_1SUB", 0x8C), ("OP_2MUL", 0x8D), ("OP_2DIV", 0x8E), ("OP_NEGATE", 0x8F), ("OP_ABS", 0x90),
    ("OP_NOT", 0x91), ("OP_0NOTEQUAL", 0x92), ("OP_ADD", 0x93), ("OP_SUB", 0x94), ("OP_MUL", 0x95), ("OP_DIV", 0x96),
    ("OP_MOD", 0x97), ("OP_LSHIFT", 0x98), ("OP_RSHIFT", 0x99), ("OP_BOOLAND", 0x9A), ("OP_BOOLOR", 0x9B),
    ("OP_NUMEQUAL", 0x9C), ("OP_NUMEQUALVERIFY", 0x9D), ("OP_NUMNOTEQUAL", 0x9E), ("OP_LESSTHAN", 0x9F),
    ("OP_GREATERTHAN", 0xA0), ("OP_LESSTHANOREQUAL", 0xA1), ("OP_GREATERTHANOREQUAL", 0xA2), ("OP_MIN", 0xA3),
    ("OP_MAX", 0xA4), ("OP_WITHIN", 0xA5),
    ("OP_RIPEMD160", 0xA6), ("OP_SHA1", 0xA7), ("OP_SHA256", 0xA8), ("OP_HASH160", 0xA9), ("OP_HASH256", 0xAA),
    ("OP_CODESEPARATOR", 0xAB), ("OP_CHECKSIG", 0xAC), ("OP_CHECKSIGVERIFY", 0xAD), ("OP_CHECKMULTISIG", 0xAE),
    ("OP_CHECKMULTISIGVERIFY", 0xAF),
    ("OP_NOP1", 0xB0), ("OP_CHECKLOCKTIMEVERIFY", 0xB1), ("OP_NOP2", 0xB1), ("OP_CHECKSEQUENCEVERIFY", 0xB2),
    ("OP_NOP3", 0xB2), ("OP_NOP4", 0xB3), ("OP_NOP5", 0xB4), ("OP_NOP6", 0xB5), ("OP_NOP7", 0xB6), ("OP_NOP8", 0xB7),
    ("OP_NOP9", 0xB8), ("OP_NOP10", 0xB9), ("OP_INVALIDOPCODE", 0xFF),
]


# ------------------------------------------------------------------ CScriptNum

def encode(v):
    """CScriptNum::serialize: little-endian magnitude, sign in the top bit of the last byte"""
    if v == 0:
        return b""
    neg = v < 0
    a = -v if neg else v
    out = []
    while a:
        out.append(a & 0xFF)
        a >>= 8
    if out[-1] & 0x80:
        out.append(0x80 if neg else 0x00)
    elif neg:
        out[-1] |= 0x80
    return bytes(out)


def decode(b):
    """CScriptNum::set_vch without the size limit: value of any byte string"""
    if len(b) == 0:
        return 0
    mag = 0
    for i in range(len(b)):
        byte = b[i]
        if i == len(b) - 1:
            byte &= 0x7F
        mag |= byte << (8 * i)
    if b[-1] & 0x80:
        return -mag
    return mag


def is_minimal(b):
    """CScriptNum::IsMinimallyEncoded without the size limit"""
    if len(b) > 0:
        if (b[-1] & 0x7F) == 0:
            if len(b) <= 1 or (b[-2] & 0x80) == 0:
                return False
    return True


# ------------------------------------------------------------------ pushes

def push_direct(data):
    if not 1 <= len(data) <= 75:
        raise ValueError("direct push holds 1..75 bytes")
    return bytes([len(data)]) + data


def push_pushdata1(data):
    if len(data) > 0xFF:
        raise ValueError("PUSHDATA1 holds <= 255 bytes")
    return bytes([OP_PUSHDATA1, len(data)]) + data


def push_pushdata2(data):
    if len(data) > 0xFFFF:
        raise ValueError("PUSHDATA2 holds <= 65535 bytes")
    return bytes([OP_PUSHDATA2, len(data) & 0xFF, len(data) >> 8]) + data


def push_pushdata4(data):
    n = len(data)
    return bytes([OP_PUSHDATA4, n & 0xFF, (n >> 8) & 0xFF, (n >> 16) & 0xFF, (n >> 24) & 0xFF]) + data


PUSH_FORMS = (("direct", push_direct, 75), ("pushdata1", push_pushdata1, 0xFF), ("pushdata2", push_pushdata2, 0xFFFF),
              ("pushdata4", push_pushdata4, 0xFFFFFFFF))


def push_form(form, data):
    for name, f, _ in PUSH_FORMS:
        if name == form:
            return f(data)
    raise ValueError(form)


def shortest_push(data):
    """the one encoding of a push of ``data`` that CheckMinimalPush accepts (and the shortest one)"""
    n = len(data)
    if n == 0:
        return bytes([OP_0])
    if n == 1 and 1 <= data[0] <= 16:
        return bytes([OP_1 + data[0] - 1])
    if n == 1 and data[0] == 0x81:
        return bytes([OP_1NEGATE])
    if n <= 75:
        return push_direct(data)
    if n <= 0xFF:
        return push_pushdata1(data)
    if n <= 0xFFFF:
        return push_pushdata2(data)
    return push_pushdata4(data)


def check_minimal_push(data, opcode):
    """interpreter.cpp CheckMinimalPush.  Core calls it for opcode <= OP_PUSHDATA4 only; the constant
    pushes OP_1NEGATE, OP_1..OP_16 are always minimal."""
    if opcode > OP_PUSHDATA4:
        return True
    if len(data) == 0:
        return opcode == OP_0
    elif len(data) == 1 and 1 <= data[0] <= 16:
        return False
    elif len(data) == 1 and data[0] == 0x81:
        return False
    elif len(data) <= 75:
        return opcode == len(data)
    elif len(data) <= 255:
        return opcode == OP_PUSHDATA1
    elif len(data) <= 65535:
        return opcode == OP_PUSHDATA2
    return True


def get_op(script, pc):
    """script.cpp GetScriptOp.  Returns (ok, opcode, data, new_pc); data is None for non-push opcodes and
    for a malformed (truncated) push, ok is False for the latter.  OP_1NEGATE/OP_1..16 return their
    implied data as Core's interpreter pushes it."""
    if pc >= len(script):
        return (False, None, None, pc)
    opcode = script[pc]
    pc += 1
    if opcode <= OP_PUSHDATA4:
        if opcode < OP_PUSHDATA1:
            size = opcode
        elif opcode == OP_PUSHDATA1:
            if len(script) - pc < 1:
                return (False, opcode, None, pc)
            size = script[pc]
            pc += 1
        elif opcode == OP_PUSHDATA2:
            if len(script) - pc < 2:
                return (False, opcode, None, pc)
            size = script[pc] | (script[pc + 1] << 8)
            pc += 2
        else:
            if len(script) - pc < 4:
                return (False, opcode, None, pc)
            size = script[pc] | (script[pc + 1] << 8) | (script[pc + 2] << 16) | (script[pc + 3] << 24)
            pc += 4
        if len(script) - pc < size:
            return (False, opcode, None, pc)
        return (True, opcode, bytes(script[pc:pc + size]), pc + size)
    if opcode == OP_1NEGATE:
        return (True, opcode, b"\x81", pc)
    if OP_1 <= opcode <= OP_16:
        return (True, opcode, bytes([opcode - OP_1 + 1]), pc)
    return (True, opcode, None, pc)


def tokenize(script):
    """list of (opcode, data, new_pc) up to and including the first malformed instruction, and ok flag"""
    out = []
    pc = 0
    while pc < len(script):
        ok, opcode, data, pc = get_op(script, pc)
        out.append((opcode, data, pc))
        if not ok:
            return out, False
    return out, True


# ------------------------------------------------------------------ binding vectors

_NUM_VECTORS = [
    (0, ""), (1, "01"), (-1, "81"), (16, "10"), (17, "11"), (127, "7f"), (-127, "ff"), (128, "8000"), (-128, "8080"),
    (129, "8100"), (-129, "8180"), (255, "ff00"), (-255, "ff80"), (256, "0001"), (-256, "0081"), (32767, "ff7f"),
    (-32767, "ffff"), (32768, "008000"), (-32768, "008080"), (65535, "ffff00"), (-65535, "ffff80"),
    (524288, "000008"), (7340032, "000070"), (8388608, "00008000"), (2147483647, "ffffff7f"),
    (-2147483647, "ffffffff"), (2147483648, "0000008000"), (-2147483648, "0000008080"),
    (4294967295, "ffffffff00"), (549755813887, "ffffffff7f"), (-549755813887, "ffffffffff"),
    (9223372036854775807, "ffffffffffffff7f"), (-9223372036854775807, "ffffffffffffffff"),
]
# script_tests.json "Equivalency of different numeric encodings" / "MINIMALDATA enforcement for numeric arguments"
_NONMINIMAL = [("00", 0), ("0000", 0), ("80", 0), ("0080", 0), ("0500", 5), ("050000", 5), ("0580", -5), ("050080", -5),
               ("ff7f80", -32767), ("ff7f00", 32767), ("ffff7f80", -8388607), ("ffff7f00", 8388607)]


class Invalid(Exception):
    pass


def _expect(cond, what):
    if not cond:
        raise Invalid("ref.scriptnum: " + what)


def _parse_test_script(text):
    """the subset of the Core test-vector script syntax made of raw 0x tokens only; None otherwise"""
    out = b""
    for t in text.split():
        if not t.startswith("0x"):
            return None
        out += bytes.fromhex(t[2:])
    return out


def selfcheck(script_tests_path="/repo/tests/btc/data/script_tests.json"):
    n = 0
    for v, h in _NUM_VECTORS:
        _expect(encode(v).hex() == h, "encode(%d)=%s want %s" % (v, encode(v).hex(), h))
        _expect(decode(bytes.fromhex(h)) == v, "decode(%s)" % h)
        _expect(is_minimal(bytes.fromhex(h)), "is_minimal(%s)" % h)
        n += 1
    for h, v in _NONMINIMAL:
        _expect(decode(bytes.fromhex(h)) == v and not is_minimal(bytes.fromhex(h)), "non-minimal %s" % h)
        n += 1
    # pushes: boundaries as Core's CScript::operator<< produces them (plus the constant opcodes)
    for ln, head in [(1, "01"), (75, "4b"), (76, "4c4c"), (255, "4cff"), (256, "4d0001"), (65535, "4dffff"),
                     (65536, "4e00000100"), (70000, "4e70110100")]:
        d = b"\xaa" * ln
        e = shortest_push(d)
        _expect(e == bytes.fromhex(head) + d, "shortest_push len %d" % ln)
        ok, op, data, pc = get_op(e, 0)
        _expect(ok and data == d and pc == len(e) and check_minimal_push(data, op), "push round trip len %d" % ln)
        for k in range(1, min(len(e), 8)):
            _expect(get_op(e[:k], 0)[0] is False, "truncation %d of len %d" % (k, ln))
        n += 1
    _expect(shortest_push(b"") == b"\x00" and shortest_push(b"\x81") == b"\x4f" and shortest_push(b"\x10") == b"\x60"
            and shortest_push(b"\x00") == b"\x01\x00" and shortest_push(b"\x11") == b"\x01\x11", "constant pushes")
    n += 1
    byname = {}
    for name, val in CORE_OPCODES:
        byname[name] = val
    _expect(len(set(byname.values())) == 1 + 4 + 1 + 16 + (0xB9 - 0x61 + 1) + 1 and byname["OP_CHECKSIG"] == 172
            and byname["OP_NOP10"] == 185 and byname["OP_EQUAL"] == 135, "opcode table")
    n += 1
    # Core's own vectors for the minimal-push rule
    if os.path.exists(script_tests_path):
        with open(script_tests_path) as f:
            vectors = json.load(f)
        seen_bad = seen_ok = 0
        for v in vectors:
            if len(v) < 4 or not isinstance(v[0], str):
                continue
            sig, spk, flags, result = v[:4] if not isinstance(v[0], list) else v[1:5]
            if flags != "MINIMALDATA" or spk != "DROP 1":
                continue
            raw = _parse_test_script(sig)
            if raw is None:
                continue
            ok, op, data, pc = get_op(raw, 0)
            _expect(ok and pc == len(raw), "vector %r tokenizes as one push" % sig[:30])
            want = result == "OK"
            _expect(check_minimal_push(data, op) == want, "CheckMinimalPush on vector %r" % sig[:30])
            if want:
                seen_ok += 1
            else:
                seen_bad += 1
            n += 1
        _expect(seen_bad >= 20, "expected the MINIMALDATA push vectors in script_tests.json (got %d)" % seen_bad)
    return n
