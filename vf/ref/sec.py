"""Reference canonical SEC1 (2.3.3 / 2.3.4) point codec for curves whose field elements take
`flen` bytes (32 for secp256k1).  A blob is accepted iff it is THE encoding of an affine curve
point: length 1+flen & prefix 02/03 & x < p & x^3+ax+b a square; or length 1+2*flen & prefix 04
& x, y < p & on the curve.  (Hybrid 06/07 and the one-byte infinity encoding are not accepted:
the property speaks of public keys.)  No pycoin imports."""

from . import ec


class SECError(ValueError):
    pass


def encode(P, compressed, flen=32):
    x, y = P
    if compressed:
        return bytes([2 + (y & 1)]) + x.to_bytes(flen, "big")
    return b"\x04" + x.to_bytes(flen, "big") + y.to_bytes(flen, "big")


def decode(blob, curve, flen=32):
    """returns ((x, y), compressed) or raises SECError(reason)"""
    p, a, b = curve["p"], curve["a"], curve["b"]
    blob = bytes(blob)
    if len(blob) == 1 + flen:
        if blob[0] not in (2, 3):
            raise SECError("prefix")
        x = int.from_bytes(blob[1:], "big")
        if x >= p:
            raise SECError("x>=p")
        y = ec.sqrt_3mod4(x * x * x + a * x + b, p)
        if y is None:
            raise SECError("no-point")
        if (y & 1) != (blob[0] & 1):
            y = (p - y) % p
        if (y & 1) != (blob[0] & 1):
            raise SECError("no-point")       # y == 0 and odd parity requested
        return (x, y), True
    if len(blob) == 1 + 2 * flen:
        if blob[0] != 4:
            raise SECError("prefix")
        x = int.from_bytes(blob[1:1 + flen], "big")
        y = int.from_bytes(blob[1 + flen:], "big")
        if x >= p or y >= p:
            raise SECError("coord>=p")
        if (y * y - (x * x * x + a * x + b)) % p != 0:
            raise SECError("off-curve")
        return (x, y), False
    raise SECError("length")


def selfcheck(tests_dir="/repo/tests/ecdsa"):
    """round trip on the published multiples of the secp256k1 generator (tests/ecdsa/secp256k1_test.py),
    the well known compressed/uncompressed encodings of G, and rejection of the alias forms"""
    import os
    c = ec.SECP256K1
    n = 0
    G = c["G"]
    if encode(G, True).hex() != "0279be667ef9dcbbac55a06295ce870b07029bfcdb2dce28d959f2815b16f81798":
        raise ValueError("sec G compressed")
    if encode(G, False).hex() != ("0479be667ef9dcbbac55a06295ce870b07029bfcdb2dce28d959f2815b16f81798"
                                  "483ada7726a3c4655da4fbfc0e1108a8fd17b448a68554199c47d08ffb10d4b8"):
        raise ValueError("sec G uncompressed")
    n += 2
    for k, x, y in ec._parse_vectors(os.path.join(tests_dir, "secp256k1_test.py"), True):
        for comp in (True, False):
            e = encode((x, y), comp)
            if decode(e, c) != ((x, y), comp):
                raise ValueError("sec round trip k=%d" % k)
            n += 1
        flip = bytes([encode((x, y), True)[0] ^ 1]) + encode((x, y), True)[1:]
        if decode(flip, c) != ((x, c["p"] - y), True):
            raise ValueError("sec parity k=%d" % k)
    for bad, why in ((b"", "length"), (b"\x02" + b"\x00" * 31, "length"), (b"\x04" + encode(G, True)[1:], "prefix"),
                     (b"\x02" + encode(G, False)[1:], "prefix"), (b"\x06" + encode(G, False)[1:], "prefix"),
                     (b"\x02" + (c["p"] + 1).to_bytes(32, "big"), "x>=p"), (b"\x02" + (5).to_bytes(32, "big"), "no-point"),
                     (b"\x04" + G[0].to_bytes(32, "big") + (G[1] ^ 1).to_bytes(32, "big"), "off-curve")):
        try:
            decode(bad, c)
        except SECError as e:
            if str(e) != why:
                raise ValueError("sec reject reason %s vs %s" % (e, why))
            n += 1
            continue
        raise ValueError("sec accepted %s" % bad.hex())
    return n
