"""Reference transaction serialisation and signature hashes (legacy, BIP143, fork-id variants,
single-SHA256 variants).  Written from the BIP143 text and Bitcoin Core's SignatureHash; no pycoin imports.

tx is a dict: version, ins [(prev_hash32, prev_index, script, sequence, witness_list)], outs [(value, script)], lock.
Digests are returned as ints read LITTLE-endian from the 32 hash bytes by sighash_legacy/sighash_bip143 (uint256
convention); use digest_be() for the big-endian integer that ECDSA consumes (and that pycoin returns)."""
import hashlib
import struct


def sha256(b):
    return hashlib.sha256(b).digest()


def dsha(b):
    return sha256(sha256(b))


OP_CODESEPARATOR = 0xab
OP_PUSHDATA1, OP_PUSHDATA2, OP_PUSHDATA4 = 0x4c, 0x4d, 0x4e


def get_op(script, pc):
    """returns (opcode, data, newpc) or None on failure"""
    n = len(script)
    if pc >= n:
        return None
    op = script[pc]
    pc += 1
    data = None
    if op <= OP_PUSHDATA4:
        if op < OP_PUSHDATA1:
            sz = op
        elif op == OP_PUSHDATA1:
            if n - pc < 1:
                return None
            sz = script[pc]
            pc += 1
        elif op == OP_PUSHDATA2:
            if n - pc < 2:
                return None
            sz = script[pc] | (script[pc + 1] << 8)
            pc += 2
        else:
            if n - pc < 4:
                return None
            sz = int.from_bytes(script[pc:pc + 4], "little")
            pc += 4
        if n - pc < sz:
            return None
        data = bytes(script[pc:pc + sz])
        pc += sz
    return op, data, pc

def cs(n):
    if n<253: return bytes([n])
    if n<=0xffff: return b"\xfd"+struct.pack("<H",n)
    if n<=0xffffffff: return b"\xfe"+struct.pack("<L",n)
    return b"\xff"+struct.pack("<Q",n)
def vs(b): return cs(len(b))+b
def ser(tx,witness=True):
    w=witness and any(i[4] for i in tx["ins"])
    o=struct.pack("<L",tx["version"])
    if w: o+=b"\x00\x01"
    o+=cs(len(tx["ins"]))
    for h,i,s,q,wt in tx["ins"]: o+=h+struct.pack("<L",i)+vs(s)+struct.pack("<L",q)
    o+=cs(len(tx["outs"]))
    for v,s in tx["outs"]: o+=struct.pack("<Q",v)+vs(s)
    if w:
        for h,i,s,q,wt in tx["ins"]:
            o+=cs(len(wt))
            for it in wt: o+=vs(it)
    return o+struct.pack("<L",tx["lock"])
def strip_codesep(code):
    out=bytearray(); pc=0; beg=0
    # Core: copies segments between code separators; on parse failure stops at failure point
    while True:
        r=get_op(code,pc)
        if r is None: break
        op,d,npc=r
        if op==OP_CODESEPARATOR:
            out+=code[beg:pc]; beg=npc
        pc=npc
    out+=code[beg:pc] if pc<=len(code) else b""
    return bytes(out)
def sighash_legacy(tx, idx, code, ht, h=dsha):
    """Core SignatureHash, SigVersion::BASE.  code: script code AFTER FindAndDelete of the signature (the caller's
    job, as in Core); OP_CODESEPARATORs are removed here.  `1` (as uint256) for the SIGHASH_SINGLE bug."""
    if idx >= len(tx["ins"]):
        return 1
    if (ht & 0x1f) == 3 and idx >= len(tx["outs"]):
        return 1
    code = strip_codesep(code)
    ins = []
    for n, (hh, i, s, q, w) in enumerate(tx["ins"]):
        if ht & 0x80 and n != idx:
            continue
        qq = q
        if n != idx and (ht & 0x1f) in (2, 3):
            qq = 0
        ins.append((hh, i, code if n == idx else b"", qq, []))
    if (ht & 0x1f) == 2:
        outs = []
    elif (ht & 0x1f) == 3:
        outs = [(0xffffffffffffffff, b"")] * idx + [tx["outs"][idx]]
    else:
        outs = tx["outs"]
    t = dict(version=tx["version"], ins=ins, outs=outs, lock=tx["lock"])
    return int.from_bytes(h(ser(t, False) + struct.pack("<L", ht & 0xffffffff)), "little")


def sighash_bip143(tx, idx, code, amount, ht, h=dsha, hfinal=dsha):
    """BIP143 digest; ht is the full 32-bit hash type written into the preimage (fork ids live in its upper bytes)."""
    z = b"\0" * 32
    hp = z if ht & 0x80 else h(b"".join(i[0] + struct.pack("<L", i[1]) for i in tx["ins"]))
    hs = z if (ht & 0x80 or (ht & 0x1f) in (2, 3)) else h(b"".join(struct.pack("<L", i[3]) for i in tx["ins"]))
    if (ht & 0x1f) not in (2, 3):
        ho = h(b"".join(struct.pack("<Q", v) + vs(s) for v, s in tx["outs"]))
    elif (ht & 0x1f) == 3 and idx < len(tx["outs"]):
        v, s = tx["outs"][idx]
        ho = h(struct.pack("<Q", v) + vs(s))
    else:
        ho = z
    i = tx["ins"][idx]
    pre = (struct.pack("<L", tx["version"]) + hp + hs + i[0] + struct.pack("<L", i[1]) + vs(code) + struct.pack("<Q", amount)
           + struct.pack("<L", i[3]) + ho + struct.pack("<L", tx["lock"]) + struct.pack("<L", ht & 0xffffffff))
    return int.from_bytes(hfinal(pre), "little")


def digest_be(le_int):
    return int.from_bytes(le_int.to_bytes(32, "little"), "big")
