"""Reference Bitcoin wire encodings (no pycoin imports; stdlib only).

Written from the protocol documentation (developer reference "P2P network" / "transactions" / "block
chain" sections), BIP144 (segwit serialisation), BIP37 (filter*/merkleblock), BIP152 (compact blocks),
BIP130/133/155 (sendheaders, feefilter, sendaddrv2).  Everything is a plain function over ints / bytes /
dicts / lists.  Deliberately simple: no tables of pre-computed values, no caches, no early exits.

Data model
    tx      = {"version": int, "ins": [txin, ...], "outs": [txout, ...], "lock_time": int}
    txin    = {"prev": bytes32, "index": int, "script": bytes, "sequence": int, "witness": [bytes, ...]}
    txout   = {"value": int, "script": bytes}
    header  = {"version": int, "prev": bytes32, "merkle": bytes32, "time": int, "bits": int, "nonce": int}
    block   = {"header": header, "txs": [tx, ...]}
    netaddr = {"services": int, "ip": bytes16 (or bytes4 = IPv4, mapped to ::ffff:a.b.c.d), "port": int}
    inv     = {"type": int, "hash": bytes32}
    spendable = {"value", "script", "tx_hash", "index", "block_index_available", "spent", "block_index_spent"}
"""
import hashlib
import struct


class WireError(Exception):
    pass


def sha256(b):
    return hashlib.sha256(b).digest()


def dsha256(b):
    return hashlib.sha256(hashlib.sha256(b).digest()).digest()


# ---------------------------------------------------------------- integers

def uint(v, nbytes):
    """little-endian unsigned integer of fixed width; out-of-range is an error of the caller"""
    if not isinstance(v, int):
        raise WireError("not an int: %r" % (v,))
    if v < 0 or v >> (8 * nbytes):
        raise WireError("%d does not fit %d bytes" % (v, nbytes))
    out = bytearray()
    for i in range(nbytes):
        out.append((v >> (8 * i)) & 0xff)
    return bytes(out)


def read_uint(b, pos, nbytes):
    if pos + nbytes > len(b):
        raise WireError("truncated")
    v = 0
    for i in range(nbytes):
        v |= b[pos + i] << (8 * i)
    return v, pos + nbytes


def compact_size(n):
    """CompactSize: < 0xfd one byte; <= 0xffff fd+2; <= 0xffffffff fe+4; else ff+8"""
    if n < 0 or n >> 64:
        raise WireError("compact size out of range")
    if n < 0xfd:
        return uint(n, 1)
    if n <= 0xffff:
        return b"\xfd" + uint(n, 2)
    if n <= 0xffffffff:
        return b"\xfe" + uint(n, 4)
    return b"\xff" + uint(n, 8)


def read_compact_size(b, pos):
    first, pos = read_uint(b, pos, 1)
    if first < 0xfd:
        return first, pos
    if first == 0xfd:
        return read_uint(b, pos, 2)
    if first == 0xfe:
        return read_uint(b, pos, 4)
    return read_uint(b, pos, 8)


def var_bytes(s):
    return compact_size(len(s)) + bytes(s)


def read_var_bytes(b, pos):
    n, pos = read_compact_size(b, pos)
    if pos + n > len(b):
        raise WireError("truncated string")
    return bytes(b[pos:pos + n]), pos + n


def fixed(s, n):
    if len(s) != n:
        raise WireError("expected %d bytes, got %d" % (n, len(s)))
    return bytes(s)


def read_fixed(b, pos, n):
    if pos + n > len(b):
        raise WireError("truncated")
    return bytes(b[pos:pos + n]), pos + n


# ---------------------------------------------------------------- transactions

def ser_txin(i):
    return fixed(i["prev"], 32) + uint(i["index"], 4) + var_bytes(i["script"]) + uint(i["sequence"], 4)


def ser_txout(o):
    return uint(o["value"], 8) + var_bytes(o["script"])


def has_witness(tx):
    for i in tx["ins"]:
        if len(i.get("witness", ())) > 0:
            return True
    return False


def ser_tx_legacy(tx):
    out = uint(tx["version"], 4)
    out += compact_size(len(tx["ins"]))
    for i in tx["ins"]:
        out += ser_txin(i)
    out += compact_size(len(tx["outs"]))
    for o in tx["outs"]:
        out += ser_txout(o)
    out += uint(tx["lock_time"], 4)
    return out


def ser_tx(tx):
    """standard serialisation: BIP144 extended form iff some witness stack is non-empty"""
    if not has_witness(tx):
        return ser_tx_legacy(tx)
    out = uint(tx["version"], 4) + b"\x00\x01"
    out += compact_size(len(tx["ins"]))
    for i in tx["ins"]:
        out += ser_txin(i)
    out += compact_size(len(tx["outs"]))
    for o in tx["outs"]:
        out += ser_txout(o)
    for i in tx["ins"]:
        w = i.get("witness", ())
        out += compact_size(len(w))
        for item in w:
            out += var_bytes(item)
    out += uint(tx["lock_time"], 4)
    return out


def read_tx(b, pos=0):
    version, pos = read_uint(b, pos, 4)
    extended = False
    if pos + 2 <= len(b) and b[pos] == 0 and b[pos + 1] != 0:
        if b[pos + 1] != 1:
            raise WireError("unknown segwit flag")
        extended = True
        pos += 2
    n, pos = read_compact_size(b, pos)
    ins = []
    for k in range(n):
        prev, pos = read_fixed(b, pos, 32)
        index, pos = read_uint(b, pos, 4)
        script, pos = read_var_bytes(b, pos)
        seq, pos = read_uint(b, pos, 4)
        ins.append({"prev": prev, "index": index, "script": script, "sequence": seq, "witness": []})
    n, pos = read_compact_size(b, pos)
    outs = []
    for k in range(n):
        value, pos = read_uint(b, pos, 8)
        script, pos = read_var_bytes(b, pos)
        outs.append({"value": value, "script": script})
    if extended:
        for i in ins:
            cnt, pos = read_compact_size(b, pos)
            for k in range(cnt):
                item, pos = read_var_bytes(b, pos)
                i["witness"].append(item)
    lock_time, pos = read_uint(b, pos, 4)
    return {"version": version, "ins": ins, "outs": outs, "lock_time": lock_time}, pos


def parse_tx(b):
    tx, pos = read_tx(b, 0)
    if pos != len(b):
        raise WireError("trailing bytes")
    return tx


def txid_bytes(tx):
    """internal byte order"""
    return dsha256(ser_tx_legacy(tx))


def wtxid_bytes(tx):
    return dsha256(ser_tx(tx))


def txid_hex(tx):
    return txid_bytes(tx)[::-1].hex()


def wtxid_hex(tx):
    return wtxid_bytes(tx)[::-1].hex()


def ser_unspents(txouts):
    """pycoin-specific extension: the spent outputs, one TxOut per input, appended after the transaction"""
    out = b""
    for o in txouts:
        out += ser_txout(o)
    return out


# ---------------------------------------------------------------- spendable (library-specific binary record)

def ser_spendable(s):
    """binary spendable record: TxOut, then tx hash (internal order), output index u32, block index where it became
    available (compact size), spent flag (one byte 0/1), block index where spent (compact size)"""
    return (uint(s["value"], 8) + var_bytes(s["script"]) + fixed(s["tx_hash"], 32) + uint(s["index"], 4)
            + compact_size(s["block_index_available"]) + (b"\x01" if s["spent"] else b"\x00")
            + compact_size(s["block_index_spent"]))


def spendable_text(s):
    """txid-hex(display order)/index/script-hex/value/block_index_available/spent/block_index_spent"""
    return "/".join([s["tx_hash"][::-1].hex(), "%d" % s["index"], s["script"].hex(), "%d" % s["value"],
                     "%d" % s["block_index_available"], "%d" % (1 if s["spent"] else 0), "%d" % s["block_index_spent"]])


# ---------------------------------------------------------------- headers and blocks

def ser_header(h):
    out = (uint(h["version"], 4) + fixed(h["prev"], 32) + fixed(h["merkle"], 32) + uint(h["time"], 4)
           + uint(h["bits"], 4) + uint(h["nonce"], 4))
    assert len(out) == 80
    return out


def read_header(b, pos=0):
    version, pos = read_uint(b, pos, 4)
    prev, pos = read_fixed(b, pos, 32)
    merkle, pos = read_fixed(b, pos, 32)
    t, pos = read_uint(b, pos, 4)
    bits, pos = read_uint(b, pos, 4)
    nonce, pos = read_uint(b, pos, 4)
    return {"version": version, "prev": prev, "merkle": merkle, "time": t, "bits": bits, "nonce": nonce}, pos


def block_hash_bytes(h):
    return dsha256(ser_header(h))


def block_id_hex(h):
    return block_hash_bytes(h)[::-1].hex()


def ser_block(blk):
    out = ser_header(blk["header"]) + compact_size(len(blk["txs"]))
    for tx in blk["txs"]:
        out += ser_tx(tx)
    return out


def parse_block(b):
    h, pos = read_header(b, 0)
    n, pos = read_compact_size(b, pos)
    txs = []
    for k in range(n):
        tx, pos = read_tx(b, pos)
        txs.append(tx)
    if pos != len(b):
        raise WireError("trailing bytes")
    return {"header": h, "txs": txs}


# ---------------------------------------------------------------- p2p helper structures

IPV4_MAPPED_PREFIX = b"\x00" * 10 + b"\xff\xff"


def ip16(ip):
    if len(ip) == 4:
        return IPV4_MAPPED_PREFIX + bytes(ip)
    return fixed(ip, 16)


def ser_netaddr(a):
    """net_addr without the time field: services u64 LE, 16-byte address, port u16 BIG-endian"""
    port = a["port"]
    if port < 0 or port > 0xffff:
        raise WireError("port out of range")
    return uint(a["services"], 8) + ip16(a["ip"]) + bytes([port >> 8, port & 0xff])


def ser_inv(v):
    return uint(v["type"], 4) + fixed(v["hash"], 32)


def ser_bool(v):
    return b"\x01" if v else b"\x00"


def ser_alert_payload(a):
    """the signed inner structure of the (retired) alert message"""
    out = uint(a["version"], 4) + uint(a["relayUntil"], 8) + uint(a["expiration"], 8) + uint(a["id"], 4) + uint(a["cancel"], 4)
    out += compact_size(len(a["setCancel"]))
    for c in a["setCancel"]:
        out += uint(c, 4)
    out += uint(a["minVer"], 4) + uint(a["maxVer"], 4)
    out += compact_size(len(a["setSubVer"]))
    for s in a["setSubVer"]:
        out += var_bytes(s)
    out += uint(a["priority"], 4) + var_bytes(a["comment"]) + var_bytes(a["statusBar"]) + var_bytes(a["reserved"])
    return out


# ---------------------------------------------------------------- p2p message payloads
#
# One encoder per field kind, one layout per message.  The field *names* are the keyword names of the library's
# pack() interface (an interface fact, needed to call it at all); the *kinds* and their order are transcribed
# here from the protocol documents, not from the library's table.  Kinds:
#   u8 u32 u64      little-endian unsigned
#   u48             6-byte little-endian unsigned (BIP152 short transaction id)
#   varint          compact size
#   bool            one byte 0/1
#   optbool         one byte 0/1, or nothing at all when the value is None (BIP37 "relay" at the end of version)
#   bytes           compact size length + raw bytes (var_str)
#   hash            32 raw bytes
#   netaddr inv tx block header
#   ("array", kind) or ("array", (kind, kind, ...))   compact size count + elements (tuples are concatenated)

MESSAGES = {
    # version: int32 version, services, int64 timestamp, addr_recv, addr_from (both without time), nonce,
    # user_agent, start_height, [relay]
    "version": [("version", "u32"), ("services", "u64"), ("timestamp", "u64"), ("remote_address", "netaddr"),
                ("local_address", "netaddr"), ("nonce", "u64"), ("subversion", "bytes"), ("last_block_index", "u32"),
                ("relay", "optbool")],
    "verack": [],
    "addr": [("date_address_tuples", ("array", ("u32", "netaddr")))],
    "inv": [("items", ("array", "inv"))],
    "getdata": [("items", ("array", "inv"))],
    "notfound": [("items", ("array", "inv"))],
    # reject: message, ccode, reason, data (the library declares data as a fixed 32-byte hash)
    "reject": [("message", "bytes"), ("code", "u8"), ("reason", "bytes"), ("data", "hash")],
    "getblocks": [("version", "u32"), ("hashes", ("array", "hash")), ("hash_stop", "hash")],
    "getheaders": [("version", "u32"), ("hashes", ("array", "hash")), ("hash_stop", "hash")],
    "sendheaders": [],
    "tx": [("tx", "tx")],
    "block": [("block", "block")],
    # headers: count, then 80-byte header + transaction count (always 0 on the network, a compact size)
    "headers": [("headers", ("array", ("header", "varint")))],
    "getaddr": [],
    "mempool": [],
    "feefilter": [("fee_filter_value", "u64")],
    "sendcmpct": [("enabled", "bool"), ("version", "u64")],
    # BIP152 HeaderAndShortIDs carries the full 80-byte header; the library declares a 32-byte "header_hash"
    # field in that position.  The property speaks about "the wire encoding of those fields", so the field the
    # library declares is encoded as what it is (32 raw bytes); the deviation from BIP152 is reported, not judged.
    "cmpctblock": [("header_hash", "hash"), ("nonce", "u64"), ("short_ids", ("array", "u48")),
                   ("prefilled_txs", ("array", ("varint", "tx")))],
    "getblocktxn": [("header_hash", "hash"), ("indices", ("array", "varint"))],
    "blocktxn": [("header_hash", "hash"), ("txs", ("array", "tx"))],
    "sendaddrv2": [],
    "ping": [("nonce", "u64")],
    "pong": [("nonce", "u64")],
    # filterload: filter bytes, nHashFuncs, nTweak, nFlags (the library declares nFlags as a boolean)
    "filterload": [("filter", ("array", "u8")), ("hash_function_count", "u32"), ("tweak", "u32"), ("flags", "bool")],
    "filteradd": [("data", ("array", "u8"))],
    "filterclear": [],
    "merkleblock": [("header", "header"), ("total_transactions", "u32"), ("hashes", ("array", "hash")),
                    ("flags", ("array", "u8"))],
    "alert": [("payload", "bytes"), ("signature", "bytes")],
}


def ser_kind(kind, v):
    if kind == "u8":
        return uint(v, 1)
    if kind == "u32":
        return uint(v, 4)
    if kind == "u48":
        return uint(v, 6)
    if kind == "u64":
        return uint(v, 8)
    if kind == "varint":
        return compact_size(v)
    if kind == "bool":
        return ser_bool(v)
    if kind == "optbool":
        return b"" if v is None else ser_bool(v)
    if kind == "bytes":
        return var_bytes(v)
    if kind == "hash":
        return fixed(v, 32)
    if kind == "netaddr":
        return ser_netaddr(v)
    if kind == "inv":
        return ser_inv(v)
    if kind == "tx":
        return ser_tx(v)
    if kind == "block":
        return ser_block(v)
    if kind == "header":
        return ser_header(v)
    if isinstance(kind, tuple) and kind[0] == "array":
        out = compact_size(len(v))
        for e in v:
            if isinstance(kind[1], tuple):
                if len(e) != len(kind[1]):
                    raise WireError("tuple arity")
                for k, x in zip(kind[1], e):
                    out += ser_kind(k, x)
            else:
                out += ser_kind(kind[1], e)
        return out
    raise WireError("unknown kind %r" % (kind,))


def ser_message(name, fields):
    out = b""
    layout = MESSAGES[name]
    if set(fields) != set(n for n, k in layout):
        raise WireError("fields of %s are %r" % (name, [n for n, k in layout]))
    for fname, kind in layout:
        out += ser_kind(kind, fields[fname])
    return out


# ---------------------------------------------------------------- context-free transaction check

COIN = 100000000
MAX_MONEY_BTC = 21000000 * COIN
MAX_SIZE = 1000000
NULL_HASH = b"\x00" * 32
NULL_INDEX = 0xffffffff


def is_null_outpoint(i):
    return i["prev"] == NULL_HASH and i["index"] == NULL_INDEX


def is_coinbase(tx):
    return len(tx["ins"]) == 1 and is_null_outpoint(tx["ins"][0])


def tx_defects(tx, max_money=MAX_MONEY_BTC):
    """every defect named by the property (all of them, no early exit); values may be any Python int"""
    d = []
    if len(tx["ins"]) == 0:
        d.append("no-inputs")
    if len(tx["outs"]) == 0:
        d.append("no-outputs")
    total = 0
    for o in tx["outs"]:
        if o["value"] < 0 or o["value"] > max_money:
            d.append("value-range")
        total += o["value"]
        if total < 0 or total > max_money:
            d.append("total-range")
    seen = []
    for i in tx["ins"]:
        op = (i["prev"], i["index"])
        if op in seen:
            d.append("duplicate-outpoint")
        seen.append(op)
    if is_coinbase(tx):
        if len(tx["ins"][0]["script"]) < 2 or len(tx["ins"][0]["script"]) > 100:
            d.append("coinbase-script-size")
    else:
        for i in tx["ins"]:
            if is_null_outpoint(i):
                d.append("null-outpoint")
    return sorted(set(d))


def stripped_size(tx):
    """witness-stripped serialised size computed arithmetically (works for unserialisable values too)"""
    n = 4 + len(compact_size(len(tx["ins"]))) + len(compact_size(len(tx["outs"]))) + 4
    for i in tx["ins"]:
        n += 32 + 4 + len(compact_size(len(i["script"]))) + len(i["script"]) + 4
    for o in tx["outs"]:
        n += 8 + len(compact_size(len(o["script"]))) + len(o["script"])
    return n


def total_size(tx):
    n = stripped_size(tx)
    if has_witness(tx):
        n += 2
        for i in tx["ins"]:
            w = i.get("witness", ())
            n += len(compact_size(len(w)))
            for item in w:
                n += len(compact_size(len(item))) + len(item)
    return n


def check_transaction(tx, max_money=MAX_MONEY_BTC):
    """-> ("reject", reasons) | ("accept", []) | ("unconstrained", [])  exactly as the property words it:
    reject on any listed defect or stripped size > 1,000,000; accept a defect-free transaction of total size
    <= 1,000,000; a defect-free transaction with stripped <= 1,000,000 < total is not constrained."""
    d = tx_defects(tx, max_money)
    if stripped_size(tx) > MAX_SIZE:
        d.append("stripped-size")
    if d:
        return "reject", d
    if total_size(tx) <= MAX_SIZE:
        return "accept", []
    return "unconstrained", []


# ---------------------------------------------------------------- binding to published data

def selfcheck(repo="/repo"):
    """round trip + ids of every transaction in the Core vectors shipped in the repository's tests, the block in
    tests/btc/parse_block_test.py, compact-size boundaries.  Raises AssertionError / WireError on mismatch."""
    import json
    import os
    import re
    n = 0
    # compact size boundaries (protocol documentation table)
    table = [(0, "00"), (252, "fc"), (253, "fdfd00"), (65535, "fdffff"), (65536, "fe00000100"),
             (0xffffffff, "feffffffff"), (0x100000000, "ff0000000001000000"), (2 ** 64 - 1, "ff" + "ff" * 8)]
    for v, hx in table:
        assert compact_size(v).hex() == hx, (v, hx)
        assert read_compact_size(bytes.fromhex(hx), 0) == (v, len(hx) // 2)
        n += 1
    # Core transaction vectors: [[prevouts...], txhex, flags]; prevout hashes of tx k's inputs are given in display order
    for fn in ("tx_valid.json", "tx_invalid.json"):
        with open(os.path.join(repo, "tests", "btc", "data", fn)) as f:
            vecs = json.load(f)
        for v in vecs:
            if len(v) != 3 or not isinstance(v[0], list):
                continue
            raw = bytes.fromhex(v[1])
            try:
                tx = parse_tx(raw)
            except WireError:
                # a vector with a zero-input legacy serialisation reads as marker/flag; the vectors' own
                # prevout list then is empty too
                continue
            assert ser_tx(tx) == raw, "re-serialisation differs for %s" % v[1][:40]
            # the inputs listed in the vector are exactly the outpoints of the transaction
            listed = sorted((p[0], p[1] & 0xffffffff) for p in v[0])
            mine = sorted((i["prev"][::-1].hex(), i["index"]) for i in tx["ins"])
            if len(listed) == len(mine):
                assert listed == mine, "outpoints differ for %s" % v[1][:40]
            n += 1
    # transaction ids published in the vectors' comments ("The following is <txid>" precedes the vector)
    with open(os.path.join(repo, "tests", "btc", "data", "tx_valid.json")) as f:
        vecs = json.load(f)
    pending = None
    nids = 0
    for v in vecs:
        if len(v) == 1 and isinstance(v[0], str):
            m = re.match(r"^The following is ([0-9a-f]{64})$", v[0])
            if m:
                pending = m.group(1)
            continue
        if len(v) == 3 and pending:
            assert txid_hex(parse_tx(bytes.fromhex(v[1]))) == pending, pending
            pending = None
            nids += 1
    assert nids >= 3, "published txids not found"
    n += nids
    # BIP143 native P2WPKH example (signed): txid and wtxid differ, txid of the stripped form
    raw = bytes.fromhex("01000000000102fff7f7881a8099afa6940d42d1e7f6362bec38171ea3edf433541db4e4ad969f00000000494830450221008b9d1dc26ba6a9cb62127b02742fa9d754cd3bebf337f7a55d114c8e5cdd30be022040529b194ba3f9281a99f2b1c0a19c0489bc22ede944ccf4ecbab4cc618ef3ed01eeffffffef51e1b804cc89d182d279655c3aa89e815b1b309fe287d9b2b55d57b90ec68a0100000000ffffffff02202cb206000000001976a9148280b37df378db99f66f85c95a783a76ac7a6d5988ac9093510d000000001976a9143bde42dbee7e4dbe6a21b2d50ce2f0167faa815988ac000247304402203609e17b84f6a7d30c80bfa610b5b4542f32a8a0d5447a12fb1366d7f01cc44a0220573a954c4518331561406f90300e8f3358f51928d43c212a8caed02de67eebee0121025476c2e83188368da1ff3e292e7acafcdb3566bb0ad253f62fc70f07aeee635711000000")
    tx = parse_tx(raw)
    assert ser_tx(tx) == raw and has_witness(tx) and tx["ins"][0]["witness"] == [] and len(tx["ins"][1]["witness"]) == 2
    assert txid_bytes(tx) != wtxid_bytes(tx) and txid_bytes(tx) == dsha256(ser_tx_legacy(tx))
    n += 1
    # block 80971 from tests/btc/parse_block_test.py
    with open(os.path.join(repo, "tests", "btc", "parse_block_test.py")) as f:
        src = f.read()
    m = re.search(r"block_data = h2b\(\s*((?:\"[0-9A-Fa-f]+\"\s*)+)\)", src)
    assert m, "block hex not found in parse_block_test.py"
    raw = bytes.fromhex("".join(re.findall(r"\"([0-9A-Fa-f]+)\"", m.group(1))))
    mid = re.search(r"\"([0-9A-Fa-f]{64})\"\.lower\(\)", src).group(1).lower()
    blk = parse_block(raw)
    assert ser_block(blk) == raw
    assert block_id_hex(blk["header"]) == mid
    assert len(blk["txs"]) == 3
    from . import merkle as refmerkle
    assert refmerkle.merkle_root([txid_bytes(t) for t in blk["txs"]]) == blk["header"]["merkle"]
    n += 2
    # netaddr: documentation example 10.0.0.1:8333 services 1
    a = ser_netaddr({"services": 1, "ip": bytes([10, 0, 0, 1]), "port": 8333})
    assert a.hex() == "0100000000000000" + "00000000000000000000ffff0a000001" + "208d"
    n += 1
    # version message example from the protocol documentation (protocol 60002, /Satoshi:0.7.2/, height 212672)
    ex = ("62ea0000" "0100000000000000" "11b2d05000000000"
          "010000000000000000000000000000000000ffff000000000000"
          "010000000000000000000000000000000000ffff000000000000"
          "3b2eb35d8ce61765" "0f2f5361746f7368693a302e372e322f" "c03e0300")
    zero = {"services": 1, "ip": bytes(4), "port": 0}
    got = ser_message("version", dict(version=60002, services=1, timestamp=0x50d0b211, remote_address=zero, local_address=zero,
                                      nonce=0x6517e68c5db32e3b, subversion=b"/Satoshi:0.7.2/", last_block_index=212672, relay=None))
    assert got.hex() == ex, got.hex()
    n += 1
    # context-free check on the Core vectors: every tx_valid vector is defect-free; tx_invalid vectors whose comment
    # names a CheckTransaction failure are rejected with the matching reason
    with open(os.path.join(repo, "tests", "btc", "data", "tx_valid.json")) as f:
        vecs = json.load(f)
    for v in vecs:
        if len(v) == 3 and isinstance(v[0], list):
            try:
                tx = parse_tx(bytes.fromhex(v[1]))
            except WireError:
                continue
            assert check_transaction(tx)[0] == "accept", v[1][:40]
            n += 1
    with open(os.path.join(repo, "tests", "btc", "data", "tx_invalid.json")) as f:
        vecs = json.load(f)
    expect = {"No outputs": "no-outputs", "Negative output": "value-range", "MAX_MONEY + 1 output": "value-range",
              "MAX_MONEY output + 1 output": "total-range", "Duplicate inputs": "duplicate-outpoint",
              "Coinbase of size 1": "coinbase-script-size", "Coinbase of size 101": "coinbase-script-size",
              "Null txin": "null-outpoint"}
    comment = None
    found = set()
    for v in vecs:
        if len(v) == 1 and isinstance(v[0], str):
            for k in expect:
                if v[0].startswith(k):
                    comment = k
            continue
        if len(v) == 3 and isinstance(v[0], list) and comment:
            raw = bytes.fromhex(v[1])
            tx = parse_tx(raw)
            # "Negative output": the vector carries 0xffffffffffffffff, negative only as int64
            for o in tx["outs"]:
                if o["value"] >= 2 ** 63:
                    o["value"] -= 2 ** 64
            verdict, why = check_transaction(tx)
            assert verdict == "reject" and expect[comment] in why, (comment, verdict, why)
            found.add(comment)
            comment = None
            n += 1
    assert len(found) >= 6, "CheckTransaction vectors not found in tx_invalid.json: %r" % sorted(found)
    return n
