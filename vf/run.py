"""CLI:  python -m vf.run C12 [--tier quick|thorough] [--workers N]
        python -m vf.run --replay replays/C12-xxxx.json [--json]
Exit codes: 0 held (KNOWN-FINDING lines allowed) / 1 VIOLATION / 2 harness or model error."""
import argparse
import importlib
import json
import os
import sys
import time

if os.environ.get("PYTHONHASHSEED") != "0":
    os.environ["PYTHONHASHSEED"] = "0"
    os.execv(sys.executable, [sys.executable, "-m", "vf.run"] + sys.argv[1:])

from . import engine  # noqa: E402
from .engine import ModelInvalid  # noqa: E402


def load_drivers(prop, tier, seed):
    mod = importlib.import_module("vf.props.%s" % prop.lower())
    return mod, [cls(tier, seed) for cls in mod.DRIVERS]


def do_replay(path, as_json):
    with open(path) as f:
        rp = json.load(f)
    prop = rp["property"]
    mod, drivers = load_drivers(prop, rp.get("tier", "quick"), rp.get("seed", 0))
    d = [x for x in drivers if x.id == rp["driver"]]
    if not d:
        print("unknown driver %s" % rp["driver"])
        return 2
    out = d[0].run(rp["case"])
    how = "case alone"
    if out.ok and "unit" in rp:
        # passes on fresh objects: re-execute the unit it was found in up to that position (history-dependent defect?)
        k = -1
        for case, o in d[0].execute(rp["unit"]):
            k += 1
            if k == rp["unit_pos"]:
                out = o
                how = "after replaying the first %d cases of its work unit (history dependent: the case alone passes)" % k
                break
    if out.ok and rp.get("shard"):
        # still passes: state may have been carried over from earlier units of the same worker - re-execute that worker's
        # share of the driver's unit stream up to the unit in question (deterministic: same units, same order)
        w, nw, uidx = rp["shard"]
        for prev in drivers:
            if prev.id == rp["driver"]:
                break
            # the drivers that ran before this one in the same worker process (state may cross drivers too)
            pidx = -1
            for unit in prev.units():
                pidx += 1
                if pidx % nw == w:
                    for _case, _o in prev.execute(unit):
                        pass
        idx = -1
        for unit in d[0].units():
            idx += 1
            if idx % nw != w:
                continue
            k = -1
            for case, o in d[0].execute(unit):
                k += 1
                if idx == uidx and k == rp["unit_pos"]:
                    out = o
                    break
            if idx >= uidx:
                break
        how = ("after replaying worker %d/%d's whole share of the exploration up to unit %d of this driver (state carried between "
               "units; the case alone and its unit alone pass)" % (w, nw, uidx))
    obs = json.dumps(dict(ok=out.ok, cls=out.cls, ref=str(out.ref), impl=str(out.impl), how=how), sort_keys=True)
    print("OBS " + obs)
    if not as_json:
        print("property=%s driver=%s" % (prop, rp["driver"]))
        print("case: %s" % json.dumps(rp["case"], sort_keys=True)[:2000])
        print("reference : %s" % out.ref)
        print("pycoin    : %s" % out.impl)
        print(("still disagrees (%s)" % how) if not out.ok else "agrees now")
        if not out.ok:
            print("VIOLATION property=%s replay=%s" % (prop, os.path.abspath(path)))
    return 0 if out.ok else 1


def main():
    ap = argparse.ArgumentParser()
    ap.add_argument("prop", nargs="?")
    ap.add_argument("--tier", default=os.environ.get("VERIF_TIER") or "quick")
    ap.add_argument("--replay")
    ap.add_argument("--json", action="store_true")
    ap.add_argument("--workers", type=int, default=None)
    ap.add_argument("--list", action="store_true", help="dev: list every disagreement group, no replay files")
    ap.add_argument("--only", default=None, help="comma list of driver ids (debugging; evidence marked partial)")
    a = ap.parse_args()
    if a.replay:
        return do_replay(a.replay, a.json)
    prop = a.prop.upper()
    tier = a.tier if a.tier in ("quick", "thorough") else "quick"
    try:
        seed = int(os.environ.get("VERIF_SEED", "0") or 0)
    except ValueError:
        seed = 0
    t0 = time.time()
    try:
        mod, drivers = load_drivers(prop, tier, seed)
    except Exception:
        import traceback
        traceback.print_exc()
        print("HARNESS-ERROR cannot load drivers for %s" % prop)
        return 2
    if a.only:
        drivers = [d for d in drivers if d.id in a.only.split(",")]
    # 1. bind reference models to ground truth
    vectors = 0
    try:
        for d in drivers:
            vectors += d.selfcheck() or 0
    except ModelInvalid as e:
        print("MODEL-INVALID %s: %s" % (prop, e))
        return 2
    # 2. known findings: witnesses first
    known = engine.load_known(prop)
    by_id = {d.id: d for d in drivers}
    known_lines = []
    for e in known:
        if e.get("status") != "known":
            continue
        d = by_id.get(e["witness"]["driver"])
        if d is None:
            continue
        out = d.run(e["witness"]["case"])
        if not out.ok:
            line = "KNOWN-FINDING: property=%s %s [%s]" % (prop, e["what"], e["key"])
            print(line)
            known_lines.append(e["key"])
        else:
            print("INFO stale known finding (witness no longer fails): %s" % e["key"])
    # 3. explore
    merged, died = engine.explore(drivers, a.workers, known)
    harness_errors = []
    for m in merged.values():
        harness_errors.extend(m["harness_errors"])
    if died:
        harness_errors.append("workers died without reporting: %r" % died)
    # 4. triage disagreements
    suppressed = {}
    groups = {}
    nviol = 0
    for d in drivers:
        m = merged.get(d.id)
        if not m:
            continue
        for k, v in m["suppressed"].items():
            suppressed[k] = suppressed.get(k, 0) + v
        nviol += m["nbad"] - sum(m["suppressed"].values())
        for idx, case, out in m["bad"]:
            sig = (d.id, out["cls"], json.dumps({k: v for k, v in sorted(out["tags"].items()) if k.startswith("g_") or k in ("clause", "kind")}, sort_keys=True))
            groups.setdefault(sig, []).append((case, out))
        if m["overflow"]:
            print("INFO %s: %d further unmatched disagreements not kept in detail" % (d.id, m["overflow"]))
    reported = 0
    nondet = []
    if a.list:
        for sig, lst in sorted(groups.items()):
            case, out = lst[0]
            print("GROUP %s %s n=%d\n   ref=%s\n   impl=%s\n   tags=%s\n   case=%s" % (sig[0], sig[2], len(lst), out["ref"][:200], out["impl"][:200],
                  json.dumps(out["tags"])[:300], json.dumps(case, sort_keys=True)[:400]))
        groups = {}
    for sig, lst in sorted(groups.items()):
        if reported >= engine.MAX_REPORT:
            break
        case, out = lst[0]
        path = engine.write_replay(prop, sig[0], case, out, tier, seed)
        r1 = engine.fresh_replay(path)
        r2 = engine.fresh_replay(path)
        if r1[0] != 1 or r2[0] != 1 or r1[1] != r2[1]:
            nondet.append((path, r1, r2))
            continue
        reported += 1
        print("DISAGREEMENT %s cls=%s (%d cases in this group)\n  ref : %s\n  impl: %s" % (sig[0], out["cls"], len(lst), out["ref"][:300], out["impl"][:300]))
        print("VIOLATION property=%s replay=%s" % (prop, path))
    if nondet:
        for path, r1, r2 in nondet:
            harness_errors.append("nondeterministic replay %s: %r vs %r" % (path, r1, r2))
    # 5. evidence
    wall = time.time() - t0
    states = sum(m["cases"] for m in merged.values())
    trans = sum(m["transitions"] for m in merged.values())
    nontriv = sum(m["nontrivial"] for m in merged.values())
    exhaustive = all(m["complete"] for m in merged.values()) and not died and len(merged) == len(drivers) and not a.only
    samples = []
    for d in drivers:
        m = merged.get(d.id)
        if m:
            for s in m["samples"][:6]:
                samples.append({"driver": d.id, "case": s})
    ev = dict(
        property_id=prop, tier=tier, seed=seed, level="model_checking",
        coverage=dict(
            states=states, transitions=trans, traces_validated_against_impl=trans,
            evaluations=states, distinct_nontrivial=nontriv,
            rule="every element of each driver's declared finite space is enumerated (no sampling); a state is one "
                 "distinct case/history; non-trivial = outcome class in the driver's declared interesting set; "
                 + "; ".join("%s: %s" % (d.id, d.rule) for d in drivers if d.rule),
            exhaustive=bool(exhaustive),
            samples=samples[:40],
            bound={d.id: d.bound for d in drivers},
            drivers={d.id: dict(units=m["units"], states=m["cases"], transitions=m["transitions"],
                                nontrivial=m["nontrivial"], disagreements=m["nbad"], complete=m["complete"],
                                outcome_classes=dict(sorted(m["classes"].items(), key=lambda kv: -kv[1])[:60]))
                     for d in drivers for m in [merged.get(d.id)] if m},
            reference_vectors_checked=vectors,
            known_findings_reproduced=known_lines,
            suppressed_by_known=suppressed,
            configurations=getattr(mod, "CONFIGURATIONS", lambda: {})(),
            workers=a.workers or engine.NWORKERS,
        ),
        assumptions=list(getattr(mod, "ASSUMPTIONS", [])),
        wall_s=round(wall, 2), violations=nviol,
    )
    evdir = os.environ.get("VERIF_EVIDENCE_DIR") or os.path.join(engine.VERIF, "evidence")
    os.makedirs(evdir, exist_ok=True)
    evpath = os.path.join(evdir, "%s.json" % prop)
    if not a.only:
        with open(evpath, "w") as f:
            json.dump(ev, f, indent=1, sort_keys=True)
            f.write("\n")
    print("%s tier=%s seed=%d states=%d transitions=%d nontrivial=%d classes=%d exhaustive=%s violations=%d suppressed=%d wall=%.1fs"
          % (prop, tier, seed, states, trans, nontriv, sum(len(m["classes"]) for m in merged.values()),
             exhaustive, nviol, sum(suppressed.values()), wall))
    if harness_errors:
        for h in harness_errors[:5]:
            print("HARNESS-ERROR " + h[-3000:])
        if not reported:
            return 2
    return 1 if reported else 0


if __name__ == "__main__":
    sys.exit(main())
