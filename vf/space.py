"""Deviation-bounded products of small typed alphabets (DESIGN.md section 1, Mode I)."""
import itertools


def deviations(axes, k):
    """axes: ordered dict name -> list of values (first = default).  Yields (point dict, number of deviations) for
    every point with at most k non-default coordinates, fewest deviations first, canonical order.
    k >= len(axes) gives the full product."""
    names = list(axes)
    default = {n: axes[n][0] for n in names}
    for d in range(0, min(k, len(names)) + 1):
        for combo in itertools.combinations(range(len(names)), d):
            alts = [axes[names[i]][1:] for i in combo]
            for vals in itertools.product(*alts):
                p = dict(default)
                for i, v in zip(combo, vals):
                    p[names[i]] = v
                yield p, d


def count(axes, k):
    n = 0
    for _ in deviations(axes, k):
        n += 1
    return n
